#!/bin/sh
# tools/benign.sh [names...] : behaviour-preserving rewrites of in-toto (benign/<name>/patchA.diff, patchB.diff) must
# not make any check report a violation. Applies each to /repo, runs every check (quick), undoes it; one line per run.
# Never run while anything else uses /repo.
./setup.sh >/dev/null 2>&1 || { echo "setup failed"; exit 2; }
HERE="$(pwd)"
[ $# -eq 0 ] && set -- $(ls benign)
git -C /repo status --short | grep -q . && { echo "/repo is not clean"; exit 2; }
for b in "$@"; do
  for v in A B; do
    p="$HERE/benign/$b/patch$v.diff"
    [ -f "$p" ] || continue
    git -C /repo apply "$p" || { echo "$b$v does not apply"; continue; }
    for c in C01 C02 C03 C04 C05 C06 C07 C08 C09 C10 C11 C12 C13 C14 C15 C16 C17 C18 C19 C20; do
      ./check $c --tier quick > /tmp/benign.$$.out 2>&1; rc=$?
      echo "$b$v $c rc=$rc $(grep -E 'VIOLATION|INFRA' /tmp/benign.$$.out | head -1)"
      if [ $rc -ne 0 ]; then
        mkdir -p "$HERE/benign/$b/alarms"
        cp /tmp/benign.$$.out "$HERE/benign/$b/alarms/$v-$c.out"
        rp=$(grep -E 'VIOLATION' /tmp/benign.$$.out | head -1 | sed 's/.*replay=\([^ ]*\).*/\1/')
        [ -f "$rp" ] && cp "$rp" "$HERE/benign/$b/alarms/$v-$c.replay.json"
      fi
    done
    git -C /repo checkout -q -- .
  done
done
rm -f /tmp/benign.$$.out
git -C /repo status --short
