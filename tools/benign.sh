#!/bin/sh
# tools/benign.sh [names...] : behaviour-preserving rewrites of in-toto (benign/<name>/patchA.diff, patchB.diff) must
# not make any check report a violation. Each is applied to a scratch worktree (tools/try_patch.sh; /repo is never
# touched) and every check runs against it (quick); one line per run. Alarms are kept under benign/<name>/alarms/.
HERE="$(cd "$(dirname "$0")/.." && pwd)"; cd "$HERE" || exit 2
./setup.sh >/dev/null 2>&1 || { echo "setup failed"; exit 2; }
[ $# -eq 0 ] && set -- $(ls benign)
ALL="C01 C02 C03 C04 C05 C06 C07 C08 C09 C10 C11 C12 C13 C14 C15 C16 C17 C18 C19 C20"
for b in "$@"; do
  for v in ${BENIGN_VARIANTS:-A B}; do
    p="$HERE/benign/$b/patch$v.diff"
    [ -f "$p" ] || continue
    tools/try_patch.sh "$b$v" "$p" $ALL | tee "/tmp/benign.$$.lines"
    if grep -q 'rc=[12]' "/tmp/benign.$$.lines"; then
      mkdir -p "benign/$b/alarms"
      for c in $(grep 'rc=[12]' "/tmp/benign.$$.lines" | awk '{print $2}'); do
        cp "evidence-scratch/$b$v/$c.out" "benign/$b/alarms/$v-$c.out"
        rp=$(grep -E 'VIOLATION' "evidence-scratch/$b$v/$c.out" | head -1 | sed 's/.*replay=\([^ ]*\).*/\1/')
        [ -f "$rp" ] && cp "$rp" "benign/$b/alarms/$v-$c.replay.json"
      done
    fi
  done
done
rm -f "/tmp/benign.$$.lines"
