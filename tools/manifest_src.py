NOTES = ("All checks: ./check <id> --tier quick|thorough; exit 0 held, exit 1 with a VIOLATION line, exit 2 infrastructure "
         "failure. Each check (1) builds the Lean project, (2) audits the property's theorems (#print axioms, forbidden "
         "tokens), (3) runs the correspondence between the Lean model's executable definitions and the real /repo code "
         "on generated inputs, (4) evaluates an independent property oracle on every case, (5) on a correspondence break "
         "searches for a concrete failing input. Genuine defects of the pinned tree were repaired in /repo by 'fix:' "
         "commits or recorded in known_findings.json (DESIGN.md section 4).")
NOT_YET = {}
_NOTE = ("Trusted: Lean kernel + propext/Classical.choice/Quot.sound; the hand-written model (tied to the code only by the "
         "sampled / small-scope-exhaustive correspondence run on every check); the Python harness and its oracles. ")
_T = "Lean 4 proof about an executable model + differential correspondence with the real code + independent oracle"


def _c(text, note="", technique=_T):
    return {"text": text, "note": _NOTE + note, "technique": technique}


CLAIMED = {
    "C01": _c("Theorems C01_accept_requires (acceptance implies non-empty key set, a successful signature check for every supplied "
              "key, the evaluated payload is the one carried by that metadata, now < expiry), sigcheck_ok_sound (a successful "
              "check means the scheme accepted a present signature for the key's material over exactly the canonical / PAE bytes "
              "of the payload), C01_evaluates_signed_content, C01_empty_keys / _missing_signature / _expired, C09_edit_detected; "
              "for every scheme, world, key set, fuel. Correspondence: real Metadata.load + in_toto_verify under an injected clock "
              "and TZ vs the model on key-set / expiry / leaf-edit / signature-edit families; op expiry vs dateutil+iso8601.",
              "Signature scheme abstract (ideal table in the correspondence); non-malleability is a hypothesis of C09_edit_detected."),
    "C02": _c("Theorems authorise_sound (the three documented authorisation cases), C02_counted_sound (>= threshold distinct main ids, "
              "each backed by a loaded, authorised, name-bound link that passed the check with the selected key), C02_retained_good, "
              "C02_ignore_bad_stage (the stage's result is unchanged by removing unsigned / altered / unauthorised / expired / "
              "other-family links), C02_subkey_only. Correspondence: link directories described per file by (file-name id, signer, "
              "tamper, format), incl. the full gpg (authorised, file name, signer) grid over masters and signing subkeys.",
              "gpg cases bounded by the repo's test keyring; files that are not loadable metadata abort verification (DESIGN 4.3)."),
    "C03": _c("Theorems C03_consuming / genericCond_* (CREATE, DELETE, MODIFY, ALLOW remove exactly the matching artifacts that meet "
              "the definition), C03_disallow, C03_require, C03_match_only_if / _if / _missing_link, C03_sequence_pass / _fail, "
              "C03_queue_shrinks, C03_all_items, C03_order_independent(+_perm,_item), hashEq_perm; for an arbitrary glob matcher. "
              "Correspondence: Lean Glob vs fnmatch exhaustively for short patterns; verify_item_rules on random worlds with REQUIRE probes.",
              "fnmatch.translate of CPython 3.12 is modelled and exhaustively compared at small scope, not proved."),
    "C04": _c("Theorem C04_rules_iff: for the closed chain rule shape (REQUIRE every product of the previous step, MATCH * WITH PRODUCTS, "
              "DISALLOW *) and any matcher for which * matches everything, the rule stage passes iff the step's materials are exactly "
              "the previous step's products (same paths, equal hash records) - so any covered file modified / added / removed / renamed "
              "between two steps or in the final product fails, and nothing else does; with C10_record_spec / C10_walk_iff (what a "
              "recording is) and C02_retained_good (edited / swapped / unauthorised links never count). Correspondence: real round "
              "trips with in_toto_run / record start+stop, a derived closed layout, one tamper event, real in_toto_verify and the Lean "
              "verify on the files in-toto wrote.",
              "The pipeline-level statement is composed from the stage theorems; it is exercised end-to-end by the correspondence only."),
    "C05": _c("Theorems C05_agreeing_group (threshold > 1: >= threshold retained links, all equal to the first on materials and "
              "products, and the first is what rules, referencing rules and the summary link use), reduce_is_first, "
              "C05_disagree_rejected (any position), C05_constraint_failure_rejects. Correspondence: thresholds 1-3, 2-4 signers, "
              "dissenters valid / invalid / unauthorised in every load-order position; summary link observed."),
    "C06": _c("Theorems C06_sublayout_complete (every retained sublayout passed the same `verify` with exactly the key the parent lists "
              "for that functionary, directory <dir>/<step>.<kid8>, the step name, no parameters; every link the parent uses stems "
              "from a retained entry), C06_summary_link (first materials + last products), C06_failure_propagates; for every fuel, "
              "hence every depth. Correspondence: trees of depth 1-3 with eight kinds of injected sublayout defects."),
    "C07": _c("Theorems C07_prefix (executed commands = command lines of a prefix of the inspection list, in order, once; all but the "
              "last exited 0; success iff the whole list ran with status 0), C07_gate (any command only after gate + loading + "
              "signature thresholds; own commands only after sublayouts, constraints and step rules too), "
              "C07_unauthenticated_never_runs, C07_failing_inspection_rejects. Correspondence: helper commands logging to an "
              "append-only file, real time-outs, nine injected earlier-stage failures at root and in sublayouts.",
              "Kernel scheduling and real process start failures are not modelled; a 30 s sleeper stands for a time-out (limit 1 s)."),
    "C08": _c("Theorem C08_name_binding (every retained entry whose payload is a link names the step it is presented for), via "
              "verifyStepLinks_inv. Correspondence: copy / rename of a link between every ordered pair of steps sharing a functionary, "
              "rules that would / would not notice, both formats."),
    "C09": _c("Theorems C09_edit_detected, C09_other_key_fails, C09_signature_edit_detected (under non-malleability of the signatures "
              "present), C09_sign_verify (replace / append), C09_verifies_iff_metablock / _envelope; canon / PAE model compared byte "
              "for byte with securesystemslib on random values; sign -> dump -> load -> verify through in-toto for rsa / ecdsa / ed25519 / "
              "gpg master / gpg subkey x both formats x compact / indented, leaf and signature edits, in-toto-sign sequences.",
              "Injectivity of the canonical encoding for arbitrarily nested values: see DESIGN section 6 (partial)."),
    "C10": _c("Theorems C10_walk_iff (the walk yields exactly the reachable non-directory entries: files, links to files, dangling links; "
              "descending into sub-directories unless excluded and into directory links only when asked), C10_record_spec / "
              "recordFiles_inv (exactly one key per non-excluded file candidate = scheme + stripped normalised path, with its digest; "
              "nothing else), C10_collision_fails (two recorded candidates with the same key under prefix stripping => PrefixError, "
              "with or without file:), C10_overlapping_prefixes_rejected. Correspondence: random trees on disk vs record_artifacts_as_dict; "
              "op normpath; independent reference recorder as oracle.",
              "Exclusion predicate (pathspec) and SHA-256 are parameters; no backslash in names; acyclic directory links."),
    "C19": _c("Theorems C19_reports (the three reports are exactly keys(products) \\ keys(local), keys(local) \\ keys(products), and the common "
              "paths with unequal hash records), C19_disjoint, C19_empty_iff (all empty iff same paths and equal records). Correspondence: "
              "trees recorded, edited (modify / add / delete / rename / rewrite / excluded file) and compared through the library and "
              "through in-toto-match-products main in both formats.",
              "The local side is the C10 recording."),
    "C20": _c("Theorems C20_dir_spec, C20_order_independent (any listing / creation order gives the same digest text), C20_text_injective "
              "(fixed-width digests, newline-free paths: the text determines the set of (path, digest) entries), C20_ostree_spec. "
              "Correspondence: sha256(model text) = implementation digest on trees created in shuffled order, edited variants, excludes, "
              "non-ASCII-sorting names; synthetic OSTree repositories.",
              "SHA-256 collision freedom is what turns text injectivity into digest sensitivity; C-locale collation = code-point order is "
              "checked by correspondence."),
    "C11": _c("Theorems C11_link_spec (materials = recording before, products = recording after, command, exit status and - only if "
              "requested - output, signer, file written under <dir>/<name>.<keyid8>.link identical to the returned link, nothing "
              "written without a key) and C04_rules_iff (completeness direction: an honest chain passes the closed rules). "
              "Correspondence: every link written in the C04 round trips is judged against independent before / after snapshots, and "
              "honest histories (plus content-preserving rewrites and excluded files) must verify.",
              "Honest-chain acceptance through the whole pipeline is established by correspondence, not by a single theorem."),
    "C12": _c("Theorems C12_stop_spec (success iff the preliminary record exists, is intact and was signed by the same key; the result "
              "holds the start-time materials and stop-time products), C12_stop_failure_cases, C12_ops_refine, C12_crash_safe (for every "
              "number of completed operations, incl. a crash inside the write: preliminary intact or final complete), C12_retry, "
              "C12_disjoint_names. Correspondence: audit trace of the real stop = model operation list; the process killed at every "
              "audited operation and at five byte offsets of the final write, surviving directory = model crash state, retry succeeds; "
              "missing / edited / re-signed / foreign preliminary records; interleaved start / stop / run of two names and keys.",
              "'The process dies' = os._exit at an audited operation or inside write(); power-loss durability (fsync) is outside."),
    "C13": _c("Theorems C13_exact (for every schedule of child writes / polls / exit, every read-chunk size and every chunking: returned "
              "status = exit status, captured text = universal-newline translation of the decoding of all bytes written), "
              "translateNL_append, nl_nonfinal, nl_final (the newline translator does not depend on chunk boundaries), C13_timeout, "
              "C13_status, latin1_chunkIndependent (non-vacuity), and three kernel-checked regression witnesses for the loop before the "
              "repair (old_loop_loses_output, _splits_char, _doubles_newline). Correspondence: the real function under a scripted Popen "
              "and clock (deterministic interleavings), exhaustive for <= 3 polls over a 5-chunk alphabet.",
              "The incremental UTF-8 decoder's chunking independence is a hypothesis (compared with CPython on every schedule); kernel "
              "scheduling and real timing are not modelled."),
    "C15": _c("Theorems C15_restored (every program built from neutral operations and the code's three brackets - chdir / settings / capture "
              "files - restores cwd, ARTIFACT_BASE_PATH and the temp set under every fault plan, whether it returns or raises), "
              "C15_entry_points (recording, stream capture, in_toto_run, inspections), and regression witnesses old_chdir_not_restored, "
              "old_capture_file_leaked. Correspondence / fault enumeration: 20 call shapes traced with an audit hook, an OSError injected "
              "at every traced operation in turn, state compared before / after, raised-or-not compared with the model's exec.",
              "Faults at the restoring operations themselves are enumerated but not judged; os.walk swallows scandir errors."),
    "C18": _c("Theorems C18_zero_iff (status 0 iff the named success, for every tool and outcome class), C18_usage, C18_verify_failure, "
              "C18_sign_verify_failure, C18_other_failures, C18_range. The theorem is a decision table; the weight is in the "
              "correspondence: every front end's main() over verification scenarios of C02 / C05-C08 with --verification-keys, "
              "--layout-keys and --gpg, run / record / mock / sign / match-products with their failure and usage variants, both formats; "
              "status 0 iff the library call succeeded and the output file exists.",
              "Translation-validation in character: the outcome class of each invocation is established by the library call."),
    "C14": _c("Theorems C14_signature_check_equiv (same signers, distinct key ids, non-gpg key: first-match and any-match checks agree), "
              "C14_layout_format_irrelevant (verdict, summary link and trace depend on the layout's container only through payload and "
              "check outcomes), C14_envelope_untouched. Correspondence: every C02 / C05 / C06 / C07 / C08 scenario materialised under "
              "three format assignments, outcomes compared across assignments and with the model; run / record / sign / "
              "match-products through library and in-toto-match-products main in both formats.",
              "Link-level (world) format equivalence is established by correspondence only; duplicate key ids excluded (DESIGN 4.3)."),
    "C16": _c("Theorems C16_verbatim (value inserted as is, scan resumes in the template), C16_literal, C16_escaped_braces, "
              "C16_missing_fails, C16_subst_error_rejects, C16_bad_params_fail, C16_after_gate, C16_covers_step / _inspection / _layout, "
              "C16_caller_unchanged_partial / _identity, and C16_caller_unchanged_refuted (the full 'caller's object unchanged' "
              "statement is FALSE of the code for traditional metadata: known finding D8, kernel-checked counterexample). "
              "Correspondence: op format vs str.format; verify with parameters; sequences of 2-4 verifications of one object.",
              "str.format beyond {name}, {{, }} is outside the modelled subset. D8 is matched against known_findings.json by shape; "
              "any other alteration or inconsistency is a violation."),
    "C17": _c("Theorems C17_positions (accepted iff one of the documented shapes, with exactly that meaning), C17_total (otherwise "
              "FormatError), C17_nonstr_rejected, C17_roundtrip / C17_pack_succeeds_iff, C17_case_even / C17_case_desttype, "
              "C17_step / _inspection / _layout / _metadata_malformed_rule (cannot be constructed or loaded); no length bound. "
              "Correspondence: exhaustive short token lists, all single mutations of the shapes, random lists; malformed rule at "
              "every position of random layouts through Step(), Inspection(), Layout.read, Metadata.load, Envelope.get_payload.",
              "ASCII lower-casing in the model vs str.lower() (argument in DESIGN C17)."),
}


# ---------------------------------------------------------------------------------------------------------------
# Added as the model and the correspondence grew (kept apart from the first texts above so that both stay readable).
ADDENDA = {
    "C01": "Added: objects in the verifier's memory (wrapped / loaded and then edited without re-wrapping): the outcome must be "
           "that of verifying what the object serialises to.",
    "C03": "Added: for the modelled matcher, Glob.matchToks_iff (the backtracking matcher decides a declarative relation), "
           "fnmatch_star (* matches every path), fnmatch_literal, fnmatch_question.",
    "C04": "Added: completeness as one theorem, honest_chain_verifies / honestCheck_sound (an honestly performed chain of "
           "single-functionary steps verifies: any length, either format, keys with subkeys, any inspections); the round trips now "
           "draw recording options (exclude patterns incl. root-anchored ones, one / two stripped prefixes, base path), gpg keys, "
           "no-command runs, same-size same-mtime changes and Unicode normalisation-form renames; every link is compared with the "
           "Lean inTotoRun; the theorem's hypotheses are evaluated by the driver on the files in-toto wrote.",
    "C09": "Added: canon_injective (canonical JSON is injective up to the order of object members, any nesting; via the uniquely "
           "decodable unsorted renderer enc and canon = enc o norm), canon_obj_members_perm, pae_injective, "
           "C09_content_edit_detected / C09_envelope_edit_detected; sign_keyids_mem / sign_out_link (in-toto-sign: signature list "
           "and output file, driver op sign_ops); histories of verify / impostor key / sign / append (duplicate signers) / corrupt / "
           "edit / reload on one in-memory object per format; DSSE bytes independent of member order.",
    "C11": "Added: honest_chain_verifies / honestCheck_sound / gate_complete (see C04); every link written by in_toto_run is "
           "compared with the Lean inTotoRun on the before / after snapshots under the history's recording options; on every honest "
           "history the hypotheses of honest_chain_verifies must hold and its prediction must equal the implementation's result.",
    "C12": "Added: C12_stop_extras (library-only command / byproducts / environment arguments), C12_stop_glob_spec (gpg "
           "key-argument forms: exactly one preliminary record of the step, same key), C12_noninterference (interleaved calls for "
           "other step names / keys do not change what a pair's calls produce); final link content and failure classes vs the Lean "
           "recordStop / recordStopGlob; random interleavings vs runDirOps; a real RLIMIT_FSIZE fault family; duplicated "
           "preliminary files.",
    "C13": "Added: utf8Decoder_chunkIndependent and C13_exact_utf8 (the chunking-independence hypothesis is discharged for the "
           "model's strict UTF-8 decoder); a family of real child processes (real capture files, polling, clock, signals).",
    "C14": "Added: C14_world (two worlds whose files are pairwise equivalent - same payload or load error, same signature-check "
           "result for every key of a class K, key stores closed under K - give the same verify outcome at every depth) and "
           "C14_containers_equiv (a traditional file and an envelope with the same payload and signers are equivalent for non-gpg "
           "keys): every assignment of the two formats gives the same outcome, as a theorem. The in-memory histories on a traditional and a DSSE twin; scenarios of the C16 generator (placeholders and "
           "parameter sets) under the three format assignments; library-only arguments of in_toto_record_stop in both formats.",
    "C15": "Added: verification shapes with zero / two inspections and a delegated step; left-over files in the work / base "
           "directories are part of the state compared.",
    "C18": "Added: the front ends' own argument checks are modelled (RunArgs / RecordArgs / VerifyArgs / SignArgs; "
           "C18_run_zero_iff, C18_run_zero_signer, C18_run_empty_key, C18_record_zero_iff, C18_verify_zero_iff, C18_verify_no_keys, "
           "C18_sign_zero_iff; driver op cli_main fed with what in-toto's own create_parser() leaves in the namespace); "
           "sign_verify_success_iff / verify_keys_complete (several keys in one invocation: every key counts); empty key "
           "arguments, mixed key options, verification with several keys in any order.",
    "C19": "Added: path lists with look-alike siblings and nested extras; a warm-up comparison followed by in-place edits that keep "
           "size and time stamps.",
    "C20": "Added: siblings whose names differ from a directory's by a character below '/', anchored patterns and pattern-matching "
           "locations of the directory, OSTree refs recorded again after the object was rewritten / from a second repository.",
}
NOTE_REPLACEMENTS = {
    "C09": ("Injectivity of the canonical encoding for arbitrarily nested values: see DESIGN section 6 (partial).",
            "Injectivity is proved at JSON level; that the typed readers (link, layout) are injective up to member order is by the "
            "load correspondence (DESIGN 10.5)."),
    "C11": ("Honest-chain acceptance through the whole pipeline is established by correspondence, not by a single theorem.",
            "Honest-chain acceptance is a theorem for single-functionary steps; thresholds above 1 and delegated steps stay with the "
            "stage theorems and the correspondence."),
    "C13": ("The incremental UTF-8 decoder's chunking independence is a hypothesis (compared with CPython on every schedule); kernel "
            "scheduling and real timing are not modelled.",
            "That the model's UTF-8 decoder is CPython's is by correspondence (every schedule); kernel scheduling and real timing are "
            "not modelled (real child processes are run as well)."),
}
# Session 3.
ADDENDA3 = {
    "C02": "Session 3: honest_chain_verifies / honestCheck_sound now hold for any number of functionaries per step and any threshold "
           "(the succeeds-if half at pipeline level); wherever their hypotheses hold on a generated world the prediction must be the "
           "implementation's result. Double replay, one gpg functionary with two subkey links beside a replayed link, a key store "
           "that spells a gpg id in upper case, validly signed ill-formed links. C02_unloadable_link_never_skipped: a link file "
           "that exists under a tried name and does not load ends the loading with an error, whatever else is there (files whose "
           "text does not load, and signature values damaged into non-hex, are tamper kinds of every run).",
    "C03": "Session 3: a family over verify_all_item_rules (several items, both rule lists, shared paths) against the Lean "
           "verifyAllItemRules (driver op all_item_rules); prefixes written with backslashes.",
    "C04": "Session 3: C11_run_link_is_loaded; line-ending-only tamper; gpg key ids in other spellings and keys with signing subkeys; "
           "kinds of change and recording option sets are cycled through in every run.",
    "C05": "Session 3: honest_chain_verifies covers agreeing groups of any size (see C02); dissent by hash records that share no "
           "algorithm / are empty / carry one digest more; kinds of dissent and alias spellings cycled through.",
    "C06": "Session 3: honestCheck_sound covers delegated steps at every depth (recursive decision procedure, induction on the "
           "budget): it predicts summary link and inspection trace of honest trees, compared with the implementation wherever it "
           "applies; step-less delegated layouts; sibling steps 'pkg' / 'pkg.deb'; every defect kind in every run.",
    "C07": "Session 3: accepted implies every inspection of every layout in the tree ran exactly once; honestCheck_sound predicts the "
           "order of the commands across the tree; step-less delegated layouts; every failing earlier stage, at the root and inside "
           "a delegated layout, in every run.",
    "C11": "Session 3: run_path_is_tried / loadStepLinks_finds / C11_run_link_is_loaded (the file a run wrote - under the key's id or a "
           "signing subkey's - is among the links loaded for its step); honest_chain_verifies covers links filed under a subkey's id, "
           "several functionaries, delegated steps; output split inside a character on both streams.",
    "C18": "Session 3: a share of every family runs the front end as a child process, in both spellings (the console-script wrapper "
           "generated from [project.scripts] of the current pyproject.toml, and python -m); every variant of every family occurs in "
           "every run. The outcome of in-toto-verify's operation is the MODEL's on worlds without inspection commands "
           "(C02_unloadable_link_never_skipped among the theorems that then apply), not merely the library's.",
}
NOTE_REPLACEMENTS["C11"] = (NOTE_REPLACEMENTS["C11"][0],
                            "Honest-chain acceptance is a theorem for any number of functionaries per step, any threshold and delegated "
                            "steps at any depth (honest_chain_verifies, honestCheck_sound).")
for _k, _t in ADDENDA.items():
    CLAIMED[_k]["text"] = CLAIMED[_k]["text"] + " " + _t
for _k, _t in ADDENDA3.items():
    CLAIMED[_k]["text"] = CLAIMED[_k]["text"] + " " + _t
for _k, (_old, _new) in NOTE_REPLACEMENTS.items():
    if _old in CLAIMED[_k]["note"]:
        CLAIMED[_k]["note"] = CLAIMED[_k]["note"].replace(_old, _new)
