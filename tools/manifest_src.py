NOTES = ("All checks: ./check <id> --tier quick|thorough; exit 0 held, exit 1 with a VIOLATION line, exit 2 infrastructure "
         "failure. Genuine defects of the pinned tree were repaired in /repo by 'fix:' commits or recorded in "
         "known_findings.json (see DESIGN.md section 4).")
NOT_YET = {}
_NOTE = ("Trusted: Lean kernel + propext/Classical.choice/Quot.sound; the hand-written model (tied to the code only by the "
         "sampled/small-scope-exhaustive correspondence run on every check); the Python harness. ")
CLAIMED = {
    "C17": {
        "text": "Lean theorems C17_positions (accepted iff one of the documented shapes, with exactly that meaning), C17_total "
                "(otherwise FormatError), C17_roundtrip / C17_pack_succeeds_iff (write-back and re-parse is the identity; "
                "only an empty step name cannot be written), C17_case_even / C17_case_desttype (keyword case irrelevant, "
                "operands verbatim), C17_malformed_cannot_load; for all token lists, no length bound. Tied to "
                "in_toto.rulelib by exhaustive short token lists, all single mutations of the 7 shapes and random lists.",
        "note": _NOTE + "ASCII lower-casing in the model vs str.lower() (argument in DESIGN C17).",
        "technique": "Lean 4 proof (case analysis on list shape) + differential correspondence with unpack_rule/pack_rule_data",
    },
}
