#!/bin/sh
# tools/try_patch.sh <label> <patch.diff> <check ids...> : apply a change to a scratch worktree of /repo (never to /repo
# itself), run the given checks (quick tier, VERIF_SEED as set) against that copy, print one line per check, remove the
# worktree. Evidence and replays of such runs go to evidence-scratch/<label>/ (not committed). Exit 0 always; read the lines.
HERE="$(cd "$(dirname "$0")/.." && pwd)"
label="$1"; patch="$2"; shift 2
case "$patch" in /*|-) ;; *) patch="$(pwd)/$patch";; esac
wt="/tmp/verif-wt/$label.$$"
mkdir -p /tmp/verif-wt
git -C /repo worktree add --detach -q "$wt" HEAD || exit 2
trap 'git -C /repo worktree remove --force "$wt" 2>/dev/null; rm -rf "$wt"' EXIT INT TERM
if [ "$patch" != "-" ]; then
  git -C "$wt" apply "$patch" || { echo "$label: patch does not apply"; exit 0; }
fi
ev="$HERE/evidence-scratch/$label"
rm -rf "$ev"; mkdir -p "$ev"
for c in "$@"; do
  VERIF_REPO="$wt" VERIF_EVIDENCE="$ev" "$HERE/check" "$c" --tier "${VERIF_TIER:-quick}" > "$ev/$c.out" 2>&1; rc=$?
  echo "$label $c rc=$rc $(grep -E 'VIOLATION|INFRA' "$ev/$c.out" | head -1)"
done
