#!/usr/bin/env python3
"""Validate MANIFEST.json and evidence/*.json against the schemas (python3-vt has jsonschema)."""
import glob, json, os, sys
import jsonschema
HERE = os.path.dirname(os.path.dirname(os.path.abspath(__file__)))
ok = True
def v(path, schema):
    global ok
    try:
        jsonschema.validate(json.load(open(path)), json.load(open(schema)))
    except Exception as e:
        ok = False
        print("INVALID", path, str(e)[:300])
v(os.path.join(HERE, "MANIFEST.json"), "/root/.vp/MANIFEST.schema.json")
for f in sorted(glob.glob(os.path.join(HERE, "evidence", "C*.json"))):
    v(f, "/root/.vp/EVIDENCE.schema.json")
print("valid" if ok else "INVALID")
sys.exit(0 if ok else 1)
