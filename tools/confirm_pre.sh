#!/bin/sh
# tools/confirm_pre.sh <name> <worktree> <outdir>: the part of confirm_seeded.sh that does not touch /repo
# (suite passes with the change; demo fails with it and passes without it); stores the change under seeded/<name>/.
# The checks are then run with tools/recheck_seeded.sh <name> <check ids...>.
name="$1"; wt="$2"; out="$3"
HERE="$(pwd)"
set -u
mkdir -p "seeded/$name"
cp "$out/patch.diff" "seeded/$name/patch.diff"
cp "$out/demo.py" "seeded/$name/demo.py" 2>/dev/null
cp "$out/meta.json" "seeded/$name/meta.json" 2>/dev/null
log="seeded/$name/confirm.log"; : > "$log"
git -C "$wt" checkout -q -- . && git -C "$wt" apply "$HERE/seeded/$name/patch.diff" || { echo "patch does not apply to a clean worktree" | tee -a "$log"; exit 1; }
echo "== suite with the change" | tee -a "$log"
/tmp/wt/run_tests.sh "$wt" 2>&1 | tail -4 | tee -a "$log"
echo "== demo with the change (must be non-zero)" | tee -a "$log"
(cd "$wt" && PYTHONPATH="$wt" /venv/bin/python "$HERE/seeded/$name/demo.py" > /tmp/demo.$$.out 2>&1; echo "exit=$?" >> /tmp/demo.$$.out); tail -3 /tmp/demo.$$.out | tee -a "$log"
git -C "$wt" checkout -q -- .
echo "== demo without the change (must be 0)" | tee -a "$log"
(cd "$wt" && PYTHONPATH="$wt" /venv/bin/python "$HERE/seeded/$name/demo.py" > /tmp/demo.$$.out 2>&1; echo "exit=$?" >> /tmp/demo.$$.out); tail -2 /tmp/demo.$$.out | tee -a "$log"
rm -f /tmp/demo.$$.out
echo "== checks against /repo with the change applied" | tee -a "$log"
