#!/bin/sh
# tools/confirm_seeded.sh <name> <worktree> <outdir> <check ids...>
# Confirms a seeded change independently (suite passes with it; demo fails with it and passes without it),
# stores it under seeded/<name>/, then runs the given checks (quick) against a scratch worktree with the change
# (tools/try_patch.sh; /repo itself is never touched).
name="$1"; wt="$2"; out="$3"; shift 3
HERE="$(cd "$(dirname "$0")/.." && pwd)"; cd "$HERE" || exit 2
set -u
mkdir -p "seeded/$name"
cp "$out/patch.diff" "seeded/$name/patch.diff"
cp "$out/demo.py" "seeded/$name/demo.py" 2>/dev/null
cp "$out/meta.json" "seeded/$name/meta.json" 2>/dev/null
log="seeded/$name/confirm.log"; : > "$log"
git -C "$wt" checkout -q -- . && git -C "$wt" apply "$HERE/seeded/$name/patch.diff" || { echo "patch does not apply to a clean worktree" | tee -a "$log"; exit 1; }
echo "== suite with the change" | tee -a "$log"
VERIF_REPO="$wt" python3 tools/baseline.py > /tmp/suite.$$.out 2>&1 && echo "SUITE OK" >> /tmp/suite.$$.out || echo "SUITE BROKEN" >> /tmp/suite.$$.out
tail -4 /tmp/suite.$$.out | tee -a "$log"; rm -f /tmp/suite.$$.out
echo "== demo with the change (must be non-zero)" | tee -a "$log"
(cd "$wt" && PYTHONPATH="$wt" /venv/bin/python "$HERE/seeded/$name/demo.py" > /tmp/demo.$$.out 2>&1; echo "exit=$?" >> /tmp/demo.$$.out); tail -3 /tmp/demo.$$.out | tee -a "$log"
git -C "$wt" checkout -q -- .
echo "== demo without the change (must be 0)" | tee -a "$log"
(cd "$wt" && PYTHONPATH="$wt" /venv/bin/python "$HERE/seeded/$name/demo.py" > /tmp/demo.$$.out 2>&1; echo "exit=$?" >> /tmp/demo.$$.out); tail -2 /tmp/demo.$$.out | tee -a "$log"
rm -f /tmp/demo.$$.out
echo "== checks against a scratch copy with the change applied" | tee -a "$log"
tools/try_patch.sh "$name" "seeded/$name/patch.diff" "$@" | tee -a "$log"
for c in "$@"; do
  rp=$(grep -E 'VIOLATION' "evidence-scratch/$name/$c.out" 2>/dev/null | head -1 | sed 's/.*replay=\([^ ]*\).*/\1/')
  [ -n "$rp" ] && [ -f "$rp" ] && cp "$rp" "seeded/$name/replay-$c.json"
done
