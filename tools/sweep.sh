#!/bin/sh
# tools/sweep.sh <tier> <seed>...  : run every check with the given seeds; print one line per run
# (background use: vp run -- sh tools/sweep.sh quick 1 2 3). Needs the Lean build (runs setup first).
tier="$1"; shift
./setup.sh >/dev/null 2>&1 || { echo "setup failed"; exit 2; }
for s in "$@"; do
  for p in C01 C02 C03 C04 C05 C06 C07 C08 C09 C10 C11 C12 C13 C14 C15 C16 C17 C18 C19 C20; do
    VERIF_SEED=$s ./check $p --tier "$tier" > /tmp/sweep.$$.out 2>&1
    rc=$?
    echo "seed=$s $p rc=$rc $(grep -v '^KNOWN' /tmp/sweep.$$.out | tail -1)"
    [ $rc -ne 0 ] && grep -E "VIOLATION|INFRA" /tmp/sweep.$$.out
  done
done
rm -f /tmp/sweep.$$.out
