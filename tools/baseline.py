#!/usr/bin/env python3
"""Run /repo's pinned test suite (command from /root/.vp/BASELINE.json when
present) and check that every stable_pass test passes. Exit 0 iff so."""
import json, os, subprocess, sys, tempfile
import xml.etree.ElementTree as ET

BASE = "/root/.vp/BASELINE.json"
REPO = os.environ.get("VERIF_REPO", "/repo")
PY = os.environ.get("VERIF_PYTHON", "/venv/bin/python")

def main():
    stable = None
    if os.path.exists(BASE):
        stable = set(json.load(open(BASE))["stable_pass"])
    with tempfile.TemporaryDirectory() as d:
        xml = os.path.join(d, "r.xml")
        env = dict(os.environ)
        env.pop("IN_TOTO_VERIF", None)
        env["PYTHONDONTWRITEBYTECODE"] = "1"
        p = subprocess.run([PY, "-m", "pytest", "-ra", "-q", "-p", "no:cacheprovider",
                            "--timeout=900", "--continue-on-collection-errors",
                            "--junitxml=" + xml], cwd=REPO, env=env,
                           stdout=subprocess.PIPE, stderr=subprocess.STDOUT, text=True)
        passed, failed = set(), set()
        for tc in ET.parse(xml).getroot().iter("testcase"):
            name = "%s::%s" % (tc.get("classname"), tc.get("name"))
            bad = any(c.tag in ("failure", "error", "skipped") for c in tc)
            (failed if bad else passed).add(name)
    print("passed=%d failed=%d" % (len(passed), len(failed)))
    if stable is None:
        print("no BASELINE.json; pytest exit", p.returncode)
        return 0 if p.returncode in (0, 1) else 1
    missing = sorted(stable - passed)
    print("stable_pass=%d missing=%d" % (len(stable), len(missing)))
    for m in missing:
        print("  NOT PASSING:", m)
    if missing:
        print(p.stdout[-3000:])
    return 1 if missing else 0

if __name__ == "__main__":
    sys.exit(main())
