#!/bin/sh
# tools/final.sh: the end-of-session routine - /repo must be clean; every check's quick command runs once on the unchanged
# tree (seed 0) and writes its evidence file; the manifest is regenerated and validated.
cd "$(dirname "$0")/.." || exit 2
git -C /repo status --short | grep -q . && { echo "/repo is not clean"; exit 2; }
./setup.sh > /dev/null 2>&1 || { echo "setup failed"; exit 2; }
bad=0
for c in C01 C02 C03 C04 C05 C06 C07 C08 C09 C10 C11 C12 C13 C14 C15 C16 C17 C18 C19 C20; do
  VERIF_SEED=0 ./check $c --tier quick > /tmp/final.$$.out 2>&1; rc=$?
  echo "$c rc=$rc $(grep -v '^KNOWN' /tmp/final.$$.out | tail -1)"
  [ $rc -ne 0 ] && bad=1
done
rm -f /tmp/final.$$.out
python3 tools/gen_manifest.py > /dev/null && python3-vt tools/validate.py | tail -1
exit $bad
