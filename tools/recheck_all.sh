#!/bin/sh
# tools/recheck_all.sh [names...]: regression run over the seeded changes - applies each seeded/<name>/patch.diff to /repo,
# runs the check of the property it was written against (quick tier), undoes it, and prints one line per change.
# /repo must be clean and no other run may use it meanwhile.
cd "$(dirname "$0")/.." || exit 2
git -C /repo status --short | grep -q . && { echo "/repo is not clean"; exit 2; }
names="$*"
[ -z "$names" ] && names=$(ls seeded | grep -v notes.json)
miss=0
for name in $names; do
  [ -f "seeded/$name/patch.diff" ] || continue
  id=$(echo "$name" | cut -c1-3)
  git -C /repo apply "$(pwd)/seeded/$name/patch.diff" || { echo "$name: patch does not apply"; continue; }
  ./check "$id" --tier quick > /tmp/recheck.$$.out 2>&1; rc=$?
  git -C /repo checkout -q -- .
  line=$(grep -E 'VIOLATION' /tmp/recheck.$$.out | head -1)
  echo "$name $id rc=$rc $line"
  [ $rc -eq 1 ] || miss=$((miss+1))
done
rm -f /tmp/recheck.$$.out
git -C /repo status --short
echo "not detected by own check: $miss"
