#!/bin/sh
# tools/recheck_all.sh [-j N] [names...]: regression run over the seeded changes - each seeded/<name>/patch.diff is applied
# to a scratch worktree (tools/try_patch.sh; /repo is never touched) and the check of the property it was written
# against runs against it (quick tier); one line per change, N at a time (default 3).
cd "$(dirname "$0")/.." || exit 2
j=3
[ "$1" = "-j" ] && { j="$2"; shift 2; }
names="$*"
[ -z "$names" ] && names=$(ls seeded | grep -v notes.json)
for name in $names; do
  [ -f "seeded/$name/patch.diff" ] && echo "$name"
done | xargs -P "$j" -I{} sh -c 'id=$(echo {} | cut -c1-3); tools/try_patch.sh {} seeded/{}/patch.diff $id' | tee /tmp/recheck.$$.lines
echo "not detected by own check: $(grep -vc "rc=1" /tmp/recheck.$$.lines)"
rm -f /tmp/recheck.$$.lines
