#!/bin/sh
# tools/recheck_seeded.sh <name> <check ids...>: runs the checks (quick) against a scratch worktree with
# seeded/<name>/patch.diff applied (tools/try_patch.sh), appends the lines to seeded/<name>/confirm.log.
name="$1"; shift
HERE="$(cd "$(dirname "$0")/.." && pwd)"; cd "$HERE" || exit 2
log="seeded/$name/confirm.log"
echo "== re-check after strengthening" | tee -a "$log"
tools/try_patch.sh "$name" "seeded/$name/patch.diff" "$@" | tee -a "$log"
for c in "$@"; do
  rp=$(grep -E 'VIOLATION' "evidence-scratch/$name/$c.out" 2>/dev/null | head -1 | sed 's/.*replay=\([^ ]*\).*/\1/')
  [ -n "$rp" ] && [ -f "$rp" ] && cp "$rp" "seeded/$name/replay-$c.json"
done
