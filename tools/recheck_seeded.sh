#!/bin/sh
# tools/recheck_seeded.sh <name> <check ids...>: applies seeded/<name>/patch.diff to /repo, runs the checks (quick), undoes it.
name="$1"; shift
HERE="$(pwd)"
log="seeded/$name/confirm.log"
git -C /repo status --short | grep -q . && { echo "/repo is not clean"; exit 2; }
git -C /repo apply "$HERE/seeded/$name/patch.diff" || { echo "patch does not apply to /repo"; exit 1; }
echo "== re-check after strengthening ($(date -u +%FT%TZ))" | tee -a "$log"
for c in "$@"; do
  ./check "$c" --tier quick > /tmp/chk.$$.out 2>&1; rc=$?
  echo "check $c rc=$rc $(grep -E 'VIOLATION' /tmp/chk.$$.out | head -1)" | tee -a "$log"
  if [ $rc -eq 1 ]; then
    rp=$(grep -E 'VIOLATION' /tmp/chk.$$.out | head -1 | sed 's/.*replay=\([^ ]*\).*/\1/')
    [ -f "$rp" ] && cp "$rp" "seeded/$name/replay-$c.json"
  fi
done
rm -f /tmp/chk.$$.out
git -C /repo checkout -q -- .
git -C /repo status --short | tee -a "$log"
