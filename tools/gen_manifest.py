#!/usr/bin/env python3
"""Regenerate MANIFEST.json from tools/manifest_src.py (kept valid at all times)."""
import json, os, sys
HERE = os.path.dirname(os.path.dirname(os.path.abspath(__file__)))
sys.path.insert(0, os.path.join(HERE, "tools"))
import manifest_src as M

props = [json.loads(l) for l in open(os.path.join(HERE, "properties.jsonl"))]
checks, na = [], []
for p in props:
    pid = p["id"]
    if pid in M.CLAIMED:
        c = M.CLAIMED[pid]
        checks.append({
            "property_id": pid,
            "quick_cmd": "./check %s --tier quick" % pid,
            "thorough_cmd": "./check %s --tier thorough" % pid,
            "evidence_file": "evidence/%s.json" % pid,
            "replay_cmd_template": "./check %s --replay {path}" % pid,
            "engine": "lean-model+correspondence",
            "level_claimed": {"category": "proof", "text": c["text"], "design_ref": "DESIGN.md section 5, " + pid},
            "level_note": c["note"],
            "technique": c["technique"],
        })
    else:
        na.append({"property_id": pid, "reason": M.NOT_YET.get(pid, "check not built yet (see DESIGN.md section 9, build order)")})
man = {
    "version": 1,
    "setup_cmd": "./setup.sh",
    "hooks": {
        "guard": "IN_TOTO_VERIF",
        "enable": "no source hooks: the harness injects clocks, schedules, faults and crashes from its own process (monkeypatching in_toto.verifylib.datetime / in_toto.runlib.subprocess, sys.addaudithook); /repo is used as installed (editable) by /venv/bin/python",
        "baseline_off_cmd": "python3 tools/baseline.py",
        "source_commits": [],
        "add_only": True,
    },
    "engines": [{
        "name": "lean-model+correspondence",
        "path": "lean/ (model InToto/*, theorems Proofs/*, driver Main.lean) + harness/ (Python correspondence, oracles, search)",
        "serves_properties": sorted(M.CLAIMED),
        "kind_free_text": "machine-checked Lean 4 proofs about a hand-written executable model, tied to /repo on every run by a differential correspondence check through a JSON-lines driver, with per-property oracles and failing-input search",
    }],
    "checks": checks,
    "notes": M.NOTES,
    "not_applicable": na,
}
json.dump(man, open(os.path.join(HERE, "MANIFEST.json"), "w"), indent=1)
print("claimed", len(checks), "not_applicable", len(na))
