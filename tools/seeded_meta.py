#!/usr/bin/env python3
"""Merge the confirmation log into seeded/<name>/meta.json (what was run, which checks catch it)."""
import json, os, re, sys
HERE = os.path.dirname(os.path.dirname(os.path.abspath(__file__)))
NOTES = json.load(open(os.path.join(HERE, "seeded", "notes.json"))) if os.path.exists(os.path.join(HERE, "seeded", "notes.json")) else {}
ONLY = set(sys.argv[1:])   # names to (re)write; none given = all
for name in sorted(os.listdir(os.path.join(HERE, "seeded"))):
    d = os.path.join(HERE, "seeded", name)
    if not os.path.isdir(d) or (ONLY and name not in ONLY):
        continue
    mp = os.path.join(d, "meta.json")
    meta = json.load(open(mp)) if os.path.exists(mp) else {}
    log = open(os.path.join(d, "confirm.log")).read() if os.path.exists(os.path.join(d, "confirm.log")) else ""
    meta["confirmed_by_builder"] = {
        "suite_with_change": "SUITE OK" in log,
        "demo_fails_with_change": bool(re.search(r"demo with the change.*?exit=[1-9]", log, re.S)),
        "demo_passes_without_change": bool(re.search(r"demo without the change.*?exit=0", log, re.S)),
        "ran": ["/tmp/wt/run_tests.sh <scratch worktree with the change>", "demo.py with and without the change",
                "tools/try_patch.sh <name> seeded/<name>/patch.diff <ids>  (scratch worktree with the change, VERIF_REPO)"
                if "scratch copy" in log else
                "git -C /repo apply patch.diff; ./check <id> --tier quick; git -C /repo checkout -- ."],
    }
    first, after = {}, {}
    parts = re.split(r"^== re-check after strengthening.*$", log, flags=re.M)
    for m in re.finditer(r"^(?:check|[\w.-]+) (C\d+) rc=(\d)(.*)$", parts[0], re.M):
        first[m.group(1)] = {"rc": int(m.group(2)), "line": m.group(3).strip()}
    for m in re.finditer(r"^after strengthening: check (C\d+) rc=(\d)(.*)$", parts[0], re.M):
        after[m.group(1)] = {"rc": int(m.group(2)), "line": m.group(3).strip()}
    for part in parts[1:]:
        for m in re.finditer(r"^(?:check|[\w.-]+) (C\d+) rc=(\d)(.*)$", part, re.M):
            after[m.group(1)] = {"rc": int(m.group(2)), "line": m.group(3).strip()}
    meta["checks_first_run"] = first
    if after:
        meta["checks_after_strengthening"] = after
    final = dict(first); final.update(after)
    caught = sorted(c for c, v in final.items() if v["rc"] == 1)
    meta["concrete_failing_input_found_by"] = sorted(c for c, v in final.items() if v["rc"] == 1 and "no-failing-input-found" not in v["line"])
    meta["caught_by"] = caught
    if name in NOTES:
        meta["builder_note"] = NOTES[name]
    json.dump(meta, open(mp, "w"), indent=1)
    print(name, "caught_by", caught, "first", {c: v["rc"] for c, v in first.items()}, "after", {c: v["rc"] for c, v in after.items()})
