"""Scenario DSL shared by the verification-pipeline properties (C01, C02, C05,
C06, C07, C08, C09, C14, C16): keys, independent canonical JSON / PAE, signing,
file materialisation, running the real in_toto_verify under an injected clock,
and sending the same world to the Lean model."""
import base64
import contextlib
import datetime
import hashlib
import io
import json
import logging
import os
import shutil
import subprocess
import sys
import tempfile
import types

from harness import core

HERE = os.path.dirname(os.path.abspath(__file__))
PAYLOAD_TYPE = "application/vnd.in-toto+json"
HELPER = os.path.join(HERE, "insp_helper.py")

# ---------------------------------------------------------------- encodings


def canon(obj):
    """Independent canonical JSON (OLPC style as used by securesystemslib)."""
    if isinstance(obj, str):
        return '"' + obj.replace("\\", "\\\\").replace('"', '\\"') + '"'
    if obj is True:
        return "true"
    if obj is False:
        return "false"
    if obj is None:
        return "null"
    if isinstance(obj, int):
        return str(obj)
    if isinstance(obj, (list, tuple)):
        return "[" + ",".join(canon(x) for x in obj) + "]"
    if isinstance(obj, dict):
        return "{" + ",".join(canon(k) + ":" + canon(obj[k]) for k in sorted(obj)) + "}"
    raise ValueError("not canonically encodable: %r" % (obj,))


def tagged(obj):
    """Tagged transport encoding understood by the Lean driver (keeps member order)."""
    if isinstance(obj, str):
        return {"s": obj}
    if isinstance(obj, bool):
        return {"b": obj}
    if obj is None:
        return None
    if isinstance(obj, int):
        return {"i": str(obj)}
    if isinstance(obj, float):
        return {"f": repr(obj)}
    if isinstance(obj, (list, tuple)):
        return [tagged(x) for x in obj]
    if isinstance(obj, dict):
        return {"o": [[k, tagged(v)] for k, v in obj.items()]}
    raise ValueError("cannot transport %r" % (obj,))


def pae(ptype, body):
    return b"DSSEv1 %d %b %d %b" % (len(ptype.encode()), ptype.encode(), len(body), body)


def key_material(pub):
    return canon(pub.get("keyval")) + "|" + canon(pub.get("scheme"))


# ---------------------------------------------------------------- keys


class K:
    def __init__(self, kind, signer, pub, gpg_home=None, gpg_id=None, faketime=None):
        self.kind, self.signer, self.pub = kind, signer, pub
        self.keyid = pub["keyid"]
        self.material = key_material(pub)
        self.gpg_home, self.gpg_id, self.faketime = gpg_home, gpg_id, faketime


_POOL = None


def pool():
    """Non-gpg key pool (PEMs committed under harness/keydata)."""
    global _POOL  # pylint: disable=global-statement
    if _POOL is None:
        from cryptography.hazmat.primitives.serialization import load_pem_private_key
        from securesystemslib.signer import CryptoSigner
        _POOL = []
        for fn in sorted(os.listdir(os.path.join(HERE, "keydata"))):
            priv = load_pem_private_key(open(os.path.join(HERE, "keydata", fn), "rb").read(), None)
            s = CryptoSigner(priv)
            pub = s.public_key.to_dict()
            pub["keyid"] = s.public_key.keyid
            _POOL.append(K(fn.split("_")[0], s, pub))
    return _POOL


GPG_MASTERS = {
    "two_subs": "40e692c3ae03f6b88dff95d0d2c9fe930766998d",   # signing subkeys 35830aa3…, 732d7225…
    "one_sub": "8465a1e2e0fb2b40adb2478e18fb3f537e0c8a17",    # signing subkey c5a0abe6…
    "no_sub": "7b3abb26b97b655ab9296bd15b0bd02e1c768c43",
    "no_sub2": "8288ef560ed3795f9df2c0db56193089b285da58",
    "expired": "e8ac80c924116dabb51d4b987cb07d6d2c199c7c",    # expired 2019-03-26; signing subkey 70cfabf1…
}
SIGNING_SUBKEYS = {"35830aa342b9fea0178876b02b25647ff0ef59fe", "732d722578f71a9ec967a64bfead922c91eb7351",
                   "c5a0abe6ec19d0d65f85e2c39be9df5131d924e9", "70cfabf1e2f1dc60ac5c7bca10cd20d3d5bcb6ef"}
_GPG = {}


def gpg_available():
    return shutil.which("gpg") is not None and os.path.isdir(os.path.join(core.REPO, "tests", "gpg_keyrings", "rsa"))


def gpg_home():
    """A private copy of the repo's test keyring (per process tree)."""
    if "home" not in _GPG:
        d = tempfile.mkdtemp(prefix="verif-gpg-")
        home = os.path.join(d, "rsa")
        shutil.copytree(os.path.join(core.REPO, "tests", "gpg_keyrings", "rsa"), home)
        os.chmod(home, 0o700)
        _GPG["home"] = home
        _GPG["tmp"] = d
        import atexit
        pid = os.getpid()
        atexit.register(lambda: os.getpid() == pid and shutil.rmtree(d, ignore_errors=True))
    return _GPG["home"]


def gpg_bundle(master):
    """Exported public key bundle (securesystemslib format) of a master key."""
    key = ("bundle", master)
    if key not in _GPG:
        import securesystemslib.gpg.functions as gpgf
        _GPG[key] = gpgf.export_pubkey(master, gpg_home())
    return json.loads(json.dumps(_GPG[key]))


def gpg_key(master_name, which=None):
    """K for a gpg master (which=None) or one of its subkeys (which=keyid)."""
    master = GPG_MASTERS[master_name]
    b = gpg_bundle(master)
    pub = b if which is None else b["subkeys"][which]
    return K("gpg", None, pub, gpg_home(), which or master,
             faketime="1553560000" if master_name == "expired" else None)


_GPG_SIG_CACHE = {}


def gpg_sign(k, data):
    """Detached OpenPGP signature by exactly the (sub)key k over data, in
    securesystemslib's signature format."""
    ck = (k.gpg_id, hashlib.sha256(data).hexdigest())
    if ck not in _GPG_SIG_CACHE:
        from securesystemslib.gpg.common import parse_signature_packet
        cmd = ["gpg", "--homedir", k.gpg_home, "--batch", "--no-tty", "--detach-sign",
               "--digest-algo", "SHA256", "--local-user", k.gpg_id + "!"]
        if k.faketime:
            cmd[1:1] = ["--faked-system-time", k.faketime + "!"]
        p = subprocess.run(cmd, input=data, capture_output=True, check=False)
        if p.returncode != 0:
            raise core.Infra("gpg signing failed: %s" % p.stderr.decode(errors="replace")[-400:])
        s = parse_signature_packet(p.stdout)
        s.pop("short_keyid", None)
        _GPG_SIG_CACHE[ck] = s
    return dict(_GPG_SIG_CACHE[ck])


# ---------------------------------------------------------------- metadata construction


class SigTable:
    """Ground truth: which key material produced which signature value over which message."""

    def __init__(self):
        self.rows = []

    def add(self, value, material, msg_bytes):
        self.rows.append([value, material, msg_bytes.decode("utf8")])


def sig_value(sigdict):
    if "signature" in sigdict and "other_headers" in sigdict:
        return sigdict["signature"] + "|" + sigdict["other_headers"]
    return sigdict.get("sig")


def sign_bytes(k, data, table):
    """Signature dict (Metablock style) by key k over data; registers ground truth."""
    if k.kind == "gpg":
        s = gpg_sign(k, data)
    else:
        s = k.signer.sign(data).to_dict()
    table.add(sig_value(s), k.material, data)
    return s


def link_payload(name, materials=None, products=None, byproducts=None, command=None, environment=None):
    return {"_type": "link", "name": name, "materials": materials or {}, "products": products or {},
            "byproducts": byproducts if byproducts is not None else {"return-value": 0, "stderr": "", "stdout": ""},
            "command": command or [], "environment": environment or {}}


def step_payload(name, pubkeys, threshold=1, expected_materials=None, expected_products=None,
                 expected_command=None):
    return {"_type": "step", "name": name, "expected_materials": expected_materials or [],
            "expected_products": expected_products or [], "pubkeys": list(pubkeys),
            "expected_command": expected_command or [], "threshold": threshold}


def inspection_payload(name, run, expected_materials=None, expected_products=None):
    return {"_type": "inspection", "name": name, "expected_materials": expected_materials or [],
            "expected_products": expected_products or [], "run": list(run)}


def layout_payload(steps, inspect, keys, expires, readme=""):
    return {"_type": "layout", "steps": steps, "inspect": inspect, "keys": keys, "expires": expires,
            "readme": readme}


def wrap(payload, fmt, signers, table):
    """Metadata file content (a JSON-able dict) in the given format, signed by
    the given keys with the harness's own canonical JSON / PAE."""
    if fmt == "dsse":
        body = json.dumps(payload, sort_keys=True).encode("utf8")
        msg = pae(PAYLOAD_TYPE, body)
        sigs = []
        for k in signers:
            s = sign_bytes(k, msg, table)
            sigs.append({"keyid": s["keyid"], "sig": base64.b64encode(bytes.fromhex(s["sig"])).decode()})
        return {"payload": base64.b64encode(body).decode(), "payloadType": PAYLOAD_TYPE, "signatures": sigs}
    msg = canon(payload).encode("utf8")
    return {"signatures": [sign_bytes(k, msg, table) for k in signers], "signed": payload}


def file_for_model(content):
    """Transport form of one metadata file (parsed JSON, plus decoded envelope parts)."""
    if content is None or not isinstance(content, (dict, list, str, int, float)):
        return None
    if isinstance(content, str):        # raw text that is not JSON
        return None
    env = None
    if isinstance(content, dict) and "payload" in content and content.get("payloadType") == PAYLOAD_TYPE:
        try:
            # (strictly, as the implementation's decoder: a character outside the alphabet makes the envelope unloadable)
            body = base64.b64decode(content["payload"], validate=True) if isinstance(content["payload"], str) else None
            if body is None:
                raise ValueError
            text = body.decode("utf8")
            try:
                pj = {"v": tagged(json.loads(text))}
            except ValueError:
                pj = None
            sigs = []
            for s in content["signatures"]:
                sigs.append([s["keyid"], base64.b64decode(s["sig"], validate=True).hex()])
            env = {"text": text, "json": pj, "sigs": sigs}
        except Exception:  # pylint: disable=broad-except
            env = None
    return {"data": tagged(content), "env": env}


# ---------------------------------------------------------------- scenario


class Scenario:
    """One verification world. `files` maps a path relative to the link
    directory to file content (dict = JSON document, str = raw non-JSON text)."""

    def __init__(self):
        self.table = SigTable()
        self.files = {}
        self.layout = None          # content of the root layout file
        self.keys = {}              # verifier-supplied keys: keyid -> pub dict
        self.params = None
        self.now = datetime.datetime(2030, 6, 15, 12, 0, 0, tzinfo=datetime.timezone.utc)
        self.insp = []              # [(cmd list, outcome)]
        self.product_files = {"foo": b"foo\n", "sub/bar": b"bar\n"}
        self.tz = None
        self.meta = {}              # generator ground truth for oracles

    # ---- model side
    def model_request(self, op="verify"):
        params = self.params[0] if isinstance(self.params, list) else self.params
        epoch = datetime.datetime(1970, 1, 1, tzinfo=datetime.timezone.utc)
        delta = self.now - epoch
        now_us = (delta.days * 86400 + delta.seconds) * 1000000 + delta.microseconds
        return {
            "op": op, "now_us": str(now_us), "now_s": str(now_us // 1000000),
            "sigs": self.table.rows,
            "files": [[p, file_for_model(c)] for p, c in self.files.items()],
            "insp": [[cmd, out] for cmd, out in self.insp],
            "layout": file_for_model(self.layout),
            "keys": [[kid, tagged(k)] for kid, k in self.keys.items()],
            "dir": "links", "params": None if params is None else [[k, v if isinstance(v, str) else None] for k, v in params.items()],
            "fuel": 8, "step_name": "",
        }

    def run_model(self):
        return core.driver().call(self.model_request())

    # ---- implementation side
    def materialise(self, root):
        os.makedirs(os.path.join(root, "links"), exist_ok=True)
        os.makedirs(os.path.join(root, "product"), exist_ok=True)
        for p, c in self.files.items():
            path = os.path.join(root, p)
            os.makedirs(os.path.dirname(path), exist_ok=True)
            with open(path, "w", encoding="utf8") as f:
                f.write(c if isinstance(c, str) else json.dumps(c))
        with open(os.path.join(root, "root.layout"), "w", encoding="utf8") as f:
            f.write(self.layout if isinstance(self.layout, str) else json.dumps(self.layout))
        for p, data in self.product_files.items():
            path = os.path.join(root, "product", p)
            os.makedirs(os.path.dirname(path), exist_ok=True)
            with open(path, "wb") as f:
                f.write(data)

    def run_impl(self, root=None, repeat=1, keep=False):
        """Runs Metadata.load + in_toto_verify on the real implementation.
        Returns {"load": ..., "result": {"ok": canon summary}|{"err": cls}, "log": [...ids],
        "payload_before", "payload_after"}; with repeat>1 a list of results for
        consecutive calls on the same loaded object."""
        own = root is None
        if own:
            root = tempfile.mkdtemp(prefix="verif-w-")
        cwd = os.getcwd()
        try:
            self.materialise(root)
            return _impl_verify(self, root, repeat)
        finally:
            os.chdir(cwd)
            if own and not keep:
                shutil.rmtree(root, ignore_errors=True)


def product_recording(product_files):
    return [[p, [["sha256", hashlib.sha256(d).hexdigest()]]] for p, d in sorted(product_files.items())]


def insp_command(root_token, ident, action="exit0"):
    """Inspection command line: the helper appends `ident` to the log and then
    exits 0 / exits n / sleeps. `root_token` is replaced by the scratch root."""
    return [sys.executable, "-B", HELPER, root_token + "/insp.log", ident, action]


class _ClockShim(types.ModuleType):
    def __init__(self, now):
        super().__init__("datetime")
        real = datetime

        class _DT(real.datetime):
            @classmethod
            def now(cls, tz=None):  # pylint: disable=arguments-differ
                if tz is None:
                    return now.astimezone().replace(tzinfo=None)
                return now.astimezone(tz)

        self.datetime = _DT
        self.timezone = real.timezone
        self.timedelta = real.timedelta
        self.date = real.date
        self.time = real.time
        self.tzinfo = real.tzinfo


def exc_class(e):
    import in_toto.exceptions as ie
    import securesystemslib.exceptions as se
    from securesystemslib.gpg.exceptions import KeyExpirationError
    import subprocess as sp
    table = [
        (ie.SignatureVerificationError, "SignatureVerificationError"),
        (ie.LayoutExpiredError, "LayoutExpiredError"),
        (ie.LinkNotFoundError, "LinkNotFoundError"),
        (ie.ThresholdVerificationError, "ThresholdVerificationError"),
        (ie.RuleVerificationError, "RuleVerificationError"),
        (ie.BadReturnValueError, "BadReturnValueError"),
        (ie.InvalidMetadata, "InvalidMetadata"),
        (KeyExpirationError, "KeyExpirationError"),
        (se.FormatError, "FormatError"),
        (sp.TimeoutExpired, "TimeoutExpired"),
        (KeyError, "KeyError"), (IndexError, "IndexError"), (AttributeError, "AttributeError"),
        (TypeError, "TypeError"), (RecursionError, "RecursionError"), (OSError, "OSError"),
        (ValueError, "ValueError"),
    ]
    for cls, name in table:
        if isinstance(e, cls):
            return name
    return "Exception"


def payload_canon(md):
    import attr
    try:
        return canon(attr.asdict(md.get_payload()))
    except Exception:  # pylint: disable=broad-except
        return None


_SHADOWED = False


TWINS = {}      # key id of a pool key -> the other key that was checked under that id in this process (shadow_warmup)


def twin_of(k):
    """The key that this process has already seen under `k`'s key id (another key pair altogether)."""
    shadow_warmup()
    return TWINS[k.keyid]


def shadow_warmup():
    """Once per worker process, before its first verification: one successful signature check, in each format, with
    *another* key under the key id of every key of the pool. A key id is a label chosen by whoever writes the key
    dictionary; nothing ties it to the key material. Code that keeps anything per key id between calls (a cache of
    parsed keys, a memo of results) then answers the checks that follow from the wrong key, and every scenario of the
    shard shows it."""
    global _SHADOWED  # pylint: disable=global-statement
    if _SHADOWED:
        return
    _SHADOWED = True
    from securesystemslib.signer import CryptoSigner
    from in_toto.models.metadata import Metablock, Envelope
    from in_toto.models.link import Link
    for k in pool():
        twin = CryptoSigner.generate_ed25519(keyid=k.keyid)
        pub = twin.public_key.to_dict()
        pub["keyid"] = k.keyid
        TWINS[k.keyid] = K("ed25519", twin, pub)
        for fmt in ("metablock", "dsse"):
            link = Link(name="warm-up")
            md = Metablock(signed=link) if fmt == "metablock" else Envelope.from_signable(link)
            md.create_signature(twin)
            md.verify_signature(pub)


def _impl_verify(scn, root, repeat):
    import in_toto.verifylib as vl
    from in_toto.models.metadata import Metadata
    import attr
    logging.getLogger("in_toto").setLevel(logging.CRITICAL)
    shadow_warmup()
    os.chdir(os.path.join(root, "product"))
    try:
        # (C01 in-memory family: an object built / edited by the caller instead of a fresh load)
        md = scn.meta.get("layout_object") or Metadata.load(os.path.join(root, "root.layout"))
    except Exception as e:  # pylint: disable=broad-except
        return {"load": {"err": exc_class(e)}}
    results = []
    params_seq = scn.params if isinstance(scn.params, list) else [scn.params] * repeat
    for params in params_seq:
        out = {"load": "ok", "payload_before": payload_canon(md)}
        shim = _ClockShim(scn.now)
        old_dt = vl.datetime
        old_tz = os.environ.get("TZ")
        vl.datetime = shim
        if scn.tz:
            os.environ["TZ"] = scn.tz
            import time
            time.tzset()
        logpath = os.path.join(root, "insp.log")
        if os.path.exists(logpath):
            os.remove(logpath)
        try:
            with contextlib.redirect_stdout(io.StringIO()), contextlib.redirect_stderr(io.StringIO()):
                summary = vl.in_toto_verify(
                    md, {k: json.loads(json.dumps(v)) for k, v in scn.keys.items()},
                    link_dir_path=os.path.join(root, "links"),
                    substitution_parameters=params, persist_inspection_links=bool(scn.meta.get("persist_links", False)),
                    inspect_timeout=scn.meta.get("inspect_timeout", 60))
            out["result"] = {"ok": canon(attr.asdict(summary))}
        except BaseException as e:  # pylint: disable=broad-except
            if isinstance(e, (KeyboardInterrupt, SystemExit)):
                raise
            out["result"] = {"err": exc_class(e)}
        finally:
            vl.datetime = old_dt
            if scn.tz:
                if old_tz is None:
                    os.environ.pop("TZ", None)
                else:
                    os.environ["TZ"] = old_tz
                import time
                time.tzset()
            os.chdir(os.path.join(root, "product"))
        out["log"] = open(logpath).read().split() if os.path.exists(logpath) else []
        out["payload_after"] = payload_canon(md)
        results.append(out)
    return results[0] if len(results) == 1 else results


def norm_model_verify(m, root_token=None):
    """Bring the model's answer into the shape of run_impl's."""
    if m.get("load") != "ok":
        return {"load": m["load"]}
    out = {"load": "ok", "result": m["result"], "payload_before": m["payload_before"],
           "payload_after": m["payload_after"],
           "log": [c[4] if len(c) > 4 else "?" for c in m["trace"]]}
    if "honest" in m:
        # hypotheses of `honest_chain_verifies` evaluated by the model on this world: None = they do not all hold,
        # otherwise what the theorem predicts
        out["honest"] = m["honest"]
    return out
