"""C01 — layout authenticity and freshness gate every acceptance.

Families: verifier key sets, expiry instants around the (injected) clock under
several time zones, single-leaf edits of the signed layout (content-changing and
parse-equal), signature value / key id edits; both formats.  Correspondence:
real `Metadata.load` + `in_toto_verify` vs the Lean `verify`.  Oracle: expected
verdict recomputed from generator ground truth (who really signed which bytes,
what was edited, where the clock stands)."""
import base64
import copy
import datetime
import json
import os

from harness import core, scen, vcommon, world as W

RULE = ("honest random chains (1-3 steps, 0-2 inspections, both formats) with one mutation from: verifier key "
        "set (empty / owners / subset / superset with non-signer / stranger), expiry at -10y, -1s, 0, +1us, +1s, "
        "+10y from the clock under TZ in {UTC, Etc/GMT+12, Pacific/Kiritimati}, a single-leaf edit of the signed "
        "layout, a parse-equal edit, a signature value / key id edit or removal. Non-trivial: every case (each "
        "runs the full pipeline on a multi-file world); distinct by (mutation, leaf path, formats, key kinds).")
ASSUMPTIONS = [
    "signatures present are non-malleable: a signature verifies only for the key and bytes it was made for (ground-truth table)",
    "expiry dates: ASCII digits only (the model rejects what the layout validator rejects; Unicode digits not generated)",
    "edits inside the layout's key store values are judged on accept/reject only (the model validates key dictionaries approximately)",
]
TZS = [None, "UTC", "Etc/GMT+12", "Pacific/Kiritimati"]
EXP_OFFSETS = [("-10y", -315360000 * 10**6), ("-1s", -10**6), ("0", 0), ("+1us", 1), ("+1s", 10**6),
               ("+10y", 315360000 * 10**6)]


def original_msg(content):
    if "signed" in content:
        return W.canon(content["signed"])
    return W.pae(W.PAYLOAD_TYPE, base64.b64decode(content["payload"])).decode("utf8")


def expected_accept(scn, base_content, edited, now_lt_expiry):
    """Ground-truth gate condition."""
    if edited == "content":
        return False
    if not scn.keys:
        return False
    msg = original_msg(base_content)
    for k in scn.keys.values():
        if not scen.file_sig_ok(scn.layout, k, scn.table.rows, msg):
            return False
    return now_lt_expiry


def gen_case(rng, root, family, tier):
    owners = None
    if W.gpg_available() and rng.random() < 0.15:
        # gpg verifier keys (a master without / with signing subkeys, signed by the master itself or a subkey)
        mname = rng.choice(["no_sub", "no_sub2", "one_sub", "two_subs", "expired", "expired"])
        master = W.gpg_key(mname)
        subs = [x for x in (master.pub.get("subkeys") or {}) if x in W.SIGNING_SUBKEYS]
        owners = [master]
        gpg_signer = W.gpg_key(mname, rng.choice(subs)) if subs and rng.random() < 0.5 else master
    ch = scen.gen_chain(rng, root, n_steps=rng.choice([1, 1, 2, 3]), n_insp=rng.choice([0, 0, 1, 2]),
                        thresholds=(1,), max_funcs=2, owners=owners)
    if owners:
        ch.layout_fmt = "metablock"
        ch.layout_signers = [gpg_signer]
    desc = {"family": family, "layout_fmt": ch.layout_fmt, "owner_kinds": [k.kind for k in ch.owners]}
    now = datetime.datetime(2030, 6, 15, 12, 0, 0, tzinfo=datetime.timezone.utc)
    lt = True
    tz = None
    if family == "expiry":
        label, off = rng.choice(EXP_OFFSETS)
        tz = rng.choice(TZS)
        exp = datetime.datetime(2030, rng.randrange(1, 13), rng.randrange(1, 28), rng.randrange(24),
                                rng.randrange(60), rng.randrange(60), tzinfo=datetime.timezone.utc)
        ch.expires = exp
        # expiry = now + off  =>  now = expiry - off
        now = exp - datetime.timedelta(microseconds=off)
        lt = off > 0
        desc.update(offset=label, tz=tz)
    scn = scen.build(ch, root, rng)
    scn.now, scn.tz = now, tz
    # substitution parameters are an argument of every verification (absent / empty / unused names): the gate is the same
    scn.params = vcommon.pick_params(rng, desc)
    base_content = copy.deepcopy(scn.layout)
    edited = None
    pool = W.pool()
    if family == "keys":
        kind = rng.choice(["empty", "owners", "subset", "superset", "stranger", "nonsigner_only", "twin_forgery", "twin_forgery"])
        others = [k for k in pool if k not in ch.owners]
        if kind == "empty":
            scn.keys = {}
        elif kind == "subset" and len(ch.owners) > 1:
            k = rng.choice(ch.owners); scn.keys = {k.keyid: k.pub}
        elif kind == "superset":
            k = rng.choice(others); scn.keys[k.keyid] = k.pub
        elif kind == "stranger":
            k = rng.choice(others); scn.keys = {k.keyid: k.pub}
        elif kind == "twin_forgery" and [k for k in ch.owners if k.kind != "gpg"]:
            # the layout carries, under an owner's key id, a signature made with ANOTHER key - one this very process has
            # checked under that id before (a key id is a label: world.shadow_warmup); the verifier supplies the owner's
            # genuine key: no valid signature by that key
            o = rng.choice([k for k in ch.owners if k.kind != "gpg"])
            tw = W.twin_of(o)
            # (the links are forged the same way: whoever can do the one can do the other - with genuine links a cache
            #  per key id would reject them and hide that the layout got through)
            for s_ in ch.steps:
                for ls in s_["links"]:
                    if ls["signer"] and getattr(ls["signer"], "kind", "gpg") != "gpg" and ls["signer"].keyid in W.TWINS:
                        ls["signer"] = W.twin_of(ls["signer"])
            now_, tz_, params_ = scn.now, scn.tz, scn.params
            scn = scen.build(ch, root, rng)
            scn.now, scn.tz, scn.params = now_, tz_, params_
            payload = scn.layout["signed"] if "signed" in scn.layout else json.loads(base64.b64decode(scn.layout["payload"]))
            scn.layout = W.wrap(payload, ch.layout_fmt, [tw if k is o else k for k in ch.owners], scn.table)
            base_content = copy.deepcopy(scn.layout)
        elif kind == "nonsigner_only":
            k = rng.choice(others)
            # the stranger's key under an owner's key id: right id, wrong material
            o = rng.choice(ch.owners)
            fake = dict(k.pub, keyid=o.keyid)
            scn.keys = {o.keyid: fake}
        desc["keyset"] = kind
    elif family == "leaf":
        r = scen.edit_payload_leaf(scn.layout, rng)
        if ch.readme and not ch.readme.isascii() and rng.random() < 0.5:
            # a text field that decides nothing else, respelt in the other Unicode normalisation form: other bytes
            import unicodedata
            for _try in range(6):
                r2 = scen.edit_payload_leaf(scn.layout, rng, path=("readme",))
                if r2 and unicodedata.normalize("NFC", str(r2[1]["new"])) == unicodedata.normalize("NFC", str(r2[1]["old"])):
                    r = r2
                    break
        scn.layout, d = r
        desc.update(edit=d)
    elif family == "parse_equal":
        r = scen.parse_equal_edit(scn.layout, rng)
        if r is None:      # envelope: every byte is signed; insert insignificant whitespace instead
            body = base64.b64decode(scn.layout["payload"]).decode("utf8")
            scn.layout["payload"] = base64.b64encode((body + " ").encode("utf8")).decode()
            desc.update(edit={"dsse_whitespace": True})
        else:
            scn.layout, d = r
            desc.update(edit=d)
    elif family == "sig":
        r = scen.edit_signature(scn.layout, rng)
        scn.layout, d = r
        desc.update(edit=d)
    if family in ("leaf", "parse_equal"):
        before, _ = scen.payload_canon_by_model(base_content)
        after, err = scen.payload_canon_by_model(scn.layout)
        edited = "content" if (before != after or err) else "parse_equal"
        desc["classified"] = edited
    exp_ok = expected_accept(scn, base_content, edited, lt)
    if family == "sig" and (desc.get("edit") or {}).get("sig_edit") == "value_text":
        exp_ok = False        # (the text of a signature value was edited: not the signature that was made; the file does not even load)
    if owners and mname == "expired" and gpg_signer is master:
        # the verifier's key is past its validity period: a signature made with it is not a valid signature any more
        # (the signing subkey of that key carries no period of its own in the exported bundle: DESIGN 10.3)
        exp_ok = False
        desc["verifier_key"] = "gpg key past its validity period, signed by the key itself"
    desc["expected_accept"] = exp_ok
    return scn, desc


def one_case(rng, family, tier, res):
    root = scen.new_root()
    try:
        scn, desc = gen_case(rng, root, family, tier)
        i, m, agreed = scen.run_both(scn)
        accepted = i.get("load") == "ok" and "ok" in i["result"]
        weak = family == "leaf" and desc["edit"]["path"][:1] == ["keys"]
        if weak and not agreed:
            # key-store value edits: compare accept/reject only
            m_acc = m.get("load") == "ok" and "ok" in m.get("result", {})
            agreed = accepted == m_acc
        summary = {"desc": desc, "impl": short(i), "model": short(m)}
        res.case(summary, True, agreed)
        res.count("family_" + family)
        res.count("impl_" + ("accept" if accepted else (i["result"]["err"] if i.get("load") == "ok" else "load_error")))
        res.count("fmt_" + desc["layout_fmt"])
        if not agreed:
            res.fail("disagree", replayable(scn, desc), {"op": "verify", "impl": short(i), "model": short(m)})
        if accepted and not desc["expected_accept"]:
            res.fail("oracle", replayable(scn, desc),
                     {"why": "verification succeeded although the gate condition (non-empty key set, every supplied "
                             "key has a valid signature over the evaluated content, now < expiry) does not hold",
                      "impl": short(i)})
        if (not accepted) and desc["expected_accept"]:
            res.count("over_rejection")
            res.fail("disagree", replayable(scn, desc),
                     {"op": "verify", "why": "honest, correctly signed, unexpired layout rejected", "impl": short(i), "model": short(m)})
    finally:
        scen.drop_root(root)


def in_memory_case(rng, res):
    """The layout as an object in the verifier's memory rather than a fresh load: wrapped and signed through in-toto and
    then edited without re-wrapping (A), or loaded and its `get_payload()` object edited (B).  What is evaluated must be
    exactly what the signatures cover: the outcome must be that of verifying what the object serialises to at that
    moment (an envelope keeps its signed bytes: the edit has no effect; a traditional object no longer verifies)."""
    from in_toto.models.layout import Layout
    from in_toto.models.metadata import Metablock, Envelope, Metadata
    from harness.props import c09
    root = scen.new_root()
    try:
        ch = scen.gen_chain(rng, root, n_steps=rng.choice([1, 2]), n_insp=0, thresholds=(1,), max_funcs=1)
        if any(k.kind == "gpg" for k in ch.owners):
            return
        signed_state = rng.choice(["expired", "fresh"])
        exp = datetime.datetime(2030, 3, 1, 0, 0, 0, tzinfo=datetime.timezone.utc)
        ch.expires = exp
        scn = scen.build(ch, root, rng)
        scn.now = exp + datetime.timedelta(days=(1 if signed_state == "expired" else -1))
        scn.materialise(root)
        seq = rng.choice(["A_wrap_then_edit", "B_load_then_edit"])
        fmt = ch.layout_fmt
        if seq.startswith("A"):
            payload = scn.layout["signed"] if "signed" in scn.layout else json.loads(base64.b64decode(scn.layout["payload"]))
            obj = Layout.read(json.loads(json.dumps(payload)))
            md = Envelope.from_signable(obj) if fmt == "dsse" else Metablock(signed=obj)
            for k in ch.owners:
                md.create_signature(k.signer)
        else:
            md = Metadata.load(os.path.join(root, "root.layout"))
            obj = md.get_payload()
            if rng.random() < 0.6:
                # the loaded object has been checked once already (as in-toto-sign --verify, or an earlier verification, does)
                for k in ch.owners:
                    try:
                        md.verify_signature(json.loads(json.dumps(k.pub)))
                    except Exception:  # pylint: disable=broad-except
                        pass
        edit = rng.choice(["expires", "expires", "pubkeys", "none", "nested_pubkeys", "nested_pubkeys", "nested_command"])
        if edit == "expires":
            obj.expires = "2031-01-01T00:00:00Z" if signed_state == "expired" else "2029-01-01T00:00:00Z"
        elif edit == "pubkeys":
            stranger = [k for k in W.pool() if k not in ch.owners][0]
            for st in obj.steps:
                st.pubkeys = [stranger.keyid]
            obj.keys = {stranger.keyid: stranger.pub}
        elif edit == "nested_pubkeys":
            # the same hand-over of the steps to a stranger, written without assigning any field of the layout anew
            stranger = [k for k in W.pool() if k not in ch.owners][0]
            for st in obj.steps:
                del st.pubkeys[:]
                st.pubkeys.append(stranger.keyid)
            obj.keys[stranger.keyid] = stranger.pub
        elif edit == "nested_command":
            for st in obj.steps:
                st.expected_command.append("--injected")
        content = json.loads(json.dumps(md.to_dict()))
        scn.layout = content
        t, _msg = c09.table_from_file(content, ch.owners)
        scn.table.rows += t.rows
        desc = {"family": "in_memory", "sequence": seq, "layout_fmt": fmt, "signed_content": signed_state, "edit_of_object": edit}
        scn.meta["layout_object"] = md
        i, m, agreed = scen.run_both(scn)
        scn.meta.pop("layout_object")
        fresh = scn.run_impl(root=root)          # a fresh load of what the object serialised to
        res.case({"desc": desc, "impl": short(i), "model": short(m), "fresh_copy": short(fresh)}, edit != "none", agreed)
        res.count("family_in_memory"); res.count("in_memory_" + short(i).get("result", "load_error"))
        if not agreed:
            res.fail("disagree", replayable(scn, desc), {"op": "verify", "impl": short(i), "model": short(m)})
        if short(i) != short(fresh):
            res.fail("oracle", replayable(scn, desc),
                     {"why": "verification of the object in memory gives another outcome than verification of what that object "
                             "serialises to: the content evaluated is not the content the signatures cover",
                      "in_memory": short(i), "fresh_copy": short(fresh)})
        accepted = i.get("load") == "ok" and "ok" in i["result"]
        if accepted and signed_state == "expired" and fmt == "dsse":
            res.fail("oracle", replayable(scn, desc),
                     {"why": "accepted although the signed payload of the envelope has expired", "impl": short(i)})
    finally:
        scen.drop_root(root)


def short(o):
    if o.get("load") != "ok":
        return {"load": o.get("load")}
    r = o["result"]
    return {"result": "accept" if "ok" in r else r["err"], "log": o.get("log")}


def replayable(scn, desc):
    req = scn.model_request()
    return {"desc": desc, "root": scn.root, "files": scn.files, "layout": scn.layout, "keys": scn.keys,
            "now": scn.now.isoformat(), "tz": scn.tz, "product_files": {k: v.decode("utf8", "replace") for k, v in scn.product_files.items()},
            "params": scn.params, "model_request": req}


CLI_FORMS = ["none", "layout_keys_after", "layout_keys_before", "gpg_after", "gpg_before", "verification_keys_more",
             "layout_keys_more_than_types", "layout_keys_more_than_types"]


def cli_case(case_seed, res, force_form=None):
    """The gate at the command line. `in-toto-verify` takes verifier keys through three options (--verification-keys,
    the deprecated --layout-keys, --gpg): every key passed through any of them is a supplied key. An honest, unexpired
    one-step chain whose layout is signed by its owners is verified with the owners' keys passed through
    --verification-keys and, in all but the control, one more key that did not sign passed through another option
    (before or after on the command line) or the same one."""
    import random
    from harness import cli
    from harness.props import c18
    rng = random.Random(case_seed)
    form = force_form or rng.choice(CLI_FORMS)
    if form.startswith("gpg") and not W.gpg_available():
        form = "layout_keys_after"
    root = scen.new_root()
    cwd = os.getcwd()
    try:
        forced_owner = [[k for k in W.pool() if k.kind == "rsa"][0]] if form == "layout_keys_more_than_types" else None
        ch = scen.gen_chain(rng, root, n_steps=1, n_insp=0, thresholds=(1,), max_funcs=1, fmt_mode="mixed", owners=forced_owner)
        scn = scen.build(ch, root, rng)
        scn.materialise(root)
        owners = [k for k in W.pool() if k.keyid in scn.keys]
        argv = ["--layout", os.path.join(root, "root.layout"), "--link-dir", os.path.join(root, "links")]
        own = ["--verification-keys"] + [c18.write_pub_pem(k, root) for k in owners]
        rsa = [k for k in W.pool() if k not in ch.owners and k.kind == "rsa"]       # (--layout-keys reads rsa keys)
        if not rsa and form.startswith("layout_keys"):
            form = "verification_keys_more"
        stranger = rsa[0] if rsa else [k for k in W.pool() if k not in ch.owners][0]
        if form == "layout_keys_more_than_types":
            # the deprecated option with an explicit type list that is shorter than the key list: the surplus key is a
            # supplied key all the same (on the pinned tree the mismatch itself is refused)
            rsa_owner = [k for k in owners if k.kind == "rsa"]
            if rsa and rsa_owner and len(owners) == 1:
                argv += ["--layout-keys", c18.write_pub_pem(rsa_owner[0], root), c18.write_pub_pem(stranger, root), "--key-types", "rsa"]
            else:
                form = "verification_keys_more"
        if form == "layout_keys_more_than_types":
            pass
        elif form == "none":
            argv += own
        elif form == "verification_keys_more":
            argv += own + [c18.write_pub_pem(stranger, root)]
        elif form.startswith("layout_keys"):
            extra = ["--layout-keys", c18.write_pub_pem(stranger, root)]
            argv += (own + extra) if form.endswith("after") else (extra + own)
        else:
            g = W.gpg_key("no_sub")
            extra = ["--gpg", g.keyid, "--gpg-home", g.gpg_home]
            argv += (own + extra) if form.endswith("after") else (extra + own)
        os.chdir(os.path.join(root, "product"))
        st, _o, _e = cli.run_main("in_toto_verify", argv)
    finally:
        os.chdir(cwd)
        scen.drop_root(root)
    expect_ok = form == "none"
    case = {"op": "cli_keys", "case_seed": case_seed, "form": form, "layout_fmt": ch.layout_fmt, "owners": [k.kind for k in owners]}
    ok = st == 0
    res.case({"family": "cli_keys", "form": form, "layout_fmt": ch.layout_fmt, "status": st}, True, ok == expect_ok)
    res.count("family_cli_keys")
    res.count("cli_form_" + form)
    if ok and not expect_ok:
        res.fail("oracle", case, {"why": "in-toto-verify exited 0 although a key passed on the command line (%s) has no signature "
                                         "on the layout: every supplied key must have a valid signature" % form, "status": st})
    elif expect_ok and not ok:
        res.fail("disagree", case, {"op": "cli_keys", "why": "honest, correctly signed, unexpired chain rejected at the command line", "status": st})


def layout_keys_types_case(res, prop="C01"):
    """`--layout-keys` (the deprecated key format, whose loader derives its own key ids) with an explicit `--key-types`
    list: control - one key, one type, layout signed under the derived id: status 0; then a second key that did not sign
    is added while the type list stays at one entry. Whatever the tool makes of the mismatch, the surplus key is a
    supplied key without a signature: not a success. Both formats."""
    from securesystemslib import interface
    from securesystemslib.signer import CryptoSigner, SSlibKey
    from cryptography.hazmat.primitives.serialization import load_pem_private_key
    from in_toto.models.layout import Layout
    from in_toto.models.metadata import Metablock, Envelope
    from harness import cli, cliequiv
    from harness.props import c18
    rsa = [k for k in W.pool() if k.kind == "rsa"]
    owner, stranger = rsa[0], rsa[1]
    root = scen.new_root()
    cwd = os.getcwd()
    try:
        os.chdir(root)
        opub, spub = c18.write_pub_pem(owner, root), c18.write_pub_pem(stranger, root)
        (kid, kd), = interface.import_publickeys_from_file([opub], ["rsa"]).items()
        priv = load_pem_private_key(open(cliequiv.priv_path(owner), "rb").read(), None)
        signer = CryptoSigner(priv, SSlibKey.from_dict(kid, dict(kd)))
        for fmt in ("metablock", "dsse"):
            lay = Layout(expires="2031-01-01T00:00:00Z")
            md = Envelope.from_signable(lay) if fmt == "dsse" else Metablock(signed=lay)
            md.create_signature(signer)
            path = os.path.join(root, "l-%s.layout" % fmt)
            md.dump(path)
            for label, argv, want_ok in (("one key, one type", ["-l", path, "--layout-keys", opub, "--key-types", "rsa"], True),
                                         ("two keys, two types", ["-l", path, "--layout-keys", opub, spub, "--key-types", "rsa", "rsa"], False),
                                         ("two keys, one type", ["-l", path, "--layout-keys", opub, spub, "--key-types", "rsa"], False),
                                         ("two keys (the signer last), one type", ["-l", path, "--layout-keys", spub, opub, "--key-types", "rsa"], False)):
                st = cli.run_main("in_toto_verify", argv)[0]
                ok = (st == 0) == want_ok
                case = {"op": "cli_layout_keys_types", "format": fmt, "invocation": label}
                res.case(dict(case, status=st), True, ok, sample_cap=1)
                res.count("cli_layout_keys_types")
                if st == 0 and not want_ok:
                    res.fail("oracle", case, {"why": "in-toto-verify exited 0 although a key passed with --layout-keys has no signature on the layout (%s)" % label,
                                              "status": st})
                elif st != 0 and want_ok:
                    res.fail("disagree", case, {"op": "cli_layout_keys_types", "why": "control rejected: layout signed under the id the deprecated loader derives", "status": st})
    finally:
        os.chdir(cwd)
        scen.drop_root(root)


def surrogate_case(case_seed, res):
    """A single-leaf edit that a lossy encoding of the signed bytes would not see: one non-ASCII character of the signed
    layout (readme, a rule pattern, a step name) replaced by the lone surrogates standing for its UTF-8 bytes. The layout
    must not be accepted (on the pinned tree it cannot even be loaded). Oracle only: the model's strings are sequences of
    Unicode scalar values and cannot hold a lone surrogate."""
    import random
    rng = random.Random(case_seed)
    root = scen.new_root()
    try:
        ch = scen.gen_chain(rng, root, n_steps=1, n_insp=0, thresholds=(1,), max_funcs=1, fmt_mode="mixed")
        ch.readme = rng.choice(["Mise \u00e0 jour de la cha\u00eene", "\u65e5\u672c\u8a9e", "na\u00efve \U0001F600", "pourquoi ? voil\u00e0", "what? why?"])
        ch.steps[0]["rules"] = ([["ALLOW", "*"]], [["DISALLOW", "*.cl\u00e9"], ["ALLOW", "*"]])
        scn = scen.build(ch, root, rng)
        honest = scn.run_impl(root=root)
        e = scen.surrogate_edit(scn.layout, rng)
        if e is None:
            return
        scn.layout = e[0]
        i = scn.run_impl(root=root)
    finally:
        scen.drop_root(root)
    acc_h = honest.get("load") == "ok" and "ok" in honest["result"]
    acc = i.get("load") == "ok" and "ok" in i["result"]
    case = {"op": "surrogate_edit", "case_seed": case_seed, "layout_fmt": ch.layout_fmt, "edit": e[1]}
    res.case({"family": "surrogate_edit", "layout_fmt": ch.layout_fmt, "edit_path": e[1]["path"], "impl": short(i)}, True, acc_h and not acc)
    res.count("family_surrogate_edit")
    if not acc_h:
        res.fail("disagree", case, {"op": "verify", "why": "honest, correctly signed, unexpired layout with non-ASCII content rejected", "impl": short(honest)})
    if acc:
        res.fail("oracle", case, {"why": "verification succeeded although a string of the layout was edited after signing (a character replaced by "
                                         "the lone surrogates of its UTF-8 bytes): the content evaluated is not the content that was signed",
                                  "impl": short(i)})


def falsy_member_case(case_seed, res, no):
    """A member of the signed layout whose value is empty (readme "", inspect [], a step's expected_command [] ...) is
    replaced, after signing, by an empty value of ANOTHER kind (null, 0, false, "", [], {}): other signed content. A reader
    that takes any falsy value for "absent" and puts the default back would rebuild the signed bytes and accept it.
    Oracle only; the (member, replacement) pairs are cycled through by `no`, not drawn."""
    import random
    rng = random.Random(case_seed)
    root = scen.new_root()
    try:
        ch = scen.gen_chain(rng, root, n_steps=rng.choice([1, 2]), n_insp=0, thresholds=(1,), max_funcs=1, fmt_mode="mixed")
        ch.readme = ""
        if no % 2:
            ch.layout_fmt = "metablock"      # (the format that rebuilds the signed bytes from the parsed object)
        scn = scen.build(ch, root, rng)
        honest = scn.run_impl(root=root)
        c = copy.deepcopy(scn.layout)
        body = c["signed"] if "signed" in c else json.loads(base64.b64decode(c["payload"]))
        paths = [pth for pth in [("readme",), ("inspect",)] + [("steps", i, k) for i, st in enumerate(body.get("steps") or [])
                                                                 for k in ("expected_command", "expected_materials", "expected_products")]
                 if pth[-1] in (scen.get_at(body, pth[:-1]) if len(pth) > 1 else body) and not scen.get_at(body, pth)]
        # (the layout's own `inspect` / `steps` lists are rebuilt by iterating over the member: "" and {} yield the same
        #  empty list - the same parsed layout, DESIGN 10.3 "what counts as content" - and are left out there)
        pairs = [(pth, v) for pth in paths for v in scen.FALSY
                 if type(v) is not type(scen.get_at(body, pth)) and not (pth == ("inspect",) and v in ("", {}))]
        if not pairs:
            return
        pth, new = pairs[(no // 2) % len(pairs)]
        old = scen.get_at(body, pth)
        scen.set_at(body, pth, new)
        if "signed" not in c:
            c["payload"] = base64.b64encode(json.dumps(body, sort_keys=True).encode("utf8")).decode()
        scn.layout = c
        i = scn.run_impl(root=root)
    finally:
        scen.drop_root(root)
    acc_h = honest.get("load") == "ok" and "ok" in honest["result"]
    acc = i.get("load") == "ok" and "ok" in i["result"]
    case = {"op": "falsy_member", "case_seed": case_seed, "no": no, "layout_fmt": ch.layout_fmt, "edit": {"path": list(pth), "old": old, "new": new}}
    res.case({"family": "falsy_member", "layout_fmt": ch.layout_fmt, "edit": case["edit"], "impl": short(i)}, True, acc_h and not acc)
    res.count("family_falsy_member")
    if not acc_h:
        res.fail("disagree", case, {"op": "falsy_member", "why": "the unedited layout was not accepted", "impl": short(honest)})
    elif acc:
        res.fail("oracle", case, {"why": "a layout with an empty member replaced, after signing, by an empty value of another kind "
                                  "(%r -> %r at %s) was accepted" % (old, new, "/".join(map(str, pth))), "impl": short(i)})


FAMILIES = ["keys", "expiry", "leaf", "leaf", "parse_equal", "sig", "honest"]


def shard(seed, idx, n, tier):
    res = core.Result()
    rng = core.rng_for(seed, "c01", idx)
    if idx == 0:
        layout_keys_types_case(res)
    for j in range(n):
        fam = FAMILIES[(idx + j) % len(FAMILIES)]
        one_case(rng, fam, tier, res)
    for _ in range(max(2, n // 4)):
        in_memory_case(rng, res)
    for _ in range(max(2, n // 12)):
        cli_case(rng.randrange(10**9), res)
    for _ in range(max(2, n // 12)):
        surrogate_case(rng.randrange(10**9), res)
    per = max(3, n // 6)
    for j in range(per):
        falsy_member_case(rng.randrange(10**9), res, idx * per + j)
    from harness import clicall       # which keys, directory and time limit in-toto-verify hands to the library
    for _ in range(max(3, n // 8)):
        clicall.one_other(rng, res, "verify")
    return res


def shard_expiry_strings(seed, idx, n):
    """op `expiry`: the model's date function vs dateutil+regex (load) and iso8601 (verify)."""
    import iso8601
    from in_toto.models.layout import Layout
    from securesystemslib.exceptions import FormatError
    res = core.Result()
    rng = core.rng_for(seed, "c01", "dates", idx)
    cases = []
    for _ in range(n):
        y, mo, d = rng.choice([1, 1970, 1999, 2000, 2024, 2030, 2100, 9999, 0]), rng.randrange(0, 14), rng.randrange(0, 33)
        h, mi, s = rng.randrange(0, 26), rng.randrange(0, 62), rng.randrange(0, 62)
        if rng.random() < 0.6:
            mo, d, h, mi, s = max(1, min(mo, 12)), max(1, min(d, 31)), min(h, 23), min(mi, 59), min(s, 59)
        txt = "%04d-%02d-%02dT%02d:%02d:%02dZ" % (y, mo, d, h, mi, s)
        r = rng.random()
        if r < 0.05:
            txt = txt[:-1]
        elif r < 0.1:
            txt = txt.replace("T", " ")
        elif r < 0.13:
            txt += "\n"
        elif r < 0.16:
            txt = txt.replace("-", "/", 1)
        cases.append(txt)
    model = core.driver().batch({"op": "expiry", "s": c} for c in cases)
    epoch = datetime.datetime(1970, 1, 1, tzinfo=datetime.timezone.utc)
    for c, m in zip(cases, model):
        try:
            Layout(expires=c)
            t = iso8601.parse_date(c)
            i = {"ok": str(int((t - epoch).total_seconds()))}
        except FormatError:
            i = {"err": "FormatError"}
        except Exception as e:  # pylint: disable=broad-except
            i = {"err": type(e).__name__}
        agreed = i == m
        res.case({"expires": c, "impl": i, "model": m}, "ok" in i, agreed, sample_cap=1)
        res.count("date_" + ("valid" if "ok" in i else "rejected"))
        if not agreed:
            res.fail("disagree", {"op": "expiry", "s": c}, {"op": "expiry", "impl": i, "model": m})
    return res


def run(tier, seed):
    n_shards = 16
    per = 25 if tier == "quick" else 375
    shards = [(shard, (seed, i, per, tier)) for i in range(n_shards)]
    shards += [(shard_expiry_strings, (seed, i, 40 if tier == "quick" else 1250)) for i in range(n_shards)]
    return core.parallel(_dispatch, shards)


def _dispatch(func, args):
    return func(*args)


def rebuild(case):
    scn = W.Scenario()
    scn.root = case["root"]
    scn.files = case["files"]
    scn.layout = case["layout"]
    scn.keys = case["keys"]
    scn.now = datetime.datetime.fromisoformat(case["now"])
    scn.tz = case.get("tz")
    scn.params = case.get("params")
    scn.product_files = {k: v.encode("utf8") for k, v in case["product_files"].items()}
    return scn


def replay(case):
    if case.get("op") == "expiry":
        return {"model": core.driver().call(case)}
    if case.get("op") == "surrogate_edit":
        res = core.Result()
        surrogate_case(case["case_seed"], res)
        return {"case": case, "samples": res.samples, "failures_on_replay": res.failures}
    if case.get("op") == "falsy_member":
        res = core.Result()
        falsy_member_case(case["case_seed"], res, case["no"])
        return {"case": case, "samples": res.samples, "failures_on_replay": res.failures}
    if case.get("op") == "cli_keys":
        res = core.Result()
        cli_case(case["case_seed"], res)
        return {"case": case, "samples": res.samples, "failures_on_replay": res.failures}
    scn = rebuild(case)
    import os
    os.makedirs(scn.root, exist_ok=True)
    try:
        i = scn.run_impl(root=scn.root)
    finally:
        scen.drop_root(scn.root)
    m = W.norm_model_verify(core.driver().call(case["model_request"]))
    return {"desc": case["desc"], "impl": short(i), "model": short(m),
            "oracle_expected_accept": case["desc"].get("expected_accept")}


def search(failure, tier, seed):
    """After a correspondence break: run the targeted families with a 10x budget
    and return the first case the oracle rejects."""
    res = core.parallel(_dispatch, [(shard, (seed + 1000 + i, i, 60, tier)) for i in range(16)])
    for f in res.failures:
        if f["kind"] == "oracle":
            return f
    return None
