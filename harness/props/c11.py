"""C11 — running a step records before/after state faithfully; honest chains verify.
Shares the real round trips of C04 (harness/props/c04.py): every link written by
in_toto_run / record start+stop is judged against independent before/after
snapshots, and honest chains (no tamper, content-preserving rewrite, excluded
file) must verify."""
import os

from harness import core, world as W
from harness.props import c04

RULE = c04.RULE + " For C11 the histories are restricted to honest ones and harmless changes."
ASSUMPTIONS = c04.ASSUMPTIONS + ["gpg signing of DSSE envelopes is documented as unsupported and excluded"]


def signal_exit_case(rng, res):
    """A step command that is ended by a signal (or exits with an unusual status): the link is written all the same and
    records that status - the negative signal number, as `subprocess` reports it -, and can be loaded again."""
    import contextlib, io, logging, shutil, signal, sys, tempfile
    import in_toto.runlib as rl
    from in_toto.models.metadata import Metadata
    logging.getLogger("in_toto").setLevel(logging.CRITICAL)
    k = rng.choice(W.pool())
    dsse = rng.random() < 0.5
    streams = rng.random() < 0.5
    how, want = rng.choice([("os.kill(os.getpid(), signal.SIGKILL)", -signal.SIGKILL), ("os.kill(os.getpid(), signal.SIGTERM)", -signal.SIGTERM),
                            ("os.abort()", -signal.SIGABRT), ("sys.exit(255)", 255), ("sys.exit(3)", 3)])
    cmd = [sys.executable, "-c", "import os, signal, sys; sys.stdout.write('partial\\n'); sys.stdout.flush(); " + how]
    d = tempfile.mkdtemp(prefix="verif-c11s-")
    cwd = os.getcwd()
    try:
        os.chdir(d)
        open("a.txt", "w").write("a\n")
        try:
            with contextlib.redirect_stdout(io.StringIO()), contextlib.redirect_stderr(io.StringIO()):
                md = rl.in_toto_run("st", ["a.txt"], ["a.txt"], cmd, record_streams=streams, signer=k.signer, use_dsse=dsse, timeout=60)
            pl = md.get_payload()
            got = {"return-value": pl.byproducts.get("return-value"), "stdout": pl.byproducts.get("stdout"),
                   "file": os.path.exists("st.%s.link" % k.keyid[:8])}
            if got["file"]:
                back = Metadata.load("st.%s.link" % k.keyid[:8])
                got["reloaded_return_value"] = back.get_payload().byproducts.get("return-value")
        except Exception as e:  # pylint: disable=broad-except
            got = {"err": W.exc_class(e)}
    finally:
        os.chdir(cwd)
        shutil.rmtree(d, ignore_errors=True)
    want_d = {"return-value": want, "stdout": "partial\n" if streams else "", "file": True, "reloaded_return_value": want}
    case = {"op": "signal_exit", "command_ends_with": how, "record_streams": streams, "dsse": dsse, "key": k.kind}
    res.case(dict(case, got=got), True, got == want_d, sample_cap=1)
    res.count("signal_exit")
    if got != want_d:
        res.fail("oracle", case, {"why": "the link of a step whose command was ended by a signal / exited with an unusual status does not record "
                                         "that status (or was not written, or cannot be loaded again)", "impl": got, "expected": want_d})


def shard(seed, idx, n, tier):
    import harness.chainrun as cr
    res = core.Result()
    rng = core.rng_for(seed, "c11", idx)
    old = cr.TAMPERS
    cr.TAMPERS = [None, None, None, "rewrite", "excluded"]
    try:
        for j in range(n):
            c04.one_case(rng, res, check_c11=True, case_no=idx * n + j)
    finally:
        cr.TAMPERS = old
    signal_exit_case(rng, res)
    # the command line is the library with another way of passing arguments (harness/cliequiv.py)
    from harness import cliequiv
    for _ in range(max(2, n // 2)):
        cliequiv.equiv_case(rng, res, "run")
    cliequiv.equiv_case(rng, res, "mock")
    # ... and which library call it makes, argument by argument (harness/clicall.py, model InToto/CliCall.lean)
    from harness import clicall
    for _ in range(max(4, n)):
        clicall.one_case(rng, res, "run")
    return res


def run(tier, seed):
    per = 5 if tier == "quick" else 75
    return core.parallel(core.call, [(shard, (seed, i, per, tier)) for i in range(16)])


replay = c04.replay


def search(failure, tier, seed):
    res = core.parallel(core.call, [(shard, (seed + 1000 + i, i, 8, tier)) for i in range(16)])
    for f in res.failures:
        if f["kind"] == "oracle":
            return f
    return None
