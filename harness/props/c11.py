"""C11 — running a step records before/after state faithfully; honest chains verify.
Shares the real round trips of C04 (harness/props/c04.py): every link written by
in_toto_run / record start+stop is judged against independent before/after
snapshots, and honest chains (no tamper, content-preserving rewrite, excluded
file) must verify."""
from harness import core
from harness.props import c04

RULE = c04.RULE + " For C11 the histories are restricted to honest ones and harmless changes."
ASSUMPTIONS = c04.ASSUMPTIONS + ["gpg signing of DSSE envelopes is documented as unsupported and excluded"]


def shard(seed, idx, n, tier):
    import harness.chainrun as cr
    res = core.Result()
    rng = core.rng_for(seed, "c11", idx)
    old = cr.TAMPERS
    cr.TAMPERS = [None, None, None, "rewrite", "excluded"]
    try:
        for j in range(n):
            c04.one_case(rng, res, check_c11=True, case_no=idx * n + j)
    finally:
        cr.TAMPERS = old
    # the command line is the library with another way of passing arguments (harness/cliequiv.py)
    from harness import cliequiv
    for _ in range(max(2, n // 2)):
        cliequiv.equiv_case(rng, res, "run")
    cliequiv.equiv_case(rng, res, "mock")
    # ... and which library call it makes, argument by argument (harness/clicall.py, model InToto/CliCall.lean)
    from harness import clicall
    for _ in range(max(4, n)):
        clicall.one_case(rng, res, "run")
    return res


def run(tier, seed):
    per = 5 if tier == "quick" else 75
    return core.parallel(core.call, [(shard, (seed, i, per, tier)) for i in range(16)])


replay = c04.replay


def search(failure, tier, seed):
    res = core.parallel(core.call, [(shard, (seed + 1000 + i, i, 8, tier)) for i in range(16)])
    for f in res.failures:
        if f["kind"] == "oracle":
            return f
    return None
