"""C20 — directory and OSTree digests follow their documented construction."""
import copy
import hashlib
import os
import shutil
import tempfile

from harness import core, tree as T
from harness.props import c19

RULE = ("random directory trees (nested, empty, unicode and non-ASCII-sorting names, up to ~60 files) materialised in a "
        "random creation order, recorded as dir:<path>; the same tree after one edit / rename / add / delete; exclude "
        "patterns; synthetic OSTree repositories with random refs and commit objects. Non-trivial: the directory holds "
        ">= 2 recorded files, or an ostree ref resolves; distinct by description.")
ASSUMPTIONS = ["SHA-256 of the model's digest text is computed by the harness",
               "C-locale collation = code-point order = UTF-8 byte order (checked by this correspondence, names include "
               "non-ASCII-sorting ones)"]
SORT_NAMES = ["Z", "a", "_", "é", "z", "ä", "A0", "a-", "a.", "a/", "B", "ß", "10", "9", "~", " sp", "Ω", "日本"]


def gen_dir_tree(rng):
    t = T.gen_tree(rng, max_depth=3)
    for name in rng.sample(SORT_NAMES, rng.randrange(0, 8)):
        name = name.replace("/", "")
        if name and name not in t:
            t[name] = ("f", b"c%d" % rng.randrange(9))
    if rng.random() < 0.6:
        T.add_order_siblings(rng, t, rng.randrange(1, 4))
    if rng.random() < 0.2:
        for j in range(40):
            t["many%02d" % j] = ("f", b"%d" % j)
    return t


def materialise_shuffled(tree, root, rng):
    os.makedirs(root, exist_ok=True)
    items = list(tree.items())
    rng.shuffle(items)
    for name, node in items:
        p = os.path.join(root, name)
        if node[0] == "f":
            with open(p, "wb") as f:
                f.write(node[1])
        elif node[0] == "d":
            materialise_shuffled(node[1], p, rng)
        else:
            os.symlink(node[1], p)


def impl_dir(parent, name, patterns, follow=False):
    import in_toto.runlib as rl
    cwd = os.getcwd()
    try:
        os.chdir(parent)
        try:
            kw = {"follow_symlink_dirs": True} if follow else {}
            r = rl.record_artifacts_as_dict(["dir:" + name], exclude_patterns=patterns or None, **kw)
            return {"ok": sorted([k, v["sha256"]] for k, v in r.items())}
        except Exception as e:  # pylint: disable=broad-except
            return {"err": type(e).__name__}
    finally:
        os.chdir(cwd)


def model_dir(tree, name, patterns, follow=False):
    import in_toto.settings as st
    eff = patterns or list(st.ARTIFACT_EXCLUDE_PATTERNS)
    top = ("d", tree)
    for comp in reversed(name.split("/")):
        top = ("d", {comp: top})
    top = top[1]
    cands = T.candidate_paths(top, ["dir:" + name, "."])
    m = core.driver().call({"op": "record", "root": T.model_node(top, top), "artifacts": ["dir:" + name],
                            "excl": T.exclusion_table(eff, cands), "follow": bool(follow), "normalize": False, "lstrip": []})
    if "ok" in m:
        return {"ok": sorted([k, hashlib.sha256(v["text"].encode("utf8")).hexdigest()] for k, v in m["ok"])}, m
    return m, m


def documented_digest(tree, patterns, follow=False):
    """sha256 of the lines '<sha256 of file>  <relative path>' in byte order of the paths."""
    import in_toto.settings as st
    eff = patterns or list(st.ARTIFACT_EXCLUDE_PATTERNS)
    ref = T.reference_record(tree, ["."], eff, bool(follow), False, [])
    lines = sorted(((p.encode("utf8"), h) for p, h in ref[1].items()))
    text = b"".join(h.encode() + b"  " + p + b"\n" for p, h in lines)
    return hashlib.sha256(text).hexdigest(), ref[1]


def inplace_edit_case(rng, res, no):
    """The same directory recorded twice in one process, a contained file rewritten in place in between - same size, and
    (as archives, `cp -p`, `rsync -t`, clamped build time stamps leave it) the same modification time: the second
    digest is the documented one of what is there NOW."""
    tree = {"app.bin": ("f", b"app %03d\n" % rng.randrange(999)), "sub": ("d", {"conf.ini": ("f", b"mode=a\n"), "data": ("f", b"0123456789")}),
            "README": ("f", b"read me\n")}
    target, new = [("sub/conf.ini", b"mode=b\n"), ("app.bin", b"APP 000\n"), ("sub/data", b"9876543210")][no % 3]
    keep_mtime = no % 2 == 0
    d = tempfile.mkdtemp(prefix="verif-c20e-")
    try:
        T.materialise(tree, os.path.join(d, "out"))
        first = impl_dir(d, "out", [])
        path = os.path.join(d, "out", target)
        st0 = os.stat(path)
        with open(path, "r+b") as f:          # (in place: the same inode)
            f.write(new)
        if keep_mtime:
            os.utime(path, ns=(st0.st_atime_ns, st0.st_mtime_ns))
        second = impl_dir(d, "out", [])
    finally:
        shutil.rmtree(d, ignore_errors=True)
    t2 = copy.deepcopy(tree)
    node = t2
    for comp in target.split("/")[:-1]:
        node = node[comp][1]
    node[target.split("/")[-1]] = ("f", new)
    want1, want2 = documented_digest(tree, [])[0], documented_digest(t2, [])[0]
    got1 = dict(first.get("ok") or []).get("dir:out"); got2 = dict(second.get("ok") or []).get("dir:out")
    case = {"op": "inplace_edit", "no": no, "file": target, "modification_time_kept": keep_mtime}
    ok = got1 == want1 and got2 == want2
    res.case(dict(case, first=got1, second=got2), True, ok, sample_cap=1)
    res.count("inplace_edit")
    if not ok:
        res.fail("oracle", case, {"why": "a directory recorded again after a file in it was rewritten in place does not have the documented "
                                         "digest of its present content" if got1 == want1 else "first recording differs from the documented digest",
                                  "first": first, "second": second, "documented": [want1, want2]})


# lists whose ORDER (and repetitions) matter: a later pattern overrides an earlier one
ORDERED_PATTERNS = [["*.txt", "!bar.txt"], ["!bar.txt", "*.txt"], ["*.txt", "!bar.txt", "*.txt"], ["*.c", "*.txt", "!/sub/bar.txt"],
                    ["bar.*", "!bar.txt", "keep.log"], ["*.log", "!keep.log"], ["!keep.log", "*.log"]]


def one_case(rng, res, degenerate=None, ordered=None):
    tree = gen_dir_tree(rng)
    if ordered is not None:
        tree["bar.txt"] = ("f", b"bar %d\n" % rng.randrange(99)); tree["keep.log"] = ("f", b"keep\n"); tree["x.log"] = ("f", b"x\n")
        if tree.get("sub", ("f",))[0] != "d":
            tree["sub"] = ("d", {})
        tree["sub"][1]["bar.txt"] = ("f", b"sub bar\n"); tree["sub"][1]["keep.log"] = ("f", b"k2\n")
    if degenerate == "empty":
        tree = {}
    elif degenerate == "empty_subdirs":
        tree = {"sub": ("d", {"deep": ("d", {})}), "lib": ("d", {})}
    elif degenerate == "all_excluded":
        tree = {"a.pyc": ("f", b"x"), "sub": ("d", {"m.pyc": ("f", b"y")})}
    # patterns apply to paths relative to the recorded directory: anchored ones (a slash at the start or inside) and
    # ones that match a component of the directory's own location tell "relative to the directory" from anything else
    patterns = rng.choice([[], [], [], ["*.pyc"], ["sub"], ["*.txt"], ["sub/deep"], ["/a"], ["/bar.txt", "/lib"], ["deep/*"],
                           ["build"], ["loc*"], ["lib/**/x y"], ["build/"], ["sub/"], ["**/cache/"]])
    if ordered is not None:
        patterns = list(ORDERED_PATTERNS[ordered % len(ORDERED_PATTERNS)])
    if degenerate == "all_excluded":
        patterns = ["*.pyc"]
    elif degenerate:
        patterns = []
    if patterns and patterns[0].endswith("/"):
        # a pattern with a trailing slash names directories only: a regular file of that name (here: a script next to
        # the output directory it produces) is not excluded by it
        nm = patterns[0].rstrip("/").split("/")[-1]
        if not (nm in tree and tree[nm][0] == "d"):
            tree[nm] = ("d", {"out.o": ("f", b"object\n"), "deep": ("d", {"gen.c": ("f", b"int g;\n")})})
        tools = tree.get("tools") if tree.get("tools", ("f",))[0] == "d" else None
        if tools is None:
            tree["tools"] = tools = ("d", {})
        tools[1][nm] = ("f", b"#!/bin/sh\nmake\n")
    name = rng.choice(["d", "my dir", "ü", "loc/build/out", "build", "x~/d", "pkg#debug", "q?x=1", "build/pkg#1"])
    # symlinks inside the directory (to files, to directories, dangling; two names for one directory), recorded as
    # in_toto_run records (symlinked directories followed) or as the plain library call does (not followed)
    follow = False
    if not degenerate and rng.random() < 0.35:
        T.add_symlinks(rng, tree, rng.randrange(1, 4))
        if rng.random() < 0.6 and "v2" not in tree:
            tree["v2"] = ("d", {"lib.so": ("f", b"so%d" % rng.randrange(9)), "inc": ("d", {"h.h": ("f", b"h")})})
            tree["latest"] = ("l", "v2")
            tree[rng.choice(["stable", "a-first", "zz-last"])] = ("l", "v2")
        follow = rng.random() < 0.7
    variants = [("base", tree)]
    t2, edits = c19.edit_tree(rng, tree)
    variants.append(("edited:" + ",".join(edits), t2))
    variants.append(("same_other_order", copy.deepcopy(tree)))
    digests = []
    for label, t in variants:
        d = tempfile.mkdtemp(prefix="verif-c20-")
        try:
            materialise_shuffled(t, os.path.join(d, name), rng)
            i = impl_dir(d, name, patterns, follow)
        finally:
            shutil.rmtree(d, ignore_errors=True)
        m, _raw = model_dir(t, name, patterns, follow)
        agreed = i == m
        exp, entries = documented_digest(t, patterns, follow)
        desc = {"variant": label, "patterns": patterns, "n_files": len(entries), "dir": name, "follow_symlink_dirs": follow,
                "symlinks": T.contains_link(("d", t))}
        full = {"op": "dir_digest", "desc": desc, "tree": T.to_jsonable(t)}
        res.case({"desc": desc, "impl": i}, len(entries) >= 2, agreed, sample_cap=2)
        res.count("variant_" + label.split(":")[0])
        if not agreed:
            res.fail("disagree", full, {"op": "record dir:", "impl": i, "model": m})
        if i != {"ok": [["dir:" + name, exp]]}:
            res.fail("oracle", full,
                     {"why": "dir: digest is not the SHA-256 of the documented '<sha256>  <path>' lines in byte order",
                      "impl": i, "expected": exp})
        digests.append((i.get("ok"), entries))
    # digest equality <-> entry-set equality
    for a in range(len(digests)):
        for b in range(a + 1, len(digests)):
            if digests[a][0] is None or digests[b][0] is None:
                continue
            if (digests[a][0] == digests[b][0]) != (digests[a][1] == digests[b][1]):
                res.fail("oracle", {"op": "dir_digest", "desc": {"pair": [variants[a][0], variants[b][0]]}},
                         {"why": "digest equality does not coincide with equality of the contained (path, content) sets"})


def lstrip_case(rng, res):
    """`lstrip_paths` shortens the *name* under which a directory is recorded (dir:build/out -> dir:out); the digest is
    that of the files' paths relative to the directory, untouched - also when such a path starts with the prefix."""
    import in_toto.runlib as rl
    pre = rng.choice(["build/", "sub/", "b"])
    tree = gen_dir_tree(rng)
    tree[pre.rstrip("/")] = ("d", {"config.txt": ("f", b"c\n"), "deep": ("d", {"x": ("f", b"x\n")})}) if pre.endswith("/") else ("f", b"plain\n")
    tree["config.txt"] = ("f", b"top\n")
    name = pre + "out" if pre.endswith("/") else "bout"
    d = tempfile.mkdtemp(prefix="verif-c20l-")
    cwd = os.getcwd()
    try:
        materialise_shuffled(tree, os.path.join(d, name), rng)
        os.chdir(d)
        try:
            r = rl.record_artifacts_as_dict(["dir:" + name], lstrip_paths=[pre])
            i = {"ok": sorted([k, v["sha256"]] for k, v in r.items())}
        except Exception as e:  # pylint: disable=broad-except
            i = {"err": type(e).__name__}
    finally:
        os.chdir(cwd)
        shutil.rmtree(d, ignore_errors=True)
    exp, entries = documented_digest(tree, [])
    want = {"ok": [["dir:" + name[len(pre):], exp]]}
    desc = {"variant": "lstrip", "prefix": pre, "dir": name, "n_files": len(entries)}
    res.case({"desc": desc, "impl": i}, True, i == want, sample_cap=1)
    res.count("variant_lstrip")
    if i != want:
        res.fail("oracle", {"op": "dir_digest_lstrip", "desc": desc, "tree": T.to_jsonable(tree)},
                 {"why": "with lstrip_paths=%r the directory must be recorded as %r with the digest of its files' relative paths" % ([pre], want["ok"][0][0]),
                  "impl": i, "expected": want})


def many_files_case(n, rng, res):
    """A directory with very many files (counts just above powers of two: chunked processing shows at the seams)."""
    tree = {}
    for j in range(n):
        name = "f%05d" % j
        if j % 7 == 0:
            tree.setdefault("sub%d" % (j % 3), ("d", {}))[1][name] = ("f", b"%d\n" % j)
        else:
            tree[name] = ("f", b"%d\n" % j)
    name = "many"
    d = tempfile.mkdtemp(prefix="verif-c20m-")
    try:
        materialise_shuffled(tree, os.path.join(d, name), rng)
        i = impl_dir(d, name, [])
    finally:
        shutil.rmtree(d, ignore_errors=True)
    m, _raw = model_dir(tree, name, [])
    exp, entries = documented_digest(tree, [])
    desc = {"variant": "many_files", "n_files": len(entries), "dir": name}
    res.case({"desc": desc, "impl": i}, True, i == m, sample_cap=1)
    res.count("variant_many_files")
    full = {"op": "dir_digest_many", "desc": desc}
    if i != m:
        res.fail("disagree", full, {"op": "record dir:", "impl": i, "model": m})
    if i != {"ok": [["dir:" + name, exp]]}:
        res.fail("oracle", full, {"why": "dir: digest of a directory with %d files is not the SHA-256 of the documented '<sha256>  <path>' "
                                         "lines in byte order" % len(entries), "impl": i, "expected": exp})


def shard_many(seed, counts):
    res = core.Result()
    rng = core.rng_for(seed, "c20", "many")
    for n in counts:
        many_files_case(n, rng, res)
    for _ in range(4 if len(counts) <= 2 else 40):
        lstrip_case(rng, res)
    return res


def one_ostree(rng, res):
    d = tempfile.mkdtemp(prefix="verif-c20o-")
    try:
        refs = {}
        tree = {"refs": ("d", {"heads": ("d", {})}), "objects": ("d", {})}
        for _ in range(rng.randrange(1, 4)):
            ref = rng.choice(["main", "os/x86_64/stable", "dev", "a b"])
            commit = "%064x" % rng.getrandbits(256)
            content = commit + rng.choice(["\n", "", "\n\n"])
            obj = b"commit-object-%d" % rng.randrange(10**6)
            refs[ref] = (commit, obj)
            cur = tree["refs"][1]["heads"][1]
            comps = ref.split("/")
            for c in comps[:-1]:
                cur = cur.setdefault(c, ("d", {}))[1]
            cur[comps[-1]] = ("f", content.encode())
            if rng.random() < 0.9:
                tree["objects"][1].setdefault(commit[:2], ("d", {}))[1][commit[2:] + ".commit"] = ("f", obj)
        T.materialise(tree, d)
        ask = list(refs) + (["missing"] if rng.random() < 0.3 else [])
        rng.shuffle(ask)
        import in_toto.runlib as rl
        try:
            r = rl.record_artifacts_as_dict(["ostree:" + a for a in ask], base_path=d)
            i = {"ok": sorted([k, v["sha256"]] for k, v in r.items())}
        except OSError:
            i = {"err": "OSError"}
        except Exception as e:  # pylint: disable=broad-except
            i = {"err": "Exception" if type(e).__name__ == "StorageError" else type(e).__name__}
        m = core.driver().call({"op": "record", "root": T.model_node(tree, tree), "artifacts": ["ostree:" + a for a in ask],
                                "excl": [], "follow": False, "normalize": False, "lstrip": []})
        if "ok" in m:
            m = {"ok": sorted([k, v["digest"]] for k, v in m["ok"])}
        agreed = i == m
        res.case({"ostree_refs": ask, "impl": i if "err" in i else {"n": len(i["ok"])}}, "ok" in i, agreed, sample_cap=1)
        res.count("ostree_" + ("ok" if "ok" in i else i["err"]))
        if not agreed:
            res.fail("disagree", {"op": "ostree", "refs": ask}, {"op": "record ostree:", "impl": i, "model": m})
        if "ok" in i:
            exp = sorted(["ostree:" + a, hashlib.sha256(refs[a][1]).hexdigest()] for a in set(ask))
            if i["ok"] != exp:
                res.fail("oracle", {"op": "ostree", "refs": ask},
                         {"why": "ostree: digest is not the SHA-256 of the commit object the ref points to", "impl": i, "expected": exp})
            # the same refs recorded again in the same process after a commit object was rewritten in place (same object
            # name, other bytes), and from a second repository with the same ref and object names: the digest is that of
            # the bytes on disk at that moment, whatever was recorded before
            victim = rng.choice(sorted(set(ask) & set(refs)))
            commit = refs[victim][0]
            obj_path = os.path.join(d, "objects", commit[:2], commit[2:] + ".commit")
            if os.path.exists(obj_path):
                new_obj = b"rewritten-%d" % rng.randrange(10**6)
                where = d
                if rng.random() < 0.5:
                    with open(obj_path, "wb") as f:
                        f.write(new_obj)
                else:
                    where = tempfile.mkdtemp(prefix="verif-c20o2-")
                    os.makedirs(os.path.join(where, "refs", "heads", os.path.dirname(victim)), exist_ok=True)
                    with open(os.path.join(where, "refs", "heads", victim), "w") as f:
                        f.write(commit + "\n")
                    os.makedirs(os.path.join(where, "objects", commit[:2]))
                    with open(os.path.join(where, "objects", commit[:2], commit[2:] + ".commit"), "wb") as f:
                        f.write(new_obj)
                try:
                    r2 = rl.record_artifacts_as_dict(["ostree:" + victim], base_path=where)
                    got = r2["ostree:" + victim]["sha256"]
                except Exception as e:  # pylint: disable=broad-except
                    got = type(e).__name__
                finally:
                    if where != d:
                        shutil.rmtree(where, ignore_errors=True)
                res.evaluations += 1
                res.count("ostree_rerecorded")
                if got != hashlib.sha256(new_obj).hexdigest():
                    res.fail("oracle", {"op": "ostree", "refs": [victim], "history": "recorded, object %s, recorded again" % (
                        "rewritten in place" if where == d else "of the same name in another repository")},
                             {"why": "ostree: digest is not the SHA-256 of the commit object on disk at the time of recording",
                              "recorded": got, "expected": hashlib.sha256(new_obj).hexdigest()})
    finally:
        shutil.rmtree(d, ignore_errors=True)


def several_dirs_case(rng, res):
    """Several dir: artifacts recorded by ONE call (as `in-toto-run -p dir:a dir:b` does): each digest is the documented
    construction over its own directory, whatever was recorded before it in the same call."""
    import in_toto.runlib as rl
    names = rng.sample(["alpha", "beta", "g amma", "d/elta"], rng.randrange(2, 4))
    trees = {nm: gen_dir_tree(rng) for nm in names}
    if rng.random() < 0.5:
        trees[names[-1]] = {"only.txt": ("f", b"only\n")}        # (a later directory lacking the earlier ones' files)
    d = tempfile.mkdtemp(prefix="verif-c20s-")
    cwd = os.getcwd()
    try:
        for nm, t in trees.items():
            materialise_shuffled(t, os.path.join(d, nm), rng)
        os.chdir(d)
        try:
            r = rl.record_artifacts_as_dict(["dir:" + nm for nm in names])
            got = {"ok": sorted([k, v["sha256"]] for k, v in r.items())}
        except Exception as e:  # pylint: disable=broad-except
            got = {"err": type(e).__name__}
    finally:
        os.chdir(cwd)
        shutil.rmtree(d, ignore_errors=True)
    want = {"ok": sorted(["dir:" + nm, documented_digest(t, [])[0]] for nm, t in trees.items())}
    case = {"op": "several_dirs", "dirs": names, "n_files": [len(documented_digest(t, [])[1]) for t in trees.values()]}
    res.case(case, True, got == want, sample_cap=1)
    res.count("several_dirs_in_one_call")
    if got != want:
        res.fail("oracle", case, {"why": "dir: digests recorded by one call are not each the documented construction over its own directory",
                                  "impl": got, "expected": want})


def shard(seed, idx, n, tier):
    res = core.Result()
    rng = core.rng_for(seed, "c20", idx)
    several_dirs_case(rng, res)
    from harness.props import c10
    c10.unreadable_case(rng, res, scheme="dir:")      # a contained file that cannot be read: no digest without it
    for _ in range(n):
        one_case(rng, res)
    one_case(rng, res, ordered=idx)          # (every order-sensitive list in every run)
    inplace_edit_case(rng, res, idx)
    if idx < 3:
        # a directory without a single recorded file (empty, only empty sub-directories, everything excluded): the
        # digest of zero lines; adding a file changes it
        one_case(rng, res, degenerate=["empty", "empty_subdirs", "all_excluded"][idx])
    for _ in range(max(1, n // 2)):
        one_ostree(rng, res)
    return res


def shard_cli_equiv(seed, idx, n):
    """The command line against the library call it stands for (harness/cliequiv.py): recording through in-toto-run /
    in-toto-record with the options that matter here (exclude patterns incl. negations and directory-only ones, prefix
    stripping, base path, dir: artifacts, time limit, verbosity)."""
    from harness import cliequiv
    res = core.Result()
    rng = core.rng_for(seed, "c20", "cli_equiv", idx)
    for _ in range(n):
        for tool in ['run', 'record']:
            cliequiv.equiv_case(rng, res, tool)
    from harness import clicall
    for _ in range(2 * n):
        for t in ("run", "record_start", "record_stop"):
            clicall.one_case(rng, res, t)
    return res


def run(tier, seed):
    per = 5 if tier == "quick" else 65
    shards = [(shard, (seed, i, per, tier)) for i in range(16)]
    shards.append((shard_many, (seed, [1025, 2049] if tier == "quick" else [1023, 1024, 1025, 2049, 4097, 8200])))
    shards += [(shard_cli_equiv, (seed, i, 3 if tier == "quick" else 40)) for i in range(4)]
    return core.parallel(core.call, shards)


def replay(case):
    if case.get("op") == "inplace_edit":
        import random
        res = core.Result()
        inplace_edit_case(random.Random(0), res, case["no"])
        return {"case": case, "failures": res.failures, "samples": res.samples}
    if case.get("op") != "dir_digest" or "tree" not in case:
        return {"note": "regenerated from the seed", "case": case}
    import random
    t = T.from_jsonable(case["tree"])
    name, patterns = case["desc"]["dir"], case["desc"]["patterns"]
    d = tempfile.mkdtemp(prefix="verif-c20-")
    try:
        materialise_shuffled(t, os.path.join(d, name), random.Random(0))
        follow = bool(case["desc"].get("follow_symlink_dirs"))
        i = impl_dir(d, name, patterns, follow)
    finally:
        shutil.rmtree(d, ignore_errors=True)
    m, _raw = model_dir(t, name, patterns, follow)
    exp, entries = documented_digest(t, patterns, follow)
    return {"impl": i, "model": m, "documented_digest": exp, "entries": sorted(entries)}


def search(failure, tier, seed):
    res = core.parallel(core.call, [(shard, (seed + 1000 + i, i, 15, tier)) for i in range(16)])
    for f in res.failures:
        if f["kind"] == "oracle":
            return f
    return None
