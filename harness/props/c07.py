"""C07 — inspection commands run only after all prior checks pass, once, in order.

Inspection commands are calls of a helper that appends its id to an append-only
log outside the recorded tree and then exits 0 / exits 1 / sleeps past the time
limit. Every way an earlier stage can fail is injected at the root or inside a
sublayout. Oracle: the log, judged per layout node from generator ground truth."""
import datetime
import os

from harness import core, scen, vcommon, world as W

RULE = ("layout trees of depth 0-2 with inspection lists of length 0-3 per layout whose commands succeed / exit 1 / "
        "exceed the time limit, crossed with one injected earlier-stage failure at the root or in a sublayout: bad layout "
        "signature, supplied key without signature, expiry, missing links, threshold not met, threshold disagreement, "
        "failing sublayout, violated step rule, unloadable link file. Non-trivial: at least one inspection exists "
        "somewhere in the tree; distinct by description.")
ASSUMPTIONS = ["a helper process that sleeps stands for 'exceeds the time limit' (the sleeper sleeps 8.5 s: beyond the 5 s limit set when a scenario has one, below in-toto's 10 s default; 60 s limit otherwise, so that an overloaded machine does not turn an ordinary inspection into a time-out)",
               "the append-only log is the only side effect observed"]
FAILS = [None, None, None, "layout_sig", "unsigned_key", "expired", "missing_links", "threshold_unmet",
         "threshold_disagree", "step_rule", "unloadable_link"]
ACTIONS = ["exit0", "exit0", "exit0", "exit1", "sleep"]


def set_inspections(rng, ch, prefix):
    n = rng.choice([0, 1, 2, 3])
    ch.inspections = []
    for j in range(n):
        ch.inspections.append({"name": "%sq%d" % (prefix, j), "ident": "%sq%d" % (prefix, j), "action": rng.choice(ACTIONS)})


def inject(rng, ch, node, kind, is_root, scn_hooks):
    """Make `node` fail at an earlier stage."""
    if kind == "layout_sig":
        if is_root:
            scn_hooks.append(("layout_tamper", "sig"))
        else:
            return False
    elif kind == "unsigned_key":
        if is_root:
            scn_hooks.append(("extra_key", None))
        else:
            return False
    elif kind == "expired":
        node.expires = vcommon.expired_instant(rng)
    elif kind == "missing_links":
        rng.choice(node.steps)["links"] = []
    elif kind == "threshold_unmet":
        st = rng.choice(node.steps)
        for ls in st["links"]:
            ls["tamper"] = "sig"
    elif kind == "threshold_disagree":
        st = rng.choice(node.steps)
        pool = [k for k in W.pool() if k not in node.owners and k not in st["keys"]]
        k2 = rng.choice(pool)
        st["keys"] = st["keys"] + [k2]; st["pubkeys"] = st["pubkeys"] + [k2.keyid]
        node.layout_keys[k2.keyid] = k2.pub
        p2 = dict(st["products"]); p2["dissent"] = {"sha256": "dd" * 32}
        st["links"] = [l for l in st["links"] if l["sub"] is None][:1] or st["links"][:1]
        st["links"].append(scen.link_spec(k2, "metablock", st["name"], st["materials"], p2))
        st["threshold"] = 2
    elif kind == "step_rule":
        st = rng.choice(node.steps)
        # the violated rule first, or reached only after earlier rules have consumed every artifact
        st["rules"] = ([["ALLOW", "*"]], rng.choice([[["REQUIRE", "absent-file"]],
                                                     [["ALLOW", "*"], ["REQUIRE", "absent-file"]],
                                                     [["CREATE", "*"], ["MODIFY", "*"], ["ALLOW", "*"], ["require", "absent-file"]]]))
        if node.inspections and rng.random() < 0.5:
            # ... in a rule list that also refers to an inspection of the layout (which has not run, and must not run
            # before this list has been checked): such a reference matches nothing
            ref = ["MATCH", "*", "WITH", rng.choice(["PRODUCTS", "MATERIALS"]), "FROM", rng.choice(node.inspections)["name"]]
            st["rules"] = (st["rules"][0], [ref] + st["rules"][1])
    elif kind == "unloadable_link":
        scn_hooks.append(("unloadable", node))
    return True


def expected_logs(ch, failed_node, kind):
    """Per layout node: (own idents in order, must_be_empty, fails_at index or None)."""
    out = {}
    for node, path in scen.walk(ch):
        ids = [x["ident"] for x in node.inspections]
        fail_at = next((j for j, x in enumerate(node.inspections) if x["action"] != "exit0"), None)
        out[id(node)] = (ids, node is failed_node, fail_at)
    return out


def gen_case(rng, root, kind="draw", prefer_sub=None):
    depth = rng.choice([0, 0, 1, 1, 2]) if not prefer_sub else rng.choice([1, 1, 2])
    ch = scen.gen_chain(rng, root, n_steps=rng.choice([1, 2]), n_insp=0, thresholds=(1,), max_funcs=2,
                        depth=depth, sub_prob=0.6)
    nodes = list(scen.walk(ch))
    for node, path in nodes:
        set_inspections(rng, node, "n%s" % "".join("%d%d" % p for p in path))
    stepless = None
    subs1 = [(n, p) for n, p in nodes if len(p) == 1]
    if subs1 and rng.random() < 0.25:
        # a delegated layout without steps: its inspections run like any other layout's
        from harness.props import c06
        n_, p_ = rng.choice(subs1)
        c06.make_stepless(ch, p_)
        stepless = p_
        nodes = list(scen.walk(ch))
    if kind == "draw":
        kind = rng.choice(FAILS)
    hooks = []
    failed = None
    if kind:
        # (a failure of an earlier stage is injected through the steps of a layout: one that has some)
        cands_ = [(n, p) for n, p in nodes if n.steps]
        if prefer_sub and [c_ for c_ in cands_ if c_[1]]:
            cands_ = [c_ for c_ in cands_ if c_[1]]
        node, path = rng.choice(cands_)
        if inject(rng, ch, node, kind, not path, hooks):
            failed = node
            # a failing sublayout must be decisive for its parent
            if path:
                _par, pstep, _spec = __import__("harness.props.c06", fromlist=["find_spec"]).find_spec(ch, path)
                pstep["threshold"] = len(pstep["links"])
        else:
            kind = None
    desc = {"depth": depth, "fail": kind, "fail_at_root": failed is ch if failed else None, "stepless_sublayout_at": stepless,
            "inspections": {("root" if not p else "sub%s" % (p,)): [(x["ident"], x["action"]) for x in n.inspections]
                            for n, p in nodes}}
    return ch, desc, hooks, failed


def apply_hooks(scn, ch, hooks, rng):
    for h, arg in hooks:
        if h == "layout_tamper":
            scn.layout = scen.apply_tamper(scn.layout, "sig", rng, scn.table)
        elif h == "extra_key":
            k = [k for k in W.pool() if k not in ch.owners][0]
            scn.keys[k.keyid] = k.pub
        elif h == "unloadable":
            # turn one link file of that node's directory into non-JSON text
            node = arg
            names = {s["name"] for s in node.steps}
            cands = [p for p in scn.files if p.rsplit("/", 1)[-1].split(".")[0] in names]
            if cands:
                scn.files[sorted(cands)[0]] = "this is not json"


def judge(log, ch, failed, any_failure_expected, accepted):
    """Returns a reason string if the log violates C07, else None."""
    for node, path in scen.walk(ch):
        ids = [x["ident"] for x in node.inspections]
        own = [x for x in log if x in ids]
        if node is failed and own:
            return "commands of a layout whose earlier checks fail were executed: %s" % own
        # once-only, in order, prefix — per verification of that node (a node may be verified
        # more than once only if it appears more than once; idents are unique per node here)
        if own != ids[:len(own)]:
            return "inspection commands not run as an in-order, once-only prefix: ran %s of %s" % (own, ids)
        fail_at = next((j for j, x in enumerate(node.inspections) if x["action"] != "exit0"), None)
        if fail_at is not None and len(own) > fail_at + 1:
            return "an inspection ran after an earlier one failed or timed out: %s" % own
    if accepted and any_failure_expected:
        return "verification passed although a stage or an inspection failed"
    if accepted:
        for node, path in scen.walk(ch):
            ids = [x["ident"] for x in node.inspections]
            own = [x for x in log if x in ids]
            if own != ids:
                return "verification passed although not every inspection of every layout in the tree ran exactly once: ran %s of %s" % (own, ids)
    return None


def timeout_for(ch):
    """Time limit for inspections: short only when some inspection is meant to exceed it, and
    even then with a wide margin over interpreter start-up under load."""
    sleeper = any(x["action"] == "sleep" for n, _p in scen.walk(ch) for x in n.inspections)
    return 5 if sleeper else 60


def one_case(rng, res, kind="draw", prefer_sub=None):
    root = scen.new_root()
    try:
        ch, desc, hooks, failed = gen_case(rng, root, kind, prefer_sub)
        scn = scen.build(ch, root, rng)
        scn.params = vcommon.pick_params(rng, desc)
        vcommon.pick_tz(rng, scn, desc)
        scn.meta["inspect_timeout"] = timeout_for(ch)
        scn.meta["persist_links"] = desc["persist_inspection_links"] = rng.random() < 0.5
        apply_hooks(scn, ch, hooks, rng)
        any_insp = any(n.inspections for n, _p in scen.walk(ch))
        i, m, _ = vcommon.run_case(scn, desc, res, any_insp)
        late = os.path.join(root, "insp.log.late")
        if scn.meta["inspect_timeout"] == 5 and os.path.exists(late):
            vcommon.oracle_fail(res, scn, desc, "an inspection command that exceeds the time limit was not stopped: it ran to its end (%s)"
                                % open(late).read().split(), i)
        res.count("fail_%s" % desc["fail"]); res.count("loglen_%d" % len(i.get("log") or []))
        if i.get("load") != "ok":
            return
        any_fail = failed is not None or any(x["action"] != "exit0" for n, _p in scen.walk(ch) for x in n.inspections)
        why = judge(i.get("log") or [], ch, failed, any_fail, vcommon.accepted(i))
        if why:
            vcommon.oracle_fail(res, scn, desc, why, i)
    finally:
        scen.drop_root(root)


def cli_case(rng, res):
    """The same at the command line: a layout with inspections, signed by its owners; in-toto-verify is given the owners'
    keys through one option and one more key - which did not sign - through another (or the same). The layout is
    under-signed for that invocation: non-zero status and no inspection command executed."""
    import os
    from harness import cli
    from harness.props import c18
    root = scen.new_root()
    cwd = os.getcwd()
    try:
        ch = scen.gen_chain(rng, root, n_steps=1, n_insp=0, thresholds=(1,), max_funcs=1)
        set_inspections(rng, ch, "c")
        for x in ch.inspections:
            x["action"] = "exit0"
        if not ch.inspections:
            ch.inspections = [{"name": "cq0", "ident": "cq0", "action": "exit0"}]
        scn = scen.build(ch, root, rng)
        scn.materialise(root)
        owners = [k for k in W.pool() if k.keyid in scn.keys]
        rsa = [k for k in W.pool() if k not in ch.owners and k.kind == "rsa"]
        stranger = rsa[0] if rsa else [k for k in W.pool() if k not in ch.owners][0]
        form = rng.choice(["control", "layout_keys", "layout_keys_first", "same_option", "gpg"])
        if form.startswith("layout_keys") and not rsa:
            form = "same_option"
        if form == "gpg" and not W.gpg_available():
            form = "same_option"
        own = ["--verification-keys"] + [c18.write_pub_pem(k, root) for k in owners]
        argv = ["--layout", os.path.join(root, "root.layout"), "--link-dir", os.path.join(root, "links"), "--inspection-timeout", "60"]
        if form == "control":
            argv += own
        elif form == "layout_keys":
            argv += own + ["--layout-keys", c18.write_pub_pem(stranger, root)]
        elif form == "layout_keys_first":
            argv += ["--layout-keys", c18.write_pub_pem(stranger, root)] + own
        elif form == "same_option":
            argv += own + [c18.write_pub_pem(stranger, root)]
        else:
            g = W.gpg_key("no_sub")
            argv += ["--gpg", g.keyid, "--gpg-home", g.gpg_home] + own
        logpath = os.path.join(root, "insp.log")
        os.chdir(os.path.join(root, "product"))
        st, _o, _e = cli.run_main("in_toto_verify", argv)
        log = open(logpath).read().split() if os.path.exists(logpath) else []
    finally:
        os.chdir(cwd)
        scen.drop_root(root)
    ids = [x["ident"] for x in ch.inspections]
    ok = (st == 0 and log == ids) if form == "control" else (st != 0 and not log)
    case = {"op": "cli_under_signed", "form": form, "layout_fmt": ch.layout_fmt, "inspections": ids}
    res.case(dict(case, status=st, executed=log), True, ok, sample_cap=1)
    res.count("cli_" + form)
    if not ok:
        res.fail("oracle", case, {"why": ("honest chain at the command line: status %r, executed %r" % (st, log)) if form == "control" else
                                         "in-toto-verify was given a key (%s) for which the layout carries no signature, yet it %s" % (
                                             form, "executed inspection commands %r" % log if log else "exited 0"), "status": st})


def shard(seed, idx, n, tier):
    res = core.Result()
    rng = core.rng_for(seed, "c07", idx)
    # every kind of failing earlier stage occurs in every run, at the root and inside a delegated layout (the kinds are
    # cycled through, not drawn: what a run covers must not depend on the luck of the seed)
    kinds = [k_ for k_ in dict.fromkeys(FAILS) if k_]
    for j in range(n):
        c_ = idx * n + j
        if c_ % 3 == 0:
            one_case(rng, res, kind=kinds[(c_ // 3) % len(kinds)], prefer_sub=(c_ // 3 // len(kinds)) % 2 == 0)
        else:
            one_case(rng, res)
    for _ in range(max(1, n // 6)):
        cli_case(rng, res)
    return res


def run(tier, seed):
    per = 12 if tier == "quick" else 190
    return core.parallel(core.call, [(shard, (seed, i, per, tier)) for i in range(16)])


replay = vcommon.replay
search = vcommon.generic_search(shard, per=20)
