"""C17 — every rule parses to one meaning or is rejected; malformed rules cannot load.

Correspondence: `in_toto.rulelib.unpack_rule` / `pack_rule_data` vs the Lean
model `unpackRule` / `packRule` on exhaustively enumerated short token lists,
on every single/double mutation of the documented shapes, and on random lists
up to length 11.  Oracle: result class is a dict or FormatError (never None or
another exception); the parse does not depend on keyword case; operands are
verbatim; pack/unpack round trip is stable.
"""
import itertools
import json

from harness import core

RULE = ("token lists over an alphabet of keywords in three letter cases, look-alike operands, '', "
        "a non-string and non-ASCII look-alikes: exhaustive for short lists, every single and random "
        "double mutation of the 7 documented shapes, random lists up to length 11, non-list inputs. "
        "A case is non-trivial when the list has >= 2 tokens and either parses or is one mutation "
        "away from a shape that parses; distinct = distinct token list.")
ASSUMPTIONS = [
    "str.lower() agrees with ASCII lower-casing whenever the result is a keyword (checked with the tokens 'İN', 'ın', 'MATCHK', 'KEY')",
]

NONSTR = None  # travels as JSON null; the implementation side gets the int 7
ALPHA = ["MATCH", "match", "MaTcH", "CREATE", "allow", "Require", "DISALLOW", "modify", "Delete",
         "IN", "in", "WITH", "wiTh", "FROM", "from", "MATERIALS", "products", "Products",
         "foo", "a/*.py", "", NONSTR, "İN", "ın", "MATCHK", "froḿ"]
ODD_OPERANDS = ["./dist", "dist/", "out//bin", "src/../lib", "a\\b", " lead", "trail ", "*", "**/x", "caf\u00e9", "cafe\u0301",
                "UPPER", "in", "With", ".", "..", "/abs", "a b", "{x}", "%s", "dist", "lib/"]
SMALL = ["MATCH", "match", "CREATE", "IN", "with", "FROM", "PRODUCTS", "foo", "", NONSTR]
SHAPES = [
    ["CREATE", "p"], ["MODIFY", "p"], ["DELETE", "p"], ["ALLOW", "p"], ["DISALLOW", "p"],
    ["REQUIRE", "p"],
    ["MATCH", "p", "WITH", "PRODUCTS", "FROM", "s"],
    ["MATCH", "p", "IN", "src", "WITH", "MATERIALS", "FROM", "s"],
    ["MATCH", "p", "WITH", "PRODUCTS", "IN", "dst", "FROM", "s"],
    ["MATCH", "p", "IN", "src", "WITH", "PRODUCTS", "IN", "dst", "FROM", "s"],
]


def to_py(rule):
    return [7 if t is NONSTR else t for t in rule]


def impl_unpack(rule):
    import in_toto.rulelib as rl
    from securesystemslib.exceptions import FormatError
    try:
        r = rl.unpack_rule(rule)
    except FormatError:
        return {"err": "FormatError"}
    except Exception as e:  # pylint: disable=broad-except
        return {"err": type(e).__name__}
    if not isinstance(r, dict):
        return {"err": "returned " + repr(r)}
    return {"ok": r}


def impl_pack(data):
    import in_toto.rulelib as rl
    from securesystemslib.exceptions import FormatError
    try:
        return {"ok": rl.pack_rule_data(dict(data))}
    except FormatError:
        return {"err": "FormatError"}
    except Exception as e:  # pylint: disable=broad-except
        return {"err": type(e).__name__}


def flip_case(tok, rng):
    return "".join(c.upper() if rng.random() < 0.5 else c.lower() for c in tok)


KEYWORDS = {"match", "create", "modify", "delete", "allow", "disallow", "require", "in", "with",
            "from", "materials", "products"}


GENERIC = {"create", "modify", "delete", "allow", "disallow", "require"}
DEST_TYPES = {"materials", "products"}


def grammar(rule):
    """The documented rule grammar, stated directly (the oracle; independent of the Lean model):
    <generic keyword> <pattern> | MATCH <pattern> [IN <prefix>] WITH (MATERIALS|PRODUCTS) [IN <prefix>] FROM <step>,
    keywords in any letter case at fixed positions, nothing before, between or after.  Returns the meaning or None."""
    if not all(isinstance(t, str) for t in rule):
        return None
    low = [t.lower() for t in rule]
    n = len(rule)
    if n == 2 and low[0] in GENERIC:
        return {"rule_type": low[0], "pattern": rule[1]}
    if n not in (6, 8, 10) or low[0] != "match":
        return None
    k = 2
    src = dst = ""
    if low[k] == "in":
        src = rule[k + 1]; k += 2
    if k + 1 >= n or low[k] != "with" or low[k + 1] not in DEST_TYPES:
        return None
    dtype = low[k + 1]; k += 2
    if k < n and low[k] == "in" and n - k == 4:
        dst = rule[k + 1]; k += 2
    if n - k != 2 or low[k] != "from":
        return None
    return {"rule_type": "match", "pattern": rule[1], "source_prefix": src, "dest_prefix": dst, "dest_type": dtype,
            "dest_name": rule[k + 1]}


def check_rules(rules, res, rng, label):
    """rules: list of token lists (None = non-str). Compare impl and model."""
    d = core.driver()
    model = d.batch({"op": "unpack_rule", "rule": r} for r in rules)
    packs = []
    for rule, m in zip(rules, model):
        i = impl_unpack(to_py(rule))
        agreed = (i == m)
        ok = "ok" in i
        nontrivial = len(rule) >= 2 and (ok or label in ("mut1", "mut2", "shape"))
        res.case({"rule": rule, "impl": i, "model": m}, nontrivial, agreed)
        res.count("len_%d" % len(rule))
        res.count("impl_ok" if ok else "impl_" + str(i.get("err")))
        res.count("family_" + label)
        if not agreed:
            res.fail("disagree", {"op": "unpack_rule", "rule": rule},
                     {"op": "unpack_rule", "impl": i, "model": m})
        if not ok and i["err"] != "FormatError":
            res.fail("oracle", {"op": "unpack_rule", "rule": rule},
                     {"why": "rule neither parsed nor rejected with FormatError", "impl": i})
        g = grammar(to_py(rule))
        if (g is None and ok) or (g is not None and i != {"ok": g}):
            res.fail("oracle", {"op": "unpack_rule", "rule": rule},
                     {"why": "a rule outside the documented grammar was parsed" if g is None else
                      "a well-formed rule was rejected or parsed to another meaning than what is written",
                      "impl": i, "grammar": g})
        if ok and not all(isinstance(t, str) for t in rule):
            # a token that is not a string, yet the rule was parsed (reported just above): nothing further to ask of it
            continue
        if ok:
            res.count("type_" + i["ok"]["rule_type"])
            packs.append((rule, i["ok"]))
            # metamorphic oracle: keyword case does not matter, operands verbatim
            rule2 = list(rule)
            low = [t.lower() for t in rule]
            kwpos = [0] + [k for k in range(2, len(rule)) if low[k] in KEYWORDS
                           and (k % 2 == 0 or low[k] in ("materials", "products"))]
            # only flip tokens the parse actually used as keywords
            used = {0}
            r_ = i["ok"]
            if r_["rule_type"] == "match":
                n = len(rule)
                used |= {k for k in range(2, n, 2)}
                used |= {3} if n == 6 or (n == 8 and low[2] == "with") else {5}
            for k in used:
                rule2[k] = flip_case(rule[k], rng)
            i2 = impl_unpack(rule2)
            res.evaluations += 1
            if i2 != i:
                res.fail("oracle", {"op": "unpack_rule", "rule": rule, "recased": rule2},
                         {"why": "changing keyword letter case changed the parse", "impl": i,
                          "impl_recased": i2})
            ops = [v for k, v in r_.items() if k in ("pattern", "source_prefix", "dest_prefix", "dest_name") and v]
            if any(o not in rule for o in ops):
                res.fail("oracle", {"op": "unpack_rule", "rule": rule},
                         {"why": "an operand was not returned verbatim", "impl": i})
    # pack / unpack round trip
    mp = d.batch({"op": "pack_rule", "data": data} for _r, data in packs)
    for (rule, data), m in zip(packs, mp):
        i = impl_pack(data)
        agreed = (i == m)
        res.case({"pack": data, "impl": i, "model": m}, True, agreed)
        if not agreed:
            res.fail("disagree", {"op": "pack_rule", "data": data, "rule": rule},
                     {"op": "pack_rule", "impl": i, "model": m})
        if "ok" in i:
            back = impl_unpack(i["ok"])
            if back != {"ok": data}:
                res.fail("oracle", {"op": "pack_rule", "data": data, "rule": rule},
                         {"why": "parse(write(parse(rule))) differs from parse(rule)",
                          "written": i["ok"], "reparsed": back})
        else:
            res.count("pack_rejected")
            if not (data.get("rule_type") == "match" and data.get("dest_name") == ""):
                res.fail("oracle", {"op": "pack_rule", "data": data, "rule": rule},
                         {"why": "a parsed rule with non-empty step name could not be written back",
                          "impl": i})


def shard_add_api(seed, idx, n):
    """Step / Inspection .add_material_rule_from_string / .add_product_rule_from_string: a rejected rule string must
    leave the object as it was (a step or inspection containing a malformed rule cannot be constructed)."""
    from in_toto.models.layout import Step, Inspection
    from securesystemslib.exceptions import FormatError
    res = core.Result()
    rng = core.rng_for(seed, "c17", "add", idx)
    words = ["MATCH", "match", "CREATE", "ALLOW", "DISALLOW", "require", "SUBVERT", "*", "foo", "WITH", "IN", "FROM", "PRODUCTS",
             "materials", "dst", "'a b'", '"x"', ""]
    for _ in range(n):
        obj = rng.choice([Step, Inspection])(name="it")
        obj.add_material_rule_from_string("ALLOW keep")
        obj.add_product_rule_from_string("MATCH * WITH PRODUCTS FROM it")
        text = " ".join(rng.choice(words) for _ in range(rng.randrange(0, 9)))
        which = rng.choice(["material", "product"])
        before = (json.dumps(obj.expected_materials), json.dumps(obj.expected_products))
        try:
            getattr(obj, "add_%s_rule_from_string" % which)(text)
            out = "added"
        except FormatError:
            out = "FormatError"
        except Exception as e:  # pylint: disable=broad-except
            out = type(e).__name__
        after = (json.dumps(obj.expected_materials), json.dumps(obj.expected_products))
        try:
            obj.validate()
            valid = True
        except Exception:  # pylint: disable=broad-except
            valid = False
        res.case({"add_rule_from_string": text, "to": which, "outcome": out}, out != "added", True, sample_cap=1)
        res.count("add_api_" + out)
        if out != "added" and before != after:
            res.fail("oracle", {"op": "add_rule_from_string", "text": text, "list": which},
                     {"why": "a rejected rule string changed the %s rules of the object" % which, "before": before, "after": after})
        if not valid:
            res.fail("oracle", {"op": "add_rule_from_string", "text": text, "list": which},
                     {"why": "after add_%s_rule_from_string (%s) the object no longer validates: it contains a malformed rule" % (which, out),
                      "rules": after})
        # a malformed rule put into the rule list of an object that HAS validated before (appended to the list, or an
        # existing rule edited in place - no attribute is assigned): the object no longer validates, and no layout can
        # be built from it
        if valid:
            from in_toto.models.layout import Layout
            bad = rng.choice([["CREATE"], ["MATCH", "x"], ["SUBVERT", "x"], ["ALLOW", "a", "b"], ["MATCH", "*", "WITH", "NOTHING", "FROM", "s"]])
            lst = getattr(obj, "expected_%ss" % which)
            # (a layout that holds the object and has validated before the change)
            holder = Layout(steps=[obj]) if isinstance(obj, Step) else Layout(inspect=[obj])
            holder.validate()
            how = rng.choice(["append", "edit_in_place"])
            if how == "append" or not lst:
                lst.append(list(bad))
            else:
                lst[0].append("junk")
                bad = list(lst[0])
            outs = {}
            from in_toto.models.metadata import Metablock
            for label, call in (("validate", obj.validate),
                                ("layout", (lambda: Layout(steps=[obj])) if isinstance(obj, Step) else (lambda: Layout(inspect=[obj]))),
                                # the layout that already held it: asked once, asked again, wrapped for signing
                                ("holder_validate", holder.validate), ("holder_validate_again", holder.validate),
                                ("holder_wrapped", lambda: Metablock(signed=holder)), ("validate_again", obj.validate)):
                try:
                    call()
                    outs[label] = "accepted"
                except FormatError:
                    outs[label] = "FormatError"
                except Exception as e:  # pylint: disable=broad-except
                    outs[label] = type(e).__name__
            res.case({"rule_list_changed_in_place": bad, "how": how, "outcomes": outs}, True, "accepted" not in outs.values(), sample_cap=1)
            res.count("in_place_rule_edit")
            if "accepted" in outs.values():
                res.fail("oracle", {"op": "in_place_rule_edit", "rule": bad, "how": how, "list": which},
                         {"why": "an object whose rule list contains a malformed rule validates / a layout can be built from it", "outcomes": outs})
    return res


NONLIST_RULE_LISTS = ["ALLOW *", None, {"ALLOW": "*"}, ("ALLOW", "*"), (["ALLOW", "*"],), 0, True, {("ALLOW", "*")}]


def shard_nonlist_rule_lists():
    """The rule LIST of a step or inspection that is not a list at all (a string, null, an object, a tuple, a number): no
    such object is constructed, validates after the assignment, or comes out of a layout file. Oracle on the
    implementation; every shape x item kind x material/product x way of getting it in."""
    from in_toto.models.layout import Step, Inspection, Layout
    from in_toto.models.metadata import Metablock
    from securesystemslib.exceptions import FormatError
    res = core.Result()
    for shape in NONLIST_RULE_LISTS:
        for cls in (Step, Inspection):
            for which in ("expected_materials", "expected_products"):
                ways = {}
                def attempt(label, fn):
                    try:
                        fn()
                        ways[label] = "accepted"
                    except FormatError:
                        ways[label] = "FormatError"
                    except Exception as e:  # pylint: disable=broad-except
                        ways[label] = type(e).__name__
                attempt("constructor", lambda: cls(name="it", **{which: shape}))
                def assign():
                    o = cls(name="it"); setattr(o, which, shape); o.validate()
                attempt("assigned_then_validate", assign)
                def in_layout():
                    o = cls(name="it"); setattr(o, which, shape)
                    lay = Layout(steps=[o]) if cls is Step else Layout(inspect=[o])
                    Metablock(signed=lay)
                attempt("inside_a_layout", in_layout)
                jsonable = not isinstance(shape, (tuple, set))
                if jsonable:
                    def from_file():
                        item = {"_type": "step" if cls is Step else "inspection", "name": "it", "expected_materials": [], "expected_products": [],
                                **({"pubkeys": [], "expected_command": [], "threshold": 1} if cls is Step else {"run": ["true"]})}
                        item[which] = shape
                        Layout.read({"_type": "layout", "steps": [item] if cls is Step else [], "inspect": [] if cls is Step else [item],
                                     "keys": {}, "expires": "2031-01-01T00:00:00Z", "readme": ""})
                    attempt("from_a_layout_file", from_file)
                ok = "accepted" not in ways.values()
                case = {"op": "nonlist_rule_list", "value": repr(shape), "item": cls.__name__, "list": which}
                res.case(dict(case, outcomes=ways), True, ok, sample_cap=1)
                res.count("nonlist_rule_list")
                if not ok:
                    res.fail("oracle", case, {"why": "a step / inspection whose rule list is not a list was accepted", "outcomes": ways})
    return res


def shard_exhaustive(alpha, length, first_tokens):
    res = core.Result()
    rng = core.rng_for(0, "c17", "ex", length, str(first_tokens))
    rules = []
    for first in first_tokens:
        if length == 0:
            rules.append([])
            break
        for rest in itertools.product(alpha, repeat=length - 1):
            rules.append([first] + list(rest))
            if len(rules) >= 20000:
                check_rules(rules, res, rng, "exhaustive")
                rules = []
    if rules:
        check_rules(rules, res, rng, "exhaustive")
    return res


def shard_structured(seed, idx, n_double, n_random):
    res = core.Result()
    rng = core.rng_for(seed, "c17", "st", idx)
    rules = []
    if idx == 0:
        for s in SHAPES:
            rules.append(list(s))
            for k in range(len(s)):
                for t in ALPHA:
                    r = list(s); r[k] = t; rules.append(r)          # replace
                r = list(s); del r[k]; rules.append(r)              # delete
                for t in ("IN", "x", "WITH", NONSTR):
                    r = list(s); r.insert(k, t); rules.append(r)    # insert
            rules.append(s + ["x"])
        check_rules(rules, res, rng, "mut1")
        # non-list inputs
        d = core.driver()
        for bad, js in ((None, None), ("MATCH foo", "MATCH foo"), (7, 7), ({"a": 1}, {"a": 1})):
            i = impl_unpack(bad)
            m = d.call({"op": "unpack_rule", "rule": js})
            res.case({"rule": js, "impl": i, "model": m}, False, i == m)
            if i != m:
                res.fail("disagree", {"op": "unpack_rule", "rule": js}, {"op": "unpack_rule", "impl": i, "model": m})
    # the documented shapes with operands spelled unusually (not normalised, with blanks, upper case, keywords as
    # operands, two Unicode forms of one name): parsed, written back and parsed again they mean what is written
    rules = []
    for s in SHAPES:
        for _ in range(6 if idx else 12):
            r = list(s)
            for k, t in enumerate(s):
                if t in ("p", "src", "dst", "s"):
                    r[k] = rng.choice(ODD_OPERANDS)
            rules.append(r)
    check_rules(rules, res, rng, "shape")
    rules = []
    for _ in range(n_double):
        s = list(rng.choice(SHAPES))
        for _k in range(2):
            s[rng.randrange(len(s))] = rng.choice(ALPHA)
        if rng.random() < 0.3:
            s = [flip_case(t, rng) if isinstance(t, str) else t for t in s]
        rules.append(s)
    check_rules(rules, res, rng, "mut2")
    rules = []
    for _ in range(n_random):
        n = rng.randrange(0, 12)
        rules.append([rng.choice(ALPHA) for _ in range(n)])
    check_rules(rules, res, rng, "random")
    return res


def run(tier, seed):
    shards = [(shard_add_api, (seed, i, 150 if tier == "quick" else 2500)) for i in range(4)] + [(shard_nonlist_rule_lists, ())]
    if tier == "quick":
        for L in range(0, 4):
            for t in (ALPHA if L else [ALPHA[0]]):
                shards.append((shard_exhaustive, (ALPHA, L, [t])))
        nd, nr, ns = 1500, 2500, 8
    else:
        for L in range(0, 5):
            for t in (ALPHA if L else [ALPHA[0]]):
                shards.append((shard_exhaustive, (ALPHA, L, [t])))
        for L in (5, 6, 7):
            for t in SMALL:
                shards.append((shard_exhaustive, (SMALL, L, [t])))
        nd, nr, ns = 20000, 40000, 16
    for i in range(ns):
        shards.append((shard_structured, (seed, i, nd, nr)))
    res = core.parallel(_dispatch, shards)
    res.exhaustive = False
    res.notes.append("exhaustive part: all token lists of length 0..%d over %d tokens%s" % (
        3 if tier == "quick" else 4, len(ALPHA),
        "" if tier == "quick" else " and length 5..7 over %d tokens" % len(SMALL)))
    from harness.props import c17load
    res.merge(c17load.run(tier, seed))
    return res


def _dispatch(func, args):
    return func(*args)


def replay(case):
    d = core.driver()
    if case.get("op") in ("nonlist_rule_list", "in_place_rule_edit", "add_rule_from_string"):
        if case.get("op") == "nonlist_rule_list":
            res = shard_nonlist_rule_lists()
            return {"case": case, "failures": [f for f in res.failures if f["case"] == case][:1]}
        return {"case": case, "note": "an oracle on the implementation's classes; the case holds the rule and the way it got in"}
    if case.get("op") == "pack_rule":
        return {"impl": impl_pack(case["data"]), "model": d.call({"op": "pack_rule", "data": case["data"]})}
    out = {"impl": impl_unpack(to_py(case["rule"]) if isinstance(case["rule"], list) else case["rule"]),
           "model": d.call({"op": "unpack_rule", "rule": case["rule"]})}
    if "recased" in case:
        out["impl_recased"] = impl_unpack(to_py(case["recased"]))
    out["oracle"] = "class must be ok/FormatError; recased parse must equal parse; round trip stable"
    return out


def search(failure, tier, seed):
    """A correspondence break on a rule: look for an oracle failure among the
    neighbours of the disagreeing rule (every single-token replacement and every
    re-casing) and among all shapes."""
    case = failure["case"]
    rule = case.get("rule")
    if not isinstance(rule, list):
        return None
    res = core.Result()
    rng = core.rng_for(seed, "c17", "search")
    neigh = [list(rule)]
    for k in range(len(rule)):
        for t in ALPHA:
            r = list(rule); r[k] = t; neigh.append(r)
    for _ in range(200):
        neigh.append([flip_case(t, rng) if isinstance(t, str) else t for t in rule])
    check_rules(neigh, res, rng, "search")
    for f in res.failures:
        if f["kind"] == "oracle":
            return f
    return None
