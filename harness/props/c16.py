"""C16 — parameter substitution is late, verbatim, single-pass and leaves inputs intact.

Correspondence: op `format` vs `str.format(**params)` on the modelled subset;
`verify` with parameters on layouts with placeholders at every kind of
position; sequences of 2-4 verifications of ONE loaded metadata object.
Oracle: (i) the executed inspection command and the rule verdicts are those of
the independently rendered layout; (ii) the caller's object is unchanged and
call n on the shared object gives the verdict of a fresh load."""
import copy
import json
import re

from harness import core, scen, vcommon, world as W

RULE = ("layouts with placeholders in rules, expected commands and inspection commands; parameter sets with missing, "
        "extra, empty, brace-containing and glob-containing values and invalid names; both formats; sequences of 2-4 "
        "verifications of one loaded object with equal / different parameters. Non-trivial: at least one placeholder "
        "is replaced; distinct by description.")
ASSUMPTIONS = ["str.format features beyond {name}, {{ and }} (conversions, format specs, attribute / index access, positional "
               "fields) are outside the modelled subset and not generated",
               "known finding D8 (known_findings.json): a traditional-format layout object is altered in place"]

VALUES = ["foo", "", "{OTHER}", "*", "a b", "[x]", "é", "{{", "}", "sub/bar", "exit0"]
NAMES_OK = ["A", "OTHER", "x_1", "a-b", "Z9", "strings", "self"]
# (valid parameter names that are also ordinary Python identifiers: a helper called with **parameters must not have a
#  parameter of its own by that name)
IDENTIFIER_LIKE = ["strings", "self", "format", "args", "kwargs", "layout", "parameters", "name", "value", "key", "cls",
                   "string", "format_spec", "rule", "rules", "item", "step", "s", "text", "template", "mapping"]
# (names that differ from a valid one only by white space at either end: `$` in a regular expression also matches before
#  a final newline, `match` is not `fullmatch`, and a name read from a file may carry its line end)
NAMES_BAD = ["", "a b", "é", "a.b", "a!", "A\n", "OTHER\n", "\nA", "A\r\n", "A ", " A", "A\t", "A\nB", "\n", "x_1\n\n", "\uff21", "A\u0661"]


def py_render(template, params):
    """Independent rendering of the documented placeholder language."""
    out, i, n = [], 0, len(template)
    while i < n:
        c = template[i]
        if c == "{":
            if template[i + 1:i + 2] == "{":
                out.append("{"); i += 2; continue
            j = template.index("}", i)
            out.append(params[template[i + 1:j]]); i = j + 1
        elif c == "}":
            assert template[i + 1:i + 2] == "}"
            out.append("}"); i += 2
        else:
            out.append(c); i += 1
    return "".join(out)


def shard_format(seed, idx, n):
    res = core.Result()
    rng = core.rng_for(seed, "c16", "fmt", idx)
    cases = []
    pieces = ["{A}", "{OTHER}", "{x_1}", "{a-b}", "{{", "}}", "{", "}", "lit", " ", "*", "{}", "{0}", "{MISSING}", "é", "{A}{A}", "{strings}", "{self}"]
    for _ in range(n):
        t = "".join(rng.choice(pieces) for _ in range(rng.randrange(0, 6)))
        params = {k: rng.choice(VALUES) for k in rng.sample(NAMES_OK, rng.randrange(0, 5))}
        if rng.random() < 0.1:
            params[rng.choice(NAMES_BAD)] = "v"
        if rng.random() < 0.05:
            params["A"] = 7
        cases.append((t, params))
    model = core.driver().batch({"op": "format", "template": t,
                                 "params": [[k, v if isinstance(v, str) else None] for k, v in p.items()]}
                                for t, p in cases)
    from in_toto.formats import _check_parameter_dict
    from securesystemslib.exceptions import FormatError
    for (t, p), m in zip(cases, model):
        try:
            _check_parameter_dict(p)
            i = {"ok": t.format(**p)}
        except FormatError:
            i = {"err": "FormatError"}
        except Exception as e:  # pylint: disable=broad-except
            i = {"err": type(e).__name__}
        agreed = i == m
        res.case({"template": t, "params": p, "impl": i, "model": m}, "ok" in i and "{" in t, agreed, sample_cap=2)
        res.count("format_" + ("ok" if "ok" in i else i["err"]))
        if not agreed:
            res.fail("disagree", {"op": "format", "template": t, "params": p}, {"op": "format", "impl": i, "model": m})
        if "ok" in i:
            try:
                exp = py_render(t, p)
            except Exception:  # pylint: disable=broad-except
                exp = None
            if exp is not None and exp != i["ok"]:
                res.fail("oracle", {"op": "format", "template": t, "params": p},
                         {"why": "rendering is not the verbatim single-pass replacement", "impl": i, "expected": exp})
    return res


def gen_case(rng, root):
    ch = scen.gen_chain(rng, root, n_steps=rng.choice([1, 2]), n_insp=1, thresholds=(1,), max_funcs=1,
                        fmt_mode="mixed")
    last = ch.steps[-1]
    some_product = sorted(last["products"])[0]
    where = rng.sample(["insp_run", "insp_rule", "step_rule", "expected_command"], rng.randrange(1, 4))
    ident_value = rng.choice(["ok1", "{OTHER}", "{{", "a*b", "ü"])
    params = {"OTHER": "expanded-twice"}
    used = {}
    ins = ch.inspections[0]
    if "insp_run" in where:
        cmd = W.insp_command(root, "{IDENT}", "exit0")
        ins["run"] = cmd
        params["IDENT"] = ident_value
        used["IDENT"] = ident_value
    if "insp_rule" in where:
        ins["rules_m"] = [["REQUIRE", "{REQ}"], ["ALLOW", "*"]]
        params["REQ"] = rng.choice([some_product, some_product, "not-a-file", "*"])
        used["REQ"] = params["REQ"]
    if "step_rule" in where:
        last["rules"] = ([["ALLOW", "{PAT}"]] + ([["DISALLOW", "*"]] if rng.random() < 0.5 else []),
                         [["{KW}", "*"]])
        params["PAT"] = rng.choice(["*", "*", "nomatch", "[!z]*"])
        params["KW"] = rng.choice(["ALLOW", "allow", "ALLOW", "BOGUS"])
        used["PAT"], used["KW"] = params["PAT"], params["KW"]
    if "expected_command" in where:
        # (sometimes beside a positional field, as in `find -exec ... {} ;`: such a field has no value - the string does not
        #  render, verification fails; it is not left as it is, with the named placeholder unreplaced)
        last["expected_command"] = ["do", rng.choice(["{ARG}", "{ARG}", "{ARG}", "{}{ARG}", "{0}/{ARG}", "{ARG} {}"])]
        params["ARG"] = rng.choice(VALUES)
        used["ARG"] = params["ARG"]
    mode = rng.choice(["ok", "ok", "ok", "missing", "extra", "bad_name", "nonstr", "none"])
    if mode == "missing" and used:
        del params[rng.choice(sorted(used))]
    elif mode == "extra":
        params[rng.choice(["UNUSED"] + IDENTIFIER_LIKE)] = "x"
    elif mode == "bad_name":
        params[rng.choice(NAMES_BAD)] = "v"
    elif mode == "nonstr":
        params[rng.choice(sorted(params))] = 5
    elif mode == "none":
        params = None
    desc = {"where": sorted(where), "param_mode": mode, "layout_fmt": ch.layout_fmt, "params": params,
            "ident_value": ident_value if "insp_run" in where else None}
    return ch, desc, params


def fix_insp_table(scn, params):
    """The model's inspection oracle is keyed by the command actually executed."""
    new = []
    for cmd, out in scn.insp:
        try:
            cmd2 = [py_render(a, params or {}) for a in cmd] if params is not None else cmd
        except Exception:  # pylint: disable=broad-except
            cmd2 = cmd
        new.append([cmd2, out])
    scn.insp = new


def one_case(rng, res):
    root = scen.new_root()
    try:
        ch, desc, params = gen_case(rng, root)
        scn = scen.build(ch, root, rng)
        scn.params = params
        fix_insp_table(scn, params)
        i, m, _ = vcommon.run_case(scn, desc, res, desc["param_mode"] in ("ok", "extra"))
        res.count("mode_" + desc["param_mode"]); res.count("fmt_" + desc["layout_fmt"])
        if i.get("load") != "ok":
            return
        acc = vcommon.accepted(i)
        # (i) verbatim, single pass: the command that ran carries the value unchanged
        if desc["ident_value"] is not None and i.get("log") and isinstance((params or {}).get("IDENT"), str):
            if i["log"] != [desc["ident_value"]] and desc["ident_value"].split() == [desc["ident_value"]]:
                vcommon.oracle_fail(res, scn, desc, "the inspection command did not receive the supplied value verbatim "
                                    "(got %r)" % (i["log"],), i)
        if acc and desc["param_mode"] in ("missing", "bad_name", "nonstr"):
            vcommon.oracle_fail(res, scn, desc, "accepted although a placeholder has no value / the parameter set is malformed", i)
        # (ii) caller's object unchanged
        changed = i["payload_before"] != i["payload_after"]
        if changed:
            judge_mutation(res, scn, desc, i, "the caller's metadata object differs after in_toto_verify returned")
    finally:
        scen.drop_root(root)


import pathlib as _pl
# (also dictionaries whose values / names are objects that merely *render* as text: a path object, bytes, a number)
MALFORMED_SETS = [[], {"A": _pl.PurePosixPath("x.txt")}, (), "", {"A": b"x"}, [("A", "x")], (("A", "x"),), {_pl.PurePosixPath("A"): "x"},
                  [["A", "x"]], "A=x", 5, {"A": 1.5}, {"A"}, ["A"], [{"A": "x"}], {"A": _pl.Path("x")}, {"A": ["x"]}, {"A": None}]


def malformed_set_case(rng, res, case_no=None):
    """A parameter set that is not a dictionary of names and strings at all (an empty list, a list of pairs, a string, a
    set, ...): malformed - verification fails, whatever `dict()` would make of the value."""
    root = scen.new_root()
    try:
        n_ = case_no if case_no is not None else rng.randrange(1 << 20)
        if n_ % 2 == 0:
            # a layout without any placeholder: nothing needs a value, the set alone is what is wrong
            ch = scen.gen_chain(rng, root, n_steps=rng.choice([1, 2]), n_insp=rng.choice([0, 1]), thresholds=(1,), max_funcs=1)
            desc = {"where": [], "layout_fmt": ch.layout_fmt}
            scn = scen.build(ch, root, rng)
            odd = MALFORMED_SETS[(n_ // 2) % len(MALFORMED_SETS)]
        else:
            # placeholders, and every value they need - handed over as pairs instead of a dictionary
            ch, desc, params = gen_case(rng, root)
            scn = scen.build(ch, root, rng)
            fix_insp_table(scn, params)
            pairs = list((params or {}).items())
            odd = [pairs, tuple(pairs), [list(p_) for p_ in pairs], tuple(tuple(p_) for p_ in pairs)][(n_ // 2) % 4]
        scn.params = [odd]             # (one verification with this value as the parameter set)
        try:
            i = scn.run_impl(root=root)
        except Exception as e:  # pylint: disable=broad-except
            i = {"load": "ok", "result": {"err": W.exc_class(e)}}
        case = {"op": "malformed_parameter_set", "parameters": repr(odd), "where": desc["where"], "layout_fmt": desc["layout_fmt"]}
        acc = vcommon.accepted(i) if isinstance(i, dict) and "result" in i else False
        res.case(dict(case, impl=vcommon.short(i) if isinstance(i, dict) and "result" in i else str(i)[:80]), True, not acc, sample_cap=1)
        res.count("malformed_parameter_set")
        if acc:
            res.fail("oracle", case, {"why": "verification succeeded with a parameter set that is not a dictionary of names and strings"})
    finally:
        scen.drop_root(root)


def judge_mutation(res, scn, desc, i, why):
    f = {"format": "metablock" if "signed" in scn.layout else "dsse",
         "gate_passed": i["result"].get("err") not in ("SignatureVerificationError", "LayoutExpiredError"),
         "rendering_changed_some_string": i["payload_before"] != i["payload_after"]}
    res.fail("oracle", dict(vcommon.replayable(scn, desc), shape=f), {"why": why, "impl": vcommon.short(i), "shape": f})


def one_sequence(rng, res):
    """2-4 verifications of one loaded object."""
    root = scen.new_root()
    try:
        ch, desc, params = gen_case(rng, root)
        if params is None:
            params = {}
        n = rng.randrange(2, 5)
        seq = [params]
        for _ in range(n - 1):
            p2 = dict(params)
            if rng.random() < 0.5 and "IDENT" in p2:
                p2["IDENT"] = "second"
            if rng.random() < 0.3 and "REQ" in p2:
                p2["REQ"] = "not-a-file"
            seq.append(p2)
        scn = scen.build(ch, root, rng)
        # all commands any call may run
        table = []
        for p in seq:
            scn.params = p
            for cmd, out in scn.insp:
                try:
                    table.append([[py_render(a, p) for a in cmd], out])
                except Exception:  # pylint: disable=broad-except
                    pass
        desc = dict(desc, sequence=seq)
        # shared object
        scn.params = seq
        shared = scn.run_impl(root=root)
        if isinstance(shared, dict):
            return
        fresh = []
        for p in seq:
            scn.params = p
            fresh.append(scn.run_impl(root=root))
        # model: call k runs on the object call k-1 left behind
        scn.insp = table
        model = []
        content = copy.deepcopy(scn.layout)
        for p in seq:
            scn.params = p
            req = scn.model_request()
            req["layout"] = W.file_for_model(content)
            m = W.norm_model_verify(core.driver().call(req))
            model.append(m)
            if "signed" in content and m.get("payload_after"):
                content = {"signatures": content["signatures"], "signed": json.loads(m["payload_after"], strict=False)}
        agreed = all(scen.same_outcome(a, b) for a, b in zip(shared, model))
        scn.params = seq
        res.case({"desc": desc, "shared": [vcommon.short(x) for x in shared], "fresh": [vcommon.short(x) for x in fresh],
                  "model": [vcommon.short(x) for x in model]}, True, agreed)
        res.count("sequence_len_%d" % len(seq))
        if not agreed:
            res.fail("disagree", dict(vcommon.replayable(scn, desc), sequence=True),
                     {"op": "verify-sequence", "impl": [vcommon.short(x) for x in shared], "model": [vcommon.short(x) for x in model]})
        for k, (a, b) in enumerate(zip(shared, fresh)):
            if vcommon.short(a) != vcommon.short(b) or a["payload_after"] != a["payload_before"]:
                altering = next((x for x in shared[:k + 1] if x["payload_before"] != x["payload_after"]), None)
                f = {"format": "metablock" if "signed" in scn.layout else "dsse",
                     "gate_passed": altering is not None and altering["result"].get("err") not in (
                         "SignatureVerificationError", "LayoutExpiredError"),
                     "rendering_changed_some_string": altering is not None}
                res.fail("oracle", dict(vcommon.replayable(scn, desc), sequence=True, shape=f),
                         {"why": "call %d on the shared object differs from the same call on a fresh load, or the "
                                 "object was altered" % (k + 1), "shared": vcommon.short(a), "fresh": vcommon.short(b), "shape": f})
                break
    finally:
        scen.drop_root(root)


def matches_known(failure, k):
    shape = failure["case"].get("shape") or failure["detail"].get("shape")
    return bool(shape) and all(shape.get(a) == b for a, b in k["match"].items())


def shard(seed, idx, n, tier):
    res = core.Result()
    rng = core.rng_for(seed, "c16", idx)
    for j in range(n):
        if j % 3 == 2:
            one_sequence(rng, res)
        else:
            one_case(rng, res)
    for j_ in range(3):
        malformed_set_case(rng, res, case_no=idx * 3 + j_)
    return res


def run(tier, seed):
    per = 25 if tier == "quick" else 375
    shards = [(shard, (seed, i, per, tier)) for i in range(16)]
    shards += [(shard_format, (seed, i, 150 if tier == "quick" else 3000)) for i in range(16)]
    return core.parallel(core.call, shards)


def replay(case):
    if case.get("op") == "format":
        m = core.driver().call({"op": "format", "template": case["template"],
                                "params": [[k, v if isinstance(v, str) else None] for k, v in case["params"].items()]})
        try:
            i = {"ok": case["template"].format(**case["params"])}
        except Exception as e:  # pylint: disable=broad-except
            i = {"err": type(e).__name__}
        return {"impl": i, "model": m}
    if case.get("sequence"):
        scn = vcommon.rebuild(case)
        import os
        os.makedirs(scn.root, exist_ok=True)
        try:
            scn.params = case["desc"]["sequence"]
            shared = scn.run_impl(root=scn.root)
            fresh = []
            for p in case["desc"]["sequence"]:
                scn.params = p
                fresh.append(scn.run_impl(root=scn.root))
        finally:
            scen.drop_root(scn.root)
        return {"shared_object": [dict(vcommon.short(x), altered=x["payload_before"] != x["payload_after"]) for x in shared],
                "fresh_loads": [vcommon.short(x) for x in fresh]}
    return vcommon.replay(case)


search = vcommon.generic_search(shard)
