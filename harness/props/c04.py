"""C04 — end-to-end tamper evidence across chained steps and the final product;
C11 — running a step records before/after state faithfully, honest chains verify.

Real round trips: random initial tree, 1-4 scripted step commands recorded with
the real in_toto_run / in_toto_record_start+stop, a closed chain layout derived
from the honest run, at most one tamper event at a step boundary, on the final
product or on a link file; then the real in_toto_verify and the Lean model on
the files in-toto wrote."""
import json
import os
import shutil
import tempfile

from harness import chainrun, core, scen, vcommon, world as W

RULE = ("histories of 1-4 steps (create / modify / delete / rename through a scripted command; run, run without a command or "
        "record start+stop; rsa / ecdsa / ed25519 / gpg keys, both formats, stream recording, compact JSON, environment; per "
        "history: exclude patterns, one or two prefixes to strip (including a second prefix that matches what is left after "
        "the first), base path) with at most one tamper event: file edit / add "
        "/ delete / rename / content-preserving rewrite / excluded file at a step boundary or on the final product, link edit / "
        "swap (re-signed by an unauthorised key) / removal / forgery (final product edited and a matching link by an unknown key "
        "dropped under the name of an authorised functionary who did not take part). Non-trivial: every history; distinct by description.")
ASSUMPTIONS = ["the layout closes every rule list: REQUIRE for every product of the previous step, MATCH * WITH PRODUCTS, DISALLOW *",
               "the harness's own walker and pathspec decide what is covered and under which name; the final inspection records "
               "with the default patterns and no stripping, so its rules use MATCH ... IN <prefix> and ALLOW for files the "
               "history's patterns exclude"]
HARMLESS = {None, "rewrite", "excluded"}


def one_case(rng, res, check_c11=True, tamper="draw", case_no=None):
    root = tempfile.mkdtemp(prefix="verif-c04-")
    try:
        n = rng.randrange(1, 5)
        if tamper == "draw":
            tamper = rng.choice(chainrun.TAMPERS)
        at = rng.randrange(1, n + 1)       # between step at-1 and step at; at = n: the final product
        # material / product lists naming the top-level entries one by one (with a look-alike pair among them): in honest
        # histories, and with tampers between two steps (the final inspection records the whole tree and, with such lists,
        # has to allow what the steps did not record: a change of the final product alone would not be evident)
        harmless_only = set(chainrun.TAMPERS) <= {None, "rewrite", "excluded"}
        opts = chainrun.gen_opts(rng, allow_paths=harmless_only or tamper in HARMLESS or tamper in ("link_edit", "link_swap", "link_remove") or
                                 (tamper in ("edit", "add", "delete", "rename") and at < n), case_no=case_no)
        if tamper in ("link_edit", "link_swap") and case_no is not None and case_no % 4 == 0:
            opts["force_gpg"] = True       # (the step whose link is tampered with is carried out with a gpg key, in every run)
        try:
            h = chainrun.Honest(rng, root).carry_out(n, tamper, at, opts)
        except (OSError, ValueError, KeyError, AttributeError, TypeError) as e:
            if type(e).__module__.startswith("subprocess"):
                raise
            # the tools failed on an honest call (the history up to here was carried out with them)
            res.evaluations += 1
            res.fail("oracle", {"op": "honest_run", "desc": {"steps": n, "tamper": tamper, "at": at, "options": {
                "exclude": opts["exclude"][0] if opts["exclude"] else None, "lstrip": opts["lstrip"], "base_path": opts["base"], "paths": opts.get("paths")}}},
                     {"why": "running / recording a step of an honest history failed: %s: %s" % (type(e).__name__, str(e)[:160])})
            return
        desc = {"steps": n, "tamper": tamper if h.tamper_applied else None, "at": at,
                "options": {"exclude": opts["exclude"][0] if opts["exclude"] else None, "lstrip": opts["lstrip"], "base_path": opts["base"],
                            "paths": opts.get("paths")},
                "modes": [s["mode"] for s in h.steps], "fmts": ["dsse" if s["dsse"] else "metablock" for s in h.steps],
                "keys": [s["key"].kind for s in h.steps]}
        if check_c11:
            judge_links(h, res, desc)
        try:
            scn = h.scenario()
        except ValueError as e:
            # a file in-toto wrote for a step does not parse: the honest chain cannot be verified at all
            res.evaluations += 1
            res.fail("oracle", {"op": "honest_chain", "desc": desc},
                     {"why": "a link file written by in-toto's own tooling cannot be read back (%s: %s)" % (type(e).__name__, str(e)[:120])})
            return
        i = h.verify_impl(scn)
        if desc["tamper"] == "unreadable":
            # judged on the implementation alone (the model has no files that cannot be read): a final product with an
            # added file, readable or not, is not what the last step recorded
            res.case({"desc": desc, "impl": vcommon.short(i)}, True, True)
            res.count("tamper_unreadable")
            if vcommon.accepted(i):
                res.fail("oracle", {"op": "chain_verify", "desc": desc},
                         {"why": "verification succeeded although a file that cannot be read was added to the final product"})
            return
        m = W.norm_model_verify(scn.run_model())
        m["log"] = []
        honest = m.pop("honest", None)
        applies = honest is not None
        res.count("honest_theorem_applies_%s" % applies)
        if desc["tamper"] in HARMLESS:
            # an honest history: the hypotheses of the theorem `honest_chain_verifies` must hold on the files in-toto wrote
            # (the theorem is not vacuous on real data) and its prediction must be what the implementation returns
            res.evaluations += 1
            if not applies:
                res.fail("disagree", {"op": "honest_check", "desc": desc},
                         {"op": "honest_check", "why": "the hypotheses of honest_chain_verifies do not hold on an honest history"})
            elif honest["result"] != i.get("result"):
                res.fail("disagree", {"op": "honest_check", "desc": desc},
                         {"op": "honest_check", "why": "prediction of honest_chain_verifies differs from the implementation",
                          "impl": vcommon.short(i), "predicted": honest["result"]})
        i2 = dict(i, payload_after=None); m2 = dict(m, payload_after=None)
        agreed = scen.same_outcome(i2, m2)
        res.case({"desc": desc, "impl": vcommon.short(i), "model": vcommon.short(m)}, True, agreed)
        res.count("tamper_%s" % desc["tamper"])
        acc = vcommon.accepted(i)
        res.count("impl_" + ("accept" if acc else i["result"]["err"]))
        if not agreed:
            res.fail("disagree", {"op": "chain_verify", "desc": desc}, {"op": "verify", "impl": vcommon.short(i), "model": vcommon.short(m)})
        expected = desc["tamper"] in HARMLESS
        if acc and not expected:
            res.fail("oracle", {"op": "chain_verify", "desc": desc},
                     {"why": "verification succeeded although a covered file or a link was tampered with (%s at boundary %d)" % (tamper, at)})
        if (not acc) and expected:
            res.fail("oracle", {"op": "chain_verify", "desc": desc},
                     {"why": "an honest supply chain (at most a content-preserving or excluded change) was rejected",
                      "impl": vcommon.short(i)})
    finally:
        shutil.rmtree(root, ignore_errors=True)


def tree_of(snap):
    """Tree description (harness/tree.py form) of a snapshot {relative path: bytes}."""
    top = {}
    for path, data in snap.items():
        cur = top
        comps = path.split("/")
        for c in comps[:-1]:
            cur = cur.setdefault(c, ("d", {}))[1]
        cur[comps[-1]] = ("f", data)
    return top


def expected_streams(cmd):
    """What the scripted command writes to stdout / stderr, as a text-mode reader sees it (CR LF and CR read as LF)."""
    out, err = "", ""
    for o in cmd:
        if o.startswith("echo:"):
            out += o[5:] + "\n"; err += "err:" + o[5:] + "\n"
        elif o.startswith("progress:"):
            out += "%s  50%%\n%s 100%%\n" % (o[9:], o[9:]); err += "%s...\n" % o[9:]
        elif o.startswith("accent:"):
            out += "caf\u00e9 %s\n" % o[7:]; err += "w\u00e4rme %s\n" % o[7:]
    return out, err


def model_run(h, st):
    """The Lean `inTotoRun` on the two snapshots with the history's recording options."""
    import in_toto.settings as ist
    from harness import tree as T
    opts = h.opts
    before, after = tree_of(st["before"]), tree_of(st["after"])
    patterns = list(opts["exclude"][0]) if opts["exclude"] else list(ist.ARTIFACT_EXCLUDE_PATTERNS)
    starts = list(opts["paths"] or ["."])
    cands = sorted(set(T.candidate_paths(before, starts)) | set(T.candidate_paths(after, starts)))
    out, err = expected_streams(st["cmd"])
    req = {"op": "in_toto_run", "before": T.model_node(before, before), "after": T.model_node(after, after), "name": st["name"],
           "material_list": list(opts["paths"] or ["."]), "product_list": list(opts["paths"] or ["."]), "command": list(st["cmd"]),
           "run": {"return-value": 0, "stdout": out, "stderr": err} if st["cmd"] else None,
           "record_streams": bool(st["streams"]), "signer": st.get("sig_keyid") or st["key"].keyid, "metadata_directory": h.links,
           "excl": T.exclusion_table(patterns, cands), "follow": True, "normalize": False, "lstrip": list(opts["lstrip"] or [])}
    return core.driver().call(req)


def compare_with_model(h, st, pl, res, desc):
    m = model_run(h, st)
    if "ok" not in m:
        res.fail("disagree", {"op": "in_toto_run", "desc": desc, "step": st["name"]}, {"op": "in_toto_run", "impl": "link written", "model": m})
        return
    ml = m["ok"]["link"]
    impl = {"materials": sorted([k, v["sha256"]] for k, v in pl.materials.items()),
            "products": sorted([k, v["sha256"]] for k, v in pl.products.items()),
            "command": list(pl.command), "byproducts": pl.byproducts or None, "name": pl.name}
    model = {"materials": sorted([k, v["digest"]] for k, v in ml["materials"]),
             "products": sorted([k, v["digest"]] for k, v in ml["products"]),
             "command": ml["command"], "byproducts": ml["byproducts"], "name": ml["name"]}
    written = (m["ok"]["written"] or {}).get("path")
    agreed = impl == model and written == st["file"]
    res.case({"in_toto_run": {"step": st["name"], "options": desc.get("options"), "n_materials": len(impl["materials"]),
                              "n_products": len(impl["products"])}}, impl["materials"] != impl["products"], agreed, sample_cap=1)
    if not agreed:
        res.fail("disagree", {"op": "in_toto_run", "desc": desc, "step": st["name"]},
                 {"op": "in_toto_run", "impl": impl, "model": model, "impl_file": st["file"], "model_file": written})


def judge_links(h, res, desc):
    """C11: materials = state before, products = state after, command, status, streams,
    signature, file on disk identical to the returned metadata."""
    import attr
    from in_toto.models.metadata import Metadata
    for st in h.steps:
        if not os.path.exists(st["file"]):
            continue
        if h.tamper in ("link_edit", "link_swap") :
            continue
        try:
            md = Metadata.load(st["file"])
            pl = md.get_payload()
        except Exception as e:  # pylint: disable=broad-except
            res.evaluations += 1
            res.count("links_checked")
            res.fail("oracle", {"op": "link_spec", "desc": desc, "step": st["name"], "mode": st["mode"]},
                     {"why": "the file written under the step name and key-id prefix cannot be loaded (%s: %s): it is not "
                             "identical to the returned metadata" % (type(e).__name__, str(e)[:120])})
            continue
        if st["mode"] in ("run", "run_no_command"):
            compare_with_model(h, st, pl, res, desc)
        why = None
        if pl.materials != chainrun.covered(st["before"], h.opts):
            why = "materials are not the state of the paths immediately before the command (names / exclusion per the options)"
        elif pl.products != chainrun.covered(st["after"], h.opts):
            why = "products are not the state of the paths after the command (names / exclusion per the options)"
        elif pl.name != st["name"]:
            why = "link does not carry the step name"
        elif st["mode"] == "run_no_command":
            if pl.command != [] or pl.byproducts != {}:
                why = "a run without a command recorded a command or byproducts"
            elif pl.materials != pl.products:
                why = "a run without a command recorded different materials and products"
        elif st["mode"] == "run":
            if pl.command != st["cmd"]:
                why = "command line not recorded"
            elif pl.byproducts.get("return-value") != 0:
                why = "exit status not recorded (return-value %r; stderr %r)" % (pl.byproducts.get("return-value"), str(pl.byproducts.get("stderr"))[-300:])
            elif st["streams"] and (pl.byproducts.get("stdout"), pl.byproducts.get("stderr")) != expected_streams(st["cmd"]):
                why = "the recorded output is not what the command wrote (stdout %r, stderr %r; expected %r)" % (
                    pl.byproducts.get("stdout"), pl.byproducts.get("stderr"), expected_streams(st["cmd"]))
            elif not st["streams"] and (pl.byproducts.get("stdout") or pl.byproducts.get("stderr")):
                why = "streams recorded although not requested"
            elif st["returned"] is not None and W.canon(attr.asdict(st["returned"].get_payload())) != W.canon(attr.asdict(pl)):
                why = "file on disk differs from the returned metadata"
        if why is None:
            try:
                md.verify_signature(st["key"].pub)
            except Exception:  # pylint: disable=broad-except
                why = "link is not signed with the given key"
        res.evaluations += 1
        res.count("links_checked")
        if why:
            res.fail("oracle", {"op": "link_spec", "desc": desc, "step": st["name"], "mode": st["mode"]}, {"why": why})


def shard(seed, idx, n, tier):
    res = core.Result()
    rng = core.rng_for(seed, "c04", idx)
    # every kind of change occurs in every run (cycled through, not drawn), the rest of each history is random
    kinds = list(dict.fromkeys(chainrun.TAMPERS))
    for j in range(n):
        c_ = idx * n + j
        one_case(rng, res, tamper=kinds[(c_ // 2) % len(kinds)] if c_ % 2 == 0 else "draw", case_no=c_)
    return res


def shard_cli_equiv(seed, idx, n):
    """The command line against the library call it stands for (harness/cliequiv.py): recording through in-toto-run /
    in-toto-record with the options that matter here (exclude patterns incl. negations and directory-only ones, prefix
    stripping, base path, dir: artifacts, time limit, verbosity)."""
    from harness import cliequiv
    res = core.Result()
    rng = core.rng_for(seed, "c04", "cli_equiv", idx)
    for _ in range(n):
        for tool in ['run']:
            cliequiv.equiv_case(rng, res, tool)
    from harness import clicall
    for _ in range(2 * n):
        for t in ("run",):
            clicall.one_case(rng, res, t)
    return res


def run(tier, seed):
    per = 5 if tier == "quick" else 75
    shards = [(shard, (seed, i, per, tier)) for i in range(16)]
    shards += [(shard_cli_equiv, (seed, i, 3 if tier == "quick" else 40)) for i in range(4)]
    return core.parallel(core.call, shards)


def replay(case):
    return {"note": "histories are regenerated from the seed", "case": case}


def search(failure, tier, seed):
    res = core.parallel(core.call, [(shard, (seed + 1000 + i, i, 8, tier)) for i in range(16)])
    for f in res.failures:
        if f["kind"] == "oracle":
            return f
    return None
