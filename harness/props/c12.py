"""C12 — two-phase recording keeps start-time materials and is crash safe.

(i) the audit-hook trace of the real stop phase equals the model's operation
list; (ii) the process is killed (os._exit in a forked child) at every traced
operation and at several byte offsets inside the write of the final link; the
surviving directory is compared with the model's crash state, judged by the
oracle (preliminary intact or final complete), and a retry is run; (iii)
preliminary files missing / edited / re-signed by another key / duplicated."""
import contextlib
import io
import json
import logging
import os
import shutil
import sys
import tempfile

from harness import core, inject, world as W

RULE = ("start/stop histories over small trees (0-3 product files) x key types x both formats x key-argument forms; the stop "
        "phase killed after every audited operation and at 1/4, 1/2, 3/4 and all-but-one byte of the final write, and failed (ENOSPC-like "
        "OSError from write() after a partial write, error on close()) at the same place, and run under a real file-size limit "
        "(RLIMIT_FSIZE) that lets only a prefix of the final link reach the disk whichever way the code writes; preliminary "
        "record missing / edited / re-signed by another key / left by another key; interleaved start / stop / run of two step "
        "names and keys in one directory (all starts before the stops, and random interleavings of 4-10 calls incl. stop "
        "before start, repeated start / stop, run over a finished recording, the recorded file changing between calls). Non-trivial: every crash run and every tampered-preliminary run; distinct by "
        "(history, crash point).")
ASSUMPTIONS = ["'the process dies' is os._exit at an audited operation or inside write(); durability of a completed write "
               "across power loss (no fsync) is outside the property",
               "gpg key-argument forms (glob for the preliminary file) are covered by the --gpg family only when gpg is available"]


def setup(root, nprod):
    os.makedirs(root, exist_ok=True)
    with open(os.path.join(root, "m0"), "w") as f:
        f.write("material\n")
    return ["p%d" % i for i in range(nprod)]


def quiet():
    logging.getLogger("in_toto").setLevel(logging.CRITICAL)
    return contextlib.redirect_stdout(io.StringIO())


KEY_FORM = ["signer"]     # key-argument form of the current history: signer / signing_key (deprecated dictionary) / both
_LEGACY = {}


def legacy_key(k):
    """The deprecated key dictionary (with private part) for an rsa key of the pool."""
    if k.keyid not in _LEGACY:
        from securesystemslib import interface
        idx = W.pool().index(k)
        path = os.path.join(W.HERE, "keydata", sorted(os.listdir(os.path.join(W.HERE, "keydata")))[idx])
        _LEGACY[k.keyid] = interface.import_privatekey_from_file(path, key_type="rsa")
    return _LEGACY[k.keyid]


def key_kw(k):
    """The key argument form for a functionary: a Signer object; for gpg keys the key id and gpg home; the deprecated key
    dictionary; or a Signer together with ANOTHER key's dictionary (the documented order of precedence: the Signer is used)."""
    if k.kind == "gpg":
        return {"gpg_keyid": k.gpg_id, "gpg_home": k.gpg_home}
    if KEY_FORM[0] == "both":
        other = [x for x in W.pool() if x.kind == "rsa" and x is not k][0]
        return {"signer": k.signer, "signing_key": legacy_key(other)}
    return {"signer": k.signer}


def start(root, k, dsse):
    import in_toto.runlib as rl
    with quiet():
        rl.in_toto_record_start("st", ["m0"], use_dsse=dsse and k.kind != "gpg", **key_kw(k))


def make_products(prods):
    for p in prods:
        with open(p, "w") as f:
            f.write("product %s\n" % p)


STOP_KW = {}     # library-only arguments of in_toto_record_stop used by the current history (command / byproducts / environment)


def stop(k, prods):
    import in_toto.runlib as rl
    with quiet():
        rl.in_toto_record_stop("st", list(prods), **key_kw(k), **STOP_KW)


def sha_of(text):
    import hashlib
    return hashlib.sha256(text.encode()).hexdigest()


def extras_for_model(kw):
    """command / byproducts / environment in the driver's transport form (the environment as an opaque rendering)."""
    out = {"command": list(kw.get("command") or [])}
    out["byproducts"] = kw.get("byproducts") or None
    out["environment"] = W.canon(kw["environment"]) if kw.get("environment") else None
    return out


def model_stop(prelim, key, prods, kw, prelims=None):
    """The Lean `recordStop` on the abstract preliminary record (or, for the gpg key-argument forms, `recordStopGlob` on
    all preliminary records of the step): final link fields or the error class."""
    req = {"op": "record_stop", "key": key, "prelim": prelim, "given": extras_for_model(kw),
           "products": [[p, sha_of("product %s\n" % p)] for p in prods]}
    if prelims is not None:
        req["prelims"] = prelims
    return core.driver().call(req)


def link_fields(path):
    """The same fields read from the link file in-toto wrote."""
    from in_toto.models.metadata import Metadata
    pl = Metadata.load(path).get_payload()
    return {"materials": sorted([k, v["sha256"]] for k, v in pl.materials.items()),
            "products": sorted([k, v["sha256"]] for k, v in pl.products.items()),
            "extras": extras_for_model({"command": pl.command, "byproducts": pl.byproducts, "environment": pl.environment})}


def model_fields(m):
    return {"materials": sorted([k, v["digest"]] for k, v in m["materials"]),
            "products": sorted([k, v["digest"]] for k, v in m["products"]), "extras": m["extras"]}


def dir_state(root, k, prods):
    """Ground truth about the two files: (prelim, final) each in absent / complete / partial,
    'complete' meaning loadable, correctly signed, and with the right content."""
    from in_toto.models.metadata import Metadata
    import hashlib

    def check(path, final):
        if not os.path.exists(path):
            return "absent"
        try:
            md = Metadata.load(path)
            md.verify_signature(k.pub)
            pl = md.get_payload()
            mats = {"m0": {"sha256": hashlib.sha256(b"material\n").hexdigest()}}
            if pl.materials != mats:
                return "wrong-content"
            if final:
                exp = {p: {"sha256": hashlib.sha256(("product %s\n" % p).encode()).hexdigest()} for p in prods}
                if pl.products != exp:
                    return "wrong-content"
                for key, val in STOP_KW.items():
                    if getattr(pl, key) != val:
                        return "wrong-content"
            return "complete"
        except Exception:  # pylint: disable=broad-except
            return "partial"
    kid = k.keyid[:8]
    return check(os.path.join(root, ".st.%s.link-unfinished" % kid), False), check(os.path.join(root, "st.%s.link" % kid), True)


def child(fn):
    """Run fn in a forked child; returns the exit status (77 = killed by the injector)."""
    pid = os.fork()
    if pid == 0:
        try:
            fn()
            os._exit(0)  # pylint: disable=protected-access
        except BaseException:  # pylint: disable=broad-except
            os._exit(1)  # pylint: disable=protected-access
    _, status = os.waitpid(pid, 0)
    return os.waitstatus_to_exitcode(status)


def trace_kinds(trace, root, kid):
    out = []
    for kind, path in trace:
        base = os.path.basename(path)
        if base == ".st.%s.link-unfinished" % kid:
            out.append("readPrelim" if kind.startswith("open") else "removePrelim")
        elif base == "st.%s.link" % kid:
            out.append("createFinal")
        elif kind.startswith("open"):
            out.append("readProduct")
        elif kind in ("os.scandir", "glob.glob", "os.listdir"):
            continue
        else:
            out.append(kind)
    return out


def one_history(rng, res):
    k = rng.choice(W.pool())
    dsse = rng.random() < 0.5
    nprod = rng.randrange(0, 4)
    root = tempfile.mkdtemp(prefix="verif-c12-")
    cwd = os.getcwd()
    STOP_KW.clear()
    if rng.random() < 0.4:
        full = {"command": ["make", "all"], "byproducts": {"stdout": "ok\n", "stderr": "", "return-value": 0},
                "environment": {"workdir": "/w", "variables": ["CI=1"]}}
        for key in rng.sample(sorted(full), rng.randrange(1, 4)):
            STOP_KW[key] = full[key]
    KEY_FORM[0] = rng.choice(["signer", "signer", "both"])
    desc = {"key": k.kind, "dsse": dsse, "products": nprod, "stop_arguments": sorted(STOP_KW), "key_arguments": KEY_FORM[0]}
    try:
        os.chdir(root)
        prods = setup(root, nprod)
        start(root, k, dsse)
        make_products(prods)
        prelim_bytes = open(".st.%s.link-unfinished" % k.keyid[:8], "rb").read()
        # (i) trace of an uninterrupted stop
        with inject.watching([root]) as st:
            stop(k, prods)
        trace = list(st.trace)
        kinds = trace_kinds(trace, root, k.keyid[:8])
        final_len = os.path.getsize("st.%s.link" % k.keyid[:8])
        # content of the final link: the Lean recordStop on (materials at start, key, products at stop, arguments)
        ms = model_stop({"materials": [["m0", sha_of("material\n")]], "signer": k.keyid, "intact": True}, k.keyid, prods, STOP_KW)
        impl_link = link_fields("st.%s.link" % k.keyid[:8])
        ok_link = "ok" in ms and model_fields(ms["ok"]) == impl_link and ms["ok"]["signer"] == k.keyid
        res.case({"desc": desc, "final_link": impl_link["extras"]}, bool(STOP_KW), ok_link, sample_cap=1)
        if not ok_link:
            res.fail("disagree", {"op": "record_stop", "desc": desc}, {"op": "record_stop", "impl": impl_link, "model": ms})
        m = core.driver().call({"op": "stop_crash", "n": nprod})
        model_ops = [o for o in m["ops"] if o != "writeFinal"]      # the write is not an audited event of its own
        agreed = kinds == model_ops
        res.case({"desc": desc, "trace": kinds}, True, agreed)
        if not agreed:
            res.fail("disagree", {"op": "stop_ops", "desc": desc}, {"op": "stop_ops", "impl": kinds, "model": model_ops})
        if dir_state(root, k, prods) != ("absent", "complete"):
            res.fail("oracle", {"op": "stop", "desc": desc}, {"why": "uninterrupted stop did not leave exactly the complete final link",
                                                                "state": dir_state(root, k, prods)})
        # (ii) crash at every audited operation (= before it is performed) and inside the write
        # offsets inside the write are relative to the bytes actually written (signatures vary in length)
        points = [("event", e) for e in range(len(trace) + 1)] + [("write", f) for f in (0.0, 0.25, 0.5, 0.75, -1)] + \
                 [("write_fault", f) for f in (0.0, 0.5, -1)] + [("close_fault", 1.0)] + \
                 [("fsize_limit", f) for f in (0.0, 0.3, 0.6, 0.9)]     # (not all-but-one byte: signature lengths vary between runs)
        for kind, arg in points:
            # reset the directory to the state before stop
            for f in os.listdir(root):
                if f.endswith(".link"):
                    os.remove(f)
            with open(".st.%s.link-unfinished" % k.keyid[:8], "wb") as f:
                f.write(prelim_bytes)

            def crashing():
                if kind == "event":
                    with inject.watching([root], crash_at=arg):
                        stop(k, prods)
                elif kind == "fsize_limit":
                    # a fault of the operating system itself (file size limit / quota / full disk): only a prefix of
                    # the final link fits, however the code writes it (buffered file object, os.write, ...)
                    import resource
                    n = max(1, int(final_len * arg))
                    _soft, hard = resource.getrlimit(resource.RLIMIT_FSIZE)
                    resource.setrlimit(resource.RLIMIT_FSIZE, (n, hard))
                    try:
                        stop(k, prods)
                    finally:
                        resource.setrlimit(resource.RLIMIT_FSIZE, (_soft, hard))
                else:
                    import builtins
                    real_open = builtins.open

                    def fake_open(path, mode="r", *a, **kw):
                        fobj = real_open(path, mode, *a, **kw)
                        if "w" in mode and os.path.basename(str(path)) == "st.%s.link" % k.keyid[:8]:
                            real_write = fobj.write

                            def write(data):
                                cut = len(data) - 1 if arg == -1 else int(len(data) * arg)
                                real_write(data[:cut])
                                fobj.flush()
                                if kind == "write":
                                    os._exit(77)  # pylint: disable=protected-access
                                if kind == "write_fault":
                                    raise OSError(28, "No space left on device (injected)")
                                return cut
                            if kind == "close_fault":
                                real_close = fobj.close

                                def close():
                                    real_close()
                                    raise OSError(5, "Input/output error on close (injected)")
                                fobj.close = close
                            else:
                                fobj.write = write
                        return fobj
                    builtins.open = fake_open
                    stop(k, prods)
            status = child(crashing)
            state = dir_state(root, k, prods)
            # model: number of completed operations
            if kind == "event":
                done = arg                    # crash before performing event number `arg`
                # map audited events to model operations: writeFinal completes together with createFinal's close
                ops_done = model_ops[:done]
                kmodel = len([o for o in ops_done])
                if "createFinal" in ops_done:
                    kmodel += 1              # the write completed before the next audited event
            elif kind == "close_fault":
                kmodel = model_ops.index("createFinal") + 2   # everything was written, the close reported an error
            else:
                kmodel = model_ops.index("createFinal") + 1   # inside the write
            ms = m["states"][min(kmodel, len(m["states"]) - 1)]
            mstate = (ms["prelim"], ms["final"])
            died = status == 77 or kind in ("write_fault", "close_fault", "fsize_limit")
            agreed = state == mstate or not died
            res.case({"desc": desc, "crash": [kind, arg], "exit": status, "state": state, "model": mstate}, True, agreed, sample_cap=1)
            res.count("crash_" + kind)
            res.count("state_%s_%s" % state)
            if died and state != mstate:
                res.fail("disagree", {"op": "stop_crash", "desc": desc, "crash": [kind, arg]},
                         {"op": "stop_crash", "impl": state, "model": mstate})
            if state[0] != "complete" and state[1] != "complete":
                res.fail("oracle", {"op": "stop_crash", "desc": desc, "crash": [kind, arg]},
                         {"why": "after the process died neither the preliminary record nor the final link is whole",
                          "state": state})
            if state[0] == "complete":
                # a retry must succeed
                try:
                    stop(k, prods)
                    after = dir_state(root, k, prods)
                except Exception as e:  # pylint: disable=broad-except
                    after = ("retry raised " + type(e).__name__,)
                if after != ("absent", "complete"):
                    res.fail("oracle", {"op": "stop_crash", "desc": desc, "crash": [kind, arg]},
                             {"why": "retry after the crash did not complete the recording", "after_retry": after})
    finally:
        os.chdir(cwd)
        shutil.rmtree(root, ignore_errors=True)


def tampered_prelim(rng, res):
    KEY_FORM[0] = "signer"
    """(iii) stop must fail and write nothing unless the preliminary record exists,
    is unaltered and was signed by the same key."""
    STOP_KW.clear()
    import in_toto.runlib as rl
    k, other = rng.sample(W.pool(), 2)
    if W.gpg_available() and rng.random() < 0.3:
        # gpg key-argument form: both keys live in the same gpg home
        k, other = W.gpg_key("no_sub"), W.gpg_key("no_sub2")
        if rng.random() < 0.5:
            k, other = other, k
    dsse = rng.random() < 0.5 and k.kind != "gpg"
    how = rng.choice(["missing", "edited", "resigned", "other_key_file", "honest", "duplicated"])
    root = tempfile.mkdtemp(prefix="verif-c12t-")
    cwd = os.getcwd()
    try:
        os.chdir(root)
        prods = setup(root, 1)
        kid = k.keyid[:8]
        pre = ".st.%s.link-unfinished" % kid
        if how == "other_key_file":
            start(root, other, dsse)        # only the other key's preliminary record exists
        else:
            start(root, k, dsse)
        if how == "duplicated":
            start(root, other, dsse)        # a second preliminary record of the same step, by the other key
        make_products(prods)
        if how == "missing":
            os.remove(pre)
        elif how == "edited":
            c = json.load(open(pre))
            from harness import scen
            c2 = scen.apply_tamper(c, "content_fixed", rng, W.SigTable())
            json.dump(c2, open(pre, "w"))
        elif how == "resigned":
            # same content, signature by another key, stored under k's file name
            from in_toto.models.metadata import Metadata
            md = Metadata.load(pre)
            md.signatures = []
            if other.kind == "gpg":
                from in_toto.models._signer import GPGSigner
                md.create_signature(GPGSigner(keyid=other.gpg_id, homedir=other.gpg_home))
            else:
                md.create_signature(other.signer)
            md.dump(pre)
        before = sorted(os.listdir(root))
        try:
            stop(k, prods)
            outcome = "ok"
        except Exception as e:  # pylint: disable=broad-except
            outcome = type(e).__name__
            outcome_class = W.exc_class(e)
        after = sorted(os.listdir(root))
        mats = [["m0", sha_of("material\n")]]
        own = {"materials": mats, "signer": k.keyid, "intact": True}
        others = {"materials": mats, "signer": other.keyid, "intact": True}
        prelim = {"missing": None, "other_key_file": None, "duplicated": own,
                  "edited": {"materials": mats, "signer": k.keyid, "intact": False},
                  "resigned": others, "honest": own}[how]
        # the gpg forms look for the preliminary record by step name: every such file counts
        prelims = None
        if k.kind == "gpg":
            prelims = {"missing": [], "other_key_file": [others], "duplicated": [own, others],
                       "edited": [prelim], "resigned": [prelim], "honest": [prelim]}[how]
        mm = model_stop(prelim, k.keyid, prods, {}, prelims)
        m = "ok" if "ok" in mm else mm["err"]
        agreed = (outcome == "ok") == (m == "ok") and (outcome == "ok" or outcome_class == m)
        res.case({"prelim": how, "key": k.kind, "dsse": dsse, "outcome": outcome}, True, agreed, sample_cap=2)
        res.count("prelim_" + how)
        if not agreed:
            res.fail("disagree", {"op": "stop_tampered", "how": how}, {"op": "recordStop", "impl": outcome, "model": mm})
        harmless = how == "honest" or (how == "duplicated" and k.kind != "gpg")
        if not harmless:
            if outcome == "ok":
                res.fail("oracle", {"op": "stop_tampered", "how": how, "key": k.kind, "dsse": dsse},
                         {"why": "stop succeeded although the preliminary record is %s" % how})
            elif before != after:
                res.fail("oracle", {"op": "stop_tampered", "how": how, "key": k.kind, "dsse": dsse},
                         {"why": "a failing stop changed the directory", "before": before, "after": after})
        else:
            st = dir_state(root, k, prods)
            if st != ("absent", "complete"):
                res.fail("oracle", {"op": "stop_tampered", "how": how}, {"why": "honest start/stop did not produce the final link", "state": st})
    finally:
        os.chdir(cwd)
        shutil.rmtree(root, ignore_errors=True)


def other_steps_prelim(rng, res):
    """(vii) The key-argument forms that do not tell the key id up front (gpg) look for the preliminary record by step
    name. Only records of *that* step count: not those of a step whose name starts with it ('st' / 'st-image'), extends
    it by a dot ('st' / 'st.x86'), or matches it as a glob pattern ('s*' / 'st'). A stop for a step that was never
    started must fail and change nothing; with both in flight, each stop finishes its own."""
    KEY_FORM[0] = "signer"
    STOP_KW.clear()
    if not W.gpg_available():
        return
    import in_toto.runlib as rl
    from in_toto.models.metadata import Metadata
    k = W.gpg_key(rng.choice(["no_sub", "no_sub2"]))
    mine, other = rng.choice([("st", "st-image"), ("st", "st.x86"), ("s*", "st"), ("st", "st2"), ("s[tu]", "st"), ("st.x86", "st")])
    both = rng.random() < 0.4
    root = tempfile.mkdtemp(prefix="verif-c12o-")
    cwd = os.getcwd()
    try:
        os.chdir(root)
        open("m0", "w").write("material\n")
        kw = {"gpg_keyid": k.gpg_id, "gpg_home": k.gpg_home}
        with quiet():
            rl.in_toto_record_start(other, ["m0"], **kw)
            if both:
                rl.in_toto_record_start(mine, ["m0"], **kw)
        open("p0", "w").write("product\n")
        before = sorted(os.listdir(root))
        try:
            with quiet():
                rl.in_toto_record_stop(mine, ["p0"], **kw)
            outcome = "ok"
        except Exception as e:  # pylint: disable=broad-except
            outcome = W.exc_class(e)
        after = sorted(os.listdir(root))
        mats = [["m0", sha_of("material\n")]]
        own = {"materials": mats, "signer": k.keyid, "intact": True}
        # which files of the directory count for this step is the model's `selectsPrelim` (theorems selectsPrelim_own / _other)
        selected = core.driver().call({"op": "prelim_select", "step": mine, "files": before})["ok"]
        mm = core.driver().call({"op": "record_stop", "key": k.keyid, "prelim": own if selected else None, "given": extras_for_model({}),
                                 "products": [["p0", sha_of("product\n")]], "prelims": [own] * len(selected)})
        m = "ok" if "ok" in mm else mm["err"]
        agreed = outcome == m
        case = {"op": "other_steps_prelim", "stop_of": mine, "in_flight": [other] + ([mine] if both else []), "key": "gpg"}
        res.case(dict(case, outcome=outcome), True, agreed, sample_cap=2)
        res.count("other_steps_prelim_" + ("both" if both else "other_only"))
        if not agreed:
            res.fail("disagree", case, {"op": "recordStopGlob", "impl": outcome, "model": mm})
        kid = k.keyid[:8]
        if not both:
            if outcome == "ok" or after != before:
                res.fail("oracle", case, {"why": "stop of a step that was never started %s (only the preliminary record of step %r exists)" % (
                    "succeeded" if outcome == "ok" else "changed the directory", other), "before": before, "after": after})
        else:
            ok_files = os.path.exists("%s.%s.link" % (mine, kid)) and not os.path.exists(".%s.%s.link-unfinished" % (mine, kid)) \
                and os.path.exists(".%s.%s.link-unfinished" % (other, kid))
            name_ok = ok_files and Metadata.load("%s.%s.link" % (mine, kid)).get_payload().name == mine
            if outcome != "ok" or not name_ok:
                res.fail("oracle", case, {"why": "with the recordings of %r and %r both in flight, stop of %r did not finish its own recording and "
                                                 "leave the other alone" % (mine, other, mine), "outcome": outcome, "before": before, "after": after})
    finally:
        os.chdir(cwd)
        shutil.rmtree(root, ignore_errors=True)


def copied_prelim_case(rng, res):
    """(ix) A preliminary record lying under ANOTHER step's file name (copied or renamed: a typo fixed by hand, a record
    duplicated by a backup tool), signed by the same key. Whatever stop makes of it, it acts on the step it was called
    for: the finished link of the step the record was made for is not touched, and of the step stopped either the
    preliminary record or its final link is on disk afterwards."""
    KEY_FORM[0] = "signer"
    STOP_KW.clear()
    import in_toto.runlib as rl
    k = rng.choice(W.pool())
    dsse = rng.random() < 0.5
    how = rng.choice(["copy", "copy", "rename"])
    a, b = rng.choice([("build", "package"), ("st", "st2"), ("biuld", "build")])
    kid = k.keyid[:8]
    root = tempfile.mkdtemp(prefix="verif-c12c-")
    cwd = os.getcwd()
    try:
        os.chdir(root)
        open("m0", "w").write("material\n")
        with quiet():
            rl.in_toto_record_start(a, ["m0"], signer=k.signer, use_dsse=dsse)
        pa, pb = ".%s.%s.link-unfinished" % (a, kid), ".%s.%s.link-unfinished" % (b, kid)
        if how == "copy":
            shutil.copy(pa, pb)
            open("p0", "w").write("product of %s\n" % a)
            with quiet():
                rl.in_toto_record_stop(a, ["p0"], signer=k.signer)
            finished_a = open("%s.%s.link" % (a, kid), "rb").read()
        else:
            os.rename(pa, pb)
            finished_a = None
        open("p0", "w").write("product of %s\n" % b)
        try:
            with quiet():
                rl.in_toto_record_stop(b, ["p0"], signer=k.signer)
            outcome = "ok"
        except Exception as e:  # pylint: disable=broad-except
            outcome = W.exc_class(e)
        fa, fb = "%s.%s.link" % (a, kid), "%s.%s.link" % (b, kid)
        state = {"outcome": outcome, "final_of_stopped_step": os.path.exists(fb), "prelim_of_stopped_step": os.path.exists(pb),
                 "final_of_other_step": (open(fa, "rb").read() == finished_a) if finished_a is not None else os.path.exists(fa)}
    finally:
        os.chdir(cwd)
        shutil.rmtree(root, ignore_errors=True)
    case = {"op": "copied_prelim", "recorded_for": a, "stopped": b, "how": how, "dsse": dsse, "key": k.kind}
    why = None
    if how == "copy" and state["final_of_other_step"] is not True:
        why = "stop of step %r rewrote the finished link of step %r" % (b, a)
    elif how == "rename" and state["final_of_other_step"]:
        why = "stop of step %r wrote a link for step %r, which was not stopped" % (b, a)
    elif not (state["final_of_stopped_step"] or state["prelim_of_stopped_step"]):
        why = "after stop of step %r neither its preliminary record nor its final link is on disk" % b
    elif outcome == "ok" and not state["final_of_stopped_step"]:
        why = "stop of step %r reported success and wrote no final link for it" % b
    res.case(dict(case, state=state), True, why is None, sample_cap=1)
    res.count("copied_prelim_" + how)
    if why:
        res.fail("oracle", case, {"why": why, "state": state})


# exclude lists handed to record stop (they replace the defaults, so each names the link files itself): patterns
# anchored at the recording root must not reach a directory of the same name further down
STOP_EXCLUDES = [None, ["*.link*", "/sub"], None, ["*.link*", "/deep", "/lib"], ["*.link*", "/dist/sub/deep"], ["*.link*", "*.bin", "!app.bin"],
                 ["*.link*", "/vendor"]]


def stop_products_tree(rng, res, no=None):
    """(viii) The final link holds exactly the products present at stop - recorded the way the one-phase command records
    them: a product directory that contains a link to another directory (dist/vendor -> ../vendor-1.2), nested
    directories, a link to a file."""
    KEY_FORM[0] = "signer"
    STOP_KW.clear()
    import in_toto.runlib as rl
    import in_toto.settings as ist
    from in_toto.models.metadata import Metadata
    from harness import tree as T
    k = rng.choice(W.pool())
    dsse = rng.random() < 0.5
    tree = {"m0": ("f", b"material\n"),
            "dist": ("d", {"app.bin": ("f", b"app\n"), "latest.bin": ("l", "app.bin"), "vendor": ("l", "../vendor-1.2"),
                           "sub": ("d", {"deep": ("d", {"f.txt": ("f", b"f\n")})})}),
            "vendor-1.2": ("d", {"LICENSE": ("f", b"lic\n"), "lib": ("d", {"libdep.a": ("f", b"a\n")})})}
    if rng.random() < 0.5:
        tree["dist"][1]["docs"] = ("l", "sub/deep")
    plist = rng.choice([["dist"], ["dist", "m0"], ["."]])
    excl = STOP_EXCLUDES[no % len(STOP_EXCLUDES)] if no is not None else None
    if excl and no % 2:
        plist = ["."]
    root = tempfile.mkdtemp(prefix="verif-c12p-")
    cwd = os.getcwd()
    try:
        os.chdir(root)
        open("m0", "wb").write(b"material\n")
        rec_env = bool(no is not None and (no // 2) % 2)
        with quiet():
            rl.in_toto_record_start("st", ["m0"], signer=k.signer, use_dsse=dsse, **({"record_environment": True} if rec_env else {}))
        start_dir = os.getcwd()
        T.materialise({n_: v for n_, v in tree.items() if n_ != "m0"}, root)
        # the material itself may be replaced between start and stop - also by a file with an OLD time stamp (unpacked
        # from an archive, copied with its times, clamped for reproducibility) or of the same size: the products are what
        # is on disk at stop, the materials what was there at start
        m0_change = rng.choice(["none", "rewrite", "old_mtime", "old_mtime", "same_size_old_mtime", "prelim_touched_later"])
        if m0_change != "none":
            new = b"materiaL\n" if m0_change == "same_size_old_mtime" else b"replaced between start and stop\n"
            st0 = os.stat("m0")
            open("m0", "wb").write(new)
            tree["m0"] = ("f", new)
            if "old_mtime" in m0_change:
                os.utime("m0", (st0.st_atime - 86400, st0.st_mtime - 86400))
            elif m0_change == "prelim_touched_later":
                os.utime("m0", (st0.st_atime, st0.st_mtime))
                for f_ in os.listdir(root):
                    if f_.endswith(".link-unfinished"):
                        os.utime(f_, (st0.st_atime + 5, st0.st_mtime + 5))
        try:
            with quiet():
                rl.in_toto_record_stop("st", plist, signer=k.signer, **({"exclude_patterns": list(excl)} if excl else {}))
            pl = Metadata.load("st.%s.link" % k.keyid[:8]).get_payload()
            got = {"ok": sorted([a, b["sha256"]] for a, b in pl.products.items())}
            if sorted(pl.materials.items()) != [("m0", {"sha256": sha_of("material\n")})]:
                got = {"err": "materials of the final link are not those captured at start: %r" % (sorted(pl.materials.items()),)}
            if pl.environment != ({"workdir": start_dir.replace("\\", "/")} if rec_env else {}):
                got = {"err": "environment of the final link is not what start recorded (asked for: %r): %r" % (rec_env, pl.environment)}
        except Exception as e:  # pylint: disable=broad-except
            got = {"err": type(e).__name__}
    finally:
        os.chdir(cwd)
        shutil.rmtree(root, ignore_errors=True)
    ref = T.reference_record(tree, plist, list(excl or ist.ARTIFACT_EXCLUDE_PATTERNS), True, False, [])
    want = {"ok": sorted([a, b] for a, b in ref[1].items())} if ref[0] == "ok" else {"err": ref[0]}
    case = {"op": "stop_products_tree", "products": plist, "dsse": dsse, "key": k.kind, "material_between_start_and_stop": m0_change,
            "exclude_patterns": excl}
    res.case(dict(case, n_products=len(got.get("ok") or [])), True, got == want, sample_cap=1)
    res.count("stop_products_tree")
    if got != want:
        missing = sorted(set(a for a, _b in want.get("ok", [])) - set(a for a, _b in got.get("ok", [])))
        res.fail("oracle", case, {"why": "the final link does not hold exactly the products present at stop (as in_toto_run records them: directory "
                                         "links inside a product directory are followed)", "missing": missing, "impl": got if "err" in got else None})


def failing_stop_then_retry(rng, res):
    """(vi) A stop that fails *while the products are being recorded* (two products collapse to one name under the
    left-strip prefixes; a product path that cannot be read), with and without a base path, then - in the same process,
    from the same place, with relative names - the retry with usable arguments. The failed stop must leave the
    preliminary record as it was and write no final link; the retry must complete the recording (the model: recordStop
    fails before any file operation; C12_retry)."""
    KEY_FORM[0] = "signer"
    STOP_KW.clear()
    import hashlib
    import in_toto.runlib as rl
    from in_toto.models.metadata import Metadata
    k = rng.choice(W.pool())
    dsse = rng.random() < 0.5
    base = rng.choice([None, "src", "src"])
    how = rng.choice(["prefix_collision", "prefix_collision", "product_is_missing_dir"])
    root = tempfile.mkdtemp(prefix="verif-c12f-")
    cwd = os.getcwd()
    try:
        os.chdir(root)
        top = os.path.join(root, base) if base else root
        for sub in ("a", "b"):
            os.makedirs(os.path.join(top, sub), exist_ok=True)
        open(os.path.join(top, "m0"), "w").write("material\n")
        kw = {"base_path": base} if base else {}
        with quiet():
            rl.in_toto_record_start("st", ["m0"], signer=k.signer, use_dsse=dsse, **kw)
        open(os.path.join(top, "a", "x"), "w").write("ax\n")
        open(os.path.join(top, "b", "x"), "w").write("bx\n")
        kid = k.keyid[:8]
        pre, fin = ".st.%s.link-unfinished" % kid, "st.%s.link" % kid
        pre_bytes = open(os.path.join(root, pre), "rb").read()
        listing = lambda: sorted(os.path.relpath(os.path.join(dp, f), root) for dp, _d, fs in os.walk(root) for f in fs)
        before = listing()
        try:
            with quiet():
                if how == "prefix_collision":
                    rl.in_toto_record_stop("st", ["a/x", "b/x"], signer=k.signer, lstrip_paths=["a/", "b/"], **kw)
                else:
                    rl.in_toto_record_stop("st", ["a/x", "ostree:no-such-repo@ref"], signer=k.signer, **kw)
            first = "ok"
        except Exception as e:  # pylint: disable=broad-except
            first = type(e).__name__
        mid = listing()
        mid_cwd = os.getcwd()
        case = {"op": "failing_stop_then_retry", "how": how, "base_path": base, "dsse": dsse, "key": k.kind}
        res.count("failing_stop_" + how)
        ok_case = True
        if first == "ok":
            # (nothing to fail on this tree for that variant: count, do not judge)
            res.count("failing_stop_did_not_fail")
        else:
            if mid != before or open(os.path.join(root, pre), "rb").read() != pre_bytes:
                ok_case = False
                res.fail("oracle", case, {"why": "a stop that failed while recording the products changed the directory or the preliminary record",
                                          "before": before, "after": mid, "raised": first})
            try:
                with quiet():
                    rl.in_toto_record_stop("st", ["a/x", "b/x"], signer=k.signer, **kw)
                retry = "ok"
            except Exception as e:  # pylint: disable=broad-except
                retry = type(e).__name__ + ": " + str(e)[:100]
            state = None
            if retry == "ok":
                try:
                    md = Metadata.load(os.path.join(root, fin))
                    md.verify_signature(k.pub)
                    pl = md.get_payload()
                    exp_m = {"m0": {"sha256": hashlib.sha256(b"material\n").hexdigest()}}
                    exp_p = {"a/x": {"sha256": hashlib.sha256(b"ax\n").hexdigest()}, "b/x": {"sha256": hashlib.sha256(b"bx\n").hexdigest()}}
                    state = "complete" if (pl.materials, pl.products) == (exp_m, exp_p) and not os.path.exists(os.path.join(root, pre)) else "wrong-content"
                except Exception as e:  # pylint: disable=broad-except
                    state = "unreadable " + type(e).__name__
            if retry != "ok" or state != "complete":
                ok_case = False
                res.fail("oracle", case, {"why": "the preliminary record is present, unaltered and signed by the same key, yet the retry of the "
                                                 "failed stop did not complete the recording", "first_stop": first, "retry": retry, "final_link": state,
                                          "cwd_after_failed_stop": os.path.relpath(mid_cwd, root)})
        res.case(dict(case, first_stop=first), True, ok_case, sample_cap=1)
    finally:
        os.chdir(cwd)
        shutil.rmtree(root, ignore_errors=True)


def legacy_key_history(rng, res, no):
    """The deprecated key argument alone (`signing_key=<key dictionary>`, no Signer): start / stop, or the one-phase
    command, with an rsa key. The files carry the id of THAT dictionary, the final link is signed with it, holds the
    material as it was at start and the products as they are at stop; nothing preliminary is left. Oracle only."""
    STOP_KW.clear()
    KEY_FORM[0] = "signer"
    import in_toto.runlib as rl
    from in_toto.models.metadata import Metadata
    rsa = [x for x in W.pool() if x.kind == "rsa"]
    k = rsa[no % len(rsa)]
    L = legacy_key(k)
    kid = L["keyid"]
    dsse = bool((no // 2) % 2)
    one_phase = no % 3 == 2
    root = tempfile.mkdtemp(prefix="verif-c12l-")
    cwd = os.getcwd()
    problems = []
    try:
        os.chdir(root)
        open("m0", "wb").write(b"material\n")
        try:
            with quiet():
                if one_phase:
                    md = rl.in_toto_run("st", ["m0"], ["p0"], [sys.executable, "-c", "open('p0','w').write('product\\n')"],
                                        signing_key=L, use_dsse=dsse)
                else:
                    rl.in_toto_record_start("st", ["m0"], signing_key=L, use_dsse=dsse)
                    if not os.path.exists(".st.%s.link-unfinished" % kid[:8]):
                        problems.append("no preliminary link under the key dictionary's id after start: %r" % sorted(os.listdir(".")))
                    open("p0", "wb").write(b"product\n")
                    open("m0", "wb").write(b"material changed after start\n")
                    rl.in_toto_record_stop("st", ["p0"], signing_key=L)
            final = "st.%s.link" % kid[:8]
            left = sorted(f for f in os.listdir(".") if f not in ("m0", "p0", final))
            if left:
                problems.append("left behind: %r" % left)
            if not os.path.exists(final):
                problems.append("no final link %s: %r" % (final, sorted(os.listdir("."))))
            else:
                md = Metadata.load(final)
                pub = {x: v for x, v in L.items()}
                pub = dict(pub, keyval={"public": L["keyval"]["public"]})
                try:
                    md.verify_signature(pub)
                except Exception as e:  # pylint: disable=broad-except
                    problems.append("final link does not verify with the key it was recorded with: %s" % type(e).__name__)
                pl = md.get_payload()
                if pl.name != "st":
                    problems.append("name %r" % pl.name)
                if sorted(pl.materials.items()) != [("m0", {"sha256": sha_of("material\n")})]:
                    problems.append("materials are not those present at start: %r" % sorted(pl.materials.items()))
                if sorted(pl.products.items()) != [("p0", {"sha256": sha_of("product\n")})]:
                    problems.append("products are not those present at stop: %r" % sorted(pl.products.items()))
                if ("payload" in json.load(open(final))) != dsse:
                    problems.append("format of the final link is not the one asked for at start")
        except Exception as e:  # pylint: disable=broad-except
            problems.append("raised %s: %s" % (type(e).__name__, str(e)[:120]))
    finally:
        os.chdir(cwd)
        shutil.rmtree(root, ignore_errors=True)
    case = {"op": "legacy_key_history", "no": no, "dsse": dsse, "one_phase": one_phase, "key": "rsa key dictionary"}
    res.case(dict(case, problems=problems), True, not problems, sample_cap=1)
    res.count("legacy_key_history")
    if problems:
        res.fail("oracle", case, {"why": "recording with the deprecated key dictionary alone: " + "; ".join(problems)})


def gpg_default_history(rng, res, no):
    """`gpg_use_default=True`: start and stop sign with whatever the gpg home's default key is. One preliminary record
    appears at start under that key's id, stop turns exactly it into the final link (same id, verifies with that key,
    materials of start / products of stop) - and leaves alone the preliminary record the same key holds for ANOTHER step
    (`st` vs `st.2` / `st2`). Oracle only."""
    if not W.gpg_available():
        return
    STOP_KW.clear()
    KEY_FORM[0] = "signer"
    import in_toto.runlib as rl
    import securesystemslib.gpg.functions as gpgf
    from in_toto.models.metadata import Metadata
    g = W.gpg_key(["no_sub", "no_sub2", "two_subs"][no % 3])
    other_step = ["st2", "st.2", "s"][(no // 3) % 3]
    root = tempfile.mkdtemp(prefix="verif-c12g-")
    cwd = os.getcwd()
    problems = []
    try:
        os.chdir(root)
        open("m0", "wb").write(b"material\n")
        try:
            with quiet():
                rl.in_toto_record_start(other_step, ["m0"], gpg_use_default=True, gpg_home=g.gpg_home)
                rl.in_toto_record_start("st", ["m0"], gpg_use_default=True, gpg_home=g.gpg_home)
            pre = sorted(f for f in os.listdir(".") if f.startswith(".st.") and f.endswith(".link-unfinished") and f.count(".") == 3)
            if len(pre) != 1:
                problems.append("preliminary records of step st after start: %r" % sorted(os.listdir(".")))
            else:
                kid8 = pre[0].split(".")[2]
                open("p0", "wb").write(b"product\n")
                with quiet():
                    rl.in_toto_record_stop("st", ["p0"], gpg_use_default=True, gpg_home=g.gpg_home)
                final = "st.%s.link" % kid8
                names = sorted(os.listdir("."))
                if final not in names or pre[0] in names:
                    problems.append("after stop: %r" % names)
                if ".%s.%s.link-unfinished" % (other_step, kid8) not in names:
                    problems.append("the preliminary record of step %r is gone: %r" % (other_step, names))
                if final in names:
                    md = Metadata.load(final)
                    sig = md.signatures[0]
                    keyid = getattr(sig, "keyid", None) or sig["keyid"]
                    try:
                        md.verify_signature(gpgf.export_pubkey(keyid, g.gpg_home))
                    except Exception as e:  # pylint: disable=broad-except
                        problems.append("final link does not verify with the key that signed it: %s" % type(e).__name__)
                    pl = md.get_payload()
                    if pl.name != "st" or sorted(pl.materials) != ["m0"] or sorted(pl.products) != ["p0"]:
                        problems.append("final link: name %r materials %r products %r" % (pl.name, sorted(pl.materials), sorted(pl.products)))
                # ... and the one-phase command with the same default key
                with quiet():
                    rl.in_toto_run("run1", ["m0"], ["p0"], [sys.executable, "-c", "pass"], gpg_use_default=True, gpg_home=g.gpg_home)
                if not os.path.exists("run1.%s.link" % kid8):
                    problems.append("in_toto_run with the default key wrote no run1.%s.link: %r" % (kid8, sorted(os.listdir("."))))
                else:
                    md = Metadata.load("run1.%s.link" % kid8)
                    sig = md.signatures[0]
                    try:
                        md.verify_signature(gpgf.export_pubkey(getattr(sig, "keyid", None) or sig["keyid"], g.gpg_home))
                    except Exception as e:  # pylint: disable=broad-except
                        problems.append("the link in_toto_run wrote does not verify with the key that signed it: %s" % type(e).__name__)
        except Exception as e:  # pylint: disable=broad-except
            problems.append("raised %s: %s" % (type(e).__name__, str(e)[:120]))
    finally:
        os.chdir(cwd)
        shutil.rmtree(root, ignore_errors=True)
    case = {"op": "gpg_default_history", "no": no, "other_step": other_step}
    res.case(dict(case, problems=problems), True, not problems, sample_cap=1)
    res.count("gpg_default_history")
    if problems:
        res.fail("oracle", case, {"why": "recording with the gpg home's default key: " + "; ".join(problems)})


def interleaved(rng, res):
    KEY_FORM[0] = "signer"
    """start / stop / run for two step names and two keys in one directory."""
    STOP_KW.clear()
    import in_toto.runlib as rl
    from in_toto.models.metadata import Metadata
    k1, k2 = rng.sample(W.pool(), 2)
    root = tempfile.mkdtemp(prefix="verif-c12i-")
    cwd = os.getcwd()
    try:
        os.chdir(root)
        open("m0", "w").write("material\n")
        acts = [("start", "a", k1), ("start", "b", k2), ("start", "a", k2), ("run", "c", k1)]
        rng.shuffle(acts)
        stops = [("stop", "a", k1), ("stop", "b", k2), ("stop", "a", k2)]
        rng.shuffle(stops)
        with quiet():
            for act, name, k in acts + stops:
                if act == "start":
                    rl.in_toto_record_start(name, ["m0"], signer=k.signer)
                elif act == "run":
                    rl.in_toto_run(name, ["m0"], ["m0"], ["true"], signer=k.signer)
                else:
                    try:
                        rl.in_toto_record_stop(name, ["m0"], signer=k.signer)
                    except Exception as e:  # pylint: disable=broad-except
                        # every recording here was started and is stopped once: its preliminary record must be there
                        res.evaluations += 1
                        res.fail("oracle", {"op": "interleaved", "order": [(a, n, k_.keyid[:8]) for a, n, k_ in acts + stops],
                                            "failed_at": [act, name, k.keyid[:8]]},
                                 {"why": "the stop of a started recording failed (%s): its preliminary record did not survive the "
                                         "other recordings' starts and stops in the same directory" % type(e).__name__,
                                  "files": sorted(os.listdir("."))})
                        return
        exp = sorted(["a.%s.link" % k1.keyid[:8], "a.%s.link" % k2.keyid[:8], "b.%s.link" % k2.keyid[:8],
                      "c.%s.link" % k1.keyid[:8], "m0"])
        got = sorted(os.listdir(root))
        ok = got == exp
        for f in got:
            if f.endswith(".link"):
                name, kid, _ = f.split(".")
                k = k1 if kid == k1.keyid[:8] else k2
                md = Metadata.load(f)
                try:
                    md.verify_signature(k.pub)
                    if md.get_payload().name != name:
                        ok = False
                except Exception:  # pylint: disable=broad-except
                    ok = False
        res.case({"interleaving": [(a, n, k.keyid[:4]) for a, n, k in acts + stops], "files": got}, True, ok, sample_cap=1)
        res.count("interleaved")
        if not ok:
            res.fail("oracle", {"op": "interleaved", "order": [(a, n, k.keyid[:8]) for a, n, k in acts + stops]},
                     {"why": "interleaved recordings of distinct (step, key) pairs interfered", "files": got, "expected": exp})
    finally:
        os.chdir(cwd)
        shutil.rmtree(root, ignore_errors=True)


def interleaved_random(rng, res):
    KEY_FORM[0] = "signer"
    """Random interleavings (4-10 calls) of record start / stop / run over two step names and two keys in one
    directory, the recorded file changing between calls: every call's outcome and the final state of the two
    files of every (name, key) pair are compared with the Lean `runDirOps`; the oracle replays, per pair, only
    that pair's calls in a fresh directory (non-interference)."""
    STOP_KW.clear()
    import in_toto.runlib as rl
    from in_toto.models.metadata import Metadata
    keys = rng.sample(W.pool(), 2)
    names = ["a", "b"]
    ops = []
    for _ in range(rng.randrange(4, 11)):
        ops.append((rng.choice(["start", "start", "stop", "stop", "run"]), rng.choice(names), rng.choice(keys), rng.randrange(1000)))

    def perform(seq):
        """Runs the calls in a fresh directory; returns (outcomes, {slot: (prelim fields, final fields)})."""
        root = tempfile.mkdtemp(prefix="verif-c12r-")
        cwd = os.getcwd()
        outs = []
        try:
            os.chdir(root)
            with quiet():
                for act, name, k, v in seq:
                    open("m0", "w").write("content %d\n" % v)
                    try:
                        if act == "start":
                            rl.in_toto_record_start(name, ["m0"], signer=k.signer)
                        elif act == "stop":
                            rl.in_toto_record_stop(name, ["m0"], signer=k.signer)
                        else:
                            rl.in_toto_run(name, ["m0"], ["m0"], ["true"], signer=k.signer)
                        outs.append(True)
                    except Exception:  # pylint: disable=broad-except
                        outs.append(False)
            state = {}
            for name in names:
                for k in keys:
                    kid = k.keyid[:8]

                    def fields(path, final):
                        if not os.path.exists(path):
                            return None
                        md = Metadata.load(path)
                        md.verify_signature(k.pub)
                        pl = md.get_payload()
                        f = {"materials": sorted([a, b["sha256"]] for a, b in pl.materials.items()), "signer": k.keyid}
                        if final:
                            f["products"] = sorted([a, b["sha256"]] for a, b in pl.products.items())
                        return f
                    state[(name, k.keyid)] = (fields(".%s.%s.link-unfinished" % (name, kid), False), fields("%s.%s.link" % (name, kid), True))
            return outs, state
        finally:
            os.chdir(cwd)
            shutil.rmtree(root, ignore_errors=True)

    def m0(v):
        return [["m0", sha_of("content %d\n" % v)]]
    outs, state = perform(ops)
    req = []
    for act, name, k, v in ops:
        o = {"op": act, "name": name, "key": k.keyid}
        if act in ("start", "run"):
            o["materials"] = m0(v)
        if act in ("stop", "run"):
            o["products"] = m0(v)
        req.append(o)
    m = core.driver().call({"op": "dir_ops", "ops": req})["ok"]

    def norm(x, final):
        if x is None or x == "partial":
            return x
        f = {"materials": sorted([a, b["digest"]] for a, b in x["materials"]), "signer": x["signer"]}
        if final:
            f["products"] = sorted([a, b["digest"]] for a, b in x["products"])
        return f
    mstate = {(sl["name"], sl["key"]): (norm(sl["prelim"], False), norm(sl["final"], True)) for sl in m["slots"]}
    touched = {(name, k.keyid) for _a, name, k, _v in ops}
    impl_state = {sl: st for sl, st in state.items() if sl in touched}
    agreed = outs == m["outcomes"] and impl_state == mstate
    desc = [[a, n, k.keyid[:4], v] for a, n, k, v in ops]
    res.case({"interleaving": desc, "outcomes": outs}, True, agreed, sample_cap=2)
    res.count("interleaved_random")
    if not agreed:
        res.fail("disagree", {"op": "dir_ops", "ops": desc},
                 {"op": "dir_ops", "impl": {"outcomes": outs, "state": {"%s.%s" % (a, b[:8]): v for (a, b), v in impl_state.items()}},
                  "model": {"outcomes": m["outcomes"], "state": {"%s.%s" % (a, b[:8]): v for (a, b), v in mstate.items()}}})
    # oracle: per pair, the same calls alone give the same two files and the same outcomes
    for sl in sorted(touched):
        own = [(i, o) for i, o in enumerate(ops) if (o[1], o[2].keyid) == sl]
        outs2, state2 = perform([o for _i, o in own])
        res.evaluations += 1
        if state2[sl] != state[sl] or outs2 != [outs[i] for i, _o in own]:
            res.fail("oracle", {"op": "dir_ops", "ops": desc, "pair": [sl[0], sl[1][:8]]},
                     {"why": "calls for other step names / keys changed what the calls for this pair produce",
                      "interleaved": {"outcomes": [outs[i] for i, _o in own], "files": state[sl]},
                      "alone": {"outcomes": outs2, "files": state2[sl]}})


def shard(seed, idx, n, tier):
    res = core.Result()
    rng = core.rng_for(seed, "c12", idx)
    for _ in range(n):
        one_history(rng, res)
    for _ in range(3 * n):
        tampered_prelim(rng, res)
    for _ in range(n):
        interleaved(rng, res)
    for _ in range(2 * n):
        interleaved_random(rng, res)
    for _ in range(2 * n):
        failing_stop_then_retry(rng, res)
    for _ in range(n):
        other_steps_prelim(rng, res)
    for j_ in range(n):
        stop_products_tree(rng, res, no=idx * n + j_)
    legacy_key_history(rng, res, idx)
    if idx < 9:
        gpg_default_history(rng, res, idx)
    for _ in range(max(1, n)):
        copied_prelim_case(rng, res)
    from harness import cliequiv
    for _ in range(max(2, n)):
        cliequiv.equiv_case(rng, res, "record")       # in-toto-record start / stop vs the library calls they stand for
    from harness import clicall                       # ... and which library call each makes, argument by argument
    for _ in range(max(4, 2 * n)):
        clicall.one_case(rng, res, "record_start")
        clicall.one_case(rng, res, "record_stop")
    return res


def run(tier, seed):
    per = 2 if tier == "quick" else 30
    return core.parallel(core.call, [(shard, (seed, i, per, tier)) for i in range(16)])


def replay(case):
    return {"note": "histories are regenerated from the seed; the case names the crash point", "case": case}


def search(failure, tier, seed):
    res = core.parallel(core.call, [(shard, (seed + 1000 + i, i, 3, tier)) for i in range(16)])
    for f in res.failures:
        if f["kind"] == "oracle":
            return f
    return None
