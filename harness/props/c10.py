"""C10 — artifact recording is complete, exact and never silently drops a file.

Random trees are materialised on disk and recorded with the real
`record_artifacts_as_dict`; the same tree (links resolved), the same options and
an exclusion table computed with pathspec go to the Lean `recordArtifacts`.
Oracle: an independent reference recorder over the tree description."""
import os
import posixpath
import shutil
import tempfile

from harness import core, tree as T

RULE = ("random trees (depth <= 4, empty directories and files, binary / CRLF content, unicode and glob-like names, "
        "symlinks to files / directories / nowhere) x start-path lists (files, directories, '.', './x', overlapping, "
        "file:-prefixed, mixed, missing) x exclude patterns x base path x prefix-strip lists (incl. colliding and "
        "overlapping) x follow x line-ending normalisation; op normpath on random short strings. Non-trivial: at least "
        "two files recorded or an error raised; distinct by description.")
ASSUMPTIONS = ["exclusion semantics are pathspec's (a table computed with pathspec itself is passed to the model)",
               "SHA-256 is computed by the harness (hashlib); the model carries digests",
               "file names contain no backslash; directory links are acyclic; '..' in start paths is not generated"]
# (root-anchored and slash-containing patterns name a directory relative to the base: a directory of the same name
#  deeper in the tree is not excluded by them)
PATTERNS = [[], [], ["*.pyc"], ["sub"], ["sub/"], ["*.txt", "!bar.txt"], ["deep/*"], ["/a"], ["**/lib"], ["x y"], [".*"], ["*~", "*.link"],
            ["/sub"], ["/lib", "/deep"], ["/sub/deep"], ["lib/sub"], ["/a", "/b", "/foo"]]


def gen_starts(rng, tree):
    paths = [p for p, _n in T.all_paths(tree)]
    starts = []
    for _ in range(rng.randrange(1, 4)):
        r = rng.random()
        if r < 0.2 or not paths:
            s = rng.choice([".", "./", ""])
            if s == "":
                s = "."
        elif r < 0.95:
            s = rng.choice(paths)
            if rng.random() < 0.2:
                s = "./" + s
            if rng.random() < 0.1:
                s = s + "/"
            if rng.random() < 0.1:
                s = s.replace("/", "//", 1)
        else:
            s = rng.choice(["missing", "sub/none", "a/b/c"])
        if rng.random() < 0.2:
            s = "file:" + s
        starts.append(s)
    return starts


def gen_lstrip(rng, tree, starts):
    r = rng.random()
    if r < 0.55:
        return None
    dirs = [p + "/" for p, n in T.all_paths(tree) if n[0] in ("d", "l")]
    if not dirs:
        return None
    nested = [x for x in dirs if x.count("/") >= 2]
    if nested and rng.random() < 0.3:
        # a later prefix that matches what is left once an earlier one was stripped ("out/", "pkg/" for out/pkg/f):
        # exactly one prefix, the first matching one, is stripped
        comps = rng.choice(nested).split("/")
        cut = rng.randrange(1, len(comps) - 1)
        out = ["/".join(comps[:cut]) + "/", comps[cut] + "/"]
        if rng.random() < 0.3:
            out.reverse()
        return out
    k = rng.randrange(1, 3)
    out = rng.sample(dirs, min(k, len(dirs)))
    if rng.random() < 0.05:
        out.append("")            # empty prefix: overlaps everything
    if rng.random() < 0.2:
        out = [rng.choice(["", "./"]) + x for x in out]
    return out


def impl_record(d, base, starts, patterns, follow, normalize, lstrip, use_setting):
    import in_toto.runlib as rl
    import in_toto.settings as st
    from in_toto.exceptions import PrefixError
    cwd = os.getcwd()
    old = st.ARTIFACT_BASE_PATH
    try:
        if base is None:
            os.chdir(d)
            kw = {}
        elif use_setting:
            st.ARTIFACT_BASE_PATH = d
            kw = {}
        else:
            kw = {"base_path": d}
        try:
            r = rl.record_artifacts_as_dict(list(starts), exclude_patterns=list(patterns) or None, follow_symlink_dirs=follow,
                                            normalize_line_endings=normalize, lstrip_paths=lstrip, **kw)
            out = {"ok": sorted([k, v["sha256"]] for k, v in r.items())}
        except PrefixError:
            out = {"err": "PrefixError"}
        except Exception as e:  # pylint: disable=broad-except
            out = {"err": type(e).__name__}
        out["cwd_restored"] = os.getcwd() == (d if base is None else cwd)
        return out
    finally:
        st.ARTIFACT_BASE_PATH = old
        os.chdir(cwd)


def nest_same_names(rng, tree):
    """Repeats the name of a top-level directory one or two levels further down (with a file inside)."""
    tops = [n for n, nd in tree.items() if nd[0] == "d"]
    if not tops:
        return
    name = rng.choice(tops)
    host = rng.choice(tops)
    inner = tree[host][1]
    if rng.random() < 0.5 and any(nd[0] == "d" for nd in inner.values()):
        inner = rng.choice([nd for nd in inner.values() if nd[0] == "d"])[1]
    if name not in inner:
        inner[name] = ("d", {"inner.txt": ("f", b"inner %d\n" % rng.randrange(9))})


def one_case(rng, res):
    tree = T.gen_tree(rng)
    if rng.random() < 0.35:
        nest_same_names(rng, tree)
    if rng.random() < 0.3:
        T.add_order_siblings(rng, tree, rng.randrange(1, 3))
    if rng.random() < 0.6:
        T.add_symlinks(rng, tree, rng.randrange(1, 4))
    starts = gen_starts(rng, tree)
    if rng.random() < 0.15:
        # several top-level entries side by side, directories first: "pkg" then "pkg.tar", "src" then "src2"
        tops = sorted(tree, key=lambda n_: (tree[n_][0] != "d", n_))
        if len(tops) >= 2:
            starts = tops[: rng.randrange(2, min(len(tops), 5) + 1)]
    patterns = rng.choice(PATTERNS)
    follow = rng.random() < 0.5
    normalize = rng.random() < 0.3
    lstrip = gen_lstrip(rng, tree, starts)
    base = rng.choice([None, "arg", "setting"])
    desc = {"starts": starts, "patterns": patterns, "follow": follow, "normalize": normalize, "lstrip": lstrip,
            "base": base, "tree": sorted((p, n[0] if n[0] != "l" else "l->" + n[1]) for p, n in T.all_paths(tree))}
    d = tempfile.mkdtemp(prefix="verif-c10-")
    try:
        T.materialise(tree, d)
        # default exclude patterns apply when none are given
        import in_toto.settings as st
        eff_patterns = patterns or list(st.ARTIFACT_EXCLUDE_PATTERNS)
        i = impl_record(d, base, starts, patterns, follow, normalize, lstrip, base == "setting")
        # "valued by the SHA-256 of the file's content at that moment": the same directory recorded again in the same
        # process after a file changed in place, keeping its size and time stamps
        rerecord = None
        files = [(p_, n_) for p_, n_ in T.all_paths(tree) if n_[0] == "f" and n_[1]]
        if files and "ok" in i and rng.random() < 0.25:
            vp, vn = rng.choice(files)
            fp = os.path.join(d, vp)
            st_ = os.stat(fp)
            newc = bytes([vn[1][0] ^ 1]) + vn[1][1:]
            with open(fp, "r+b") as f:
                f.write(newc)
            os.utime(fp, ns=(st_.st_atime_ns, st_.st_mtime_ns))
            cur = tree
            comps = vp.split("/")
            for c_ in comps[:-1]:
                cur = cur[c_][1]
            old_node = cur[comps[-1]]
            cur[comps[-1]] = ("f", newc)
            i2 = impl_record(d, base, starts, patterns, follow, normalize, lstrip, base == "setting")
            ref2 = T.reference_record(tree, starts, eff_patterns, follow, normalize, lstrip or [])
            cur[comps[-1]] = old_node
            rerecord = (vp, i2, ref2)
    finally:
        shutil.rmtree(d, ignore_errors=True)
    if rerecord is not None:
        vp, i2, ref2 = rerecord
        res.evaluations += 1
        res.count("rerecorded_after_in_place_change")
        if ref2[0] == "ok" and {k: v for k, v in i2.items() if k != "cwd_restored"} != {"ok": sorted([k, v] for k, v in ref2[1].items())}:
            res.fail("oracle", {"op": "record", "desc": dict(desc, changed_in_place=vp)},
                     {"why": "recorded again after %r changed in place (same size, same time stamps): the recording is not the "
                             "content at that moment" % vp, "impl": i2.get("ok", i2), "expected": sorted([k, v] for k, v in ref2[1].items())})
    cands = T.candidate_paths(tree, starts)
    req = {"op": "record", "root": T.model_node(tree, tree), "artifacts": starts,
           "excl": T.exclusion_table(eff_patterns, cands), "follow": follow, "normalize": normalize, "lstrip": lstrip or []}
    m = core.driver().call(req)
    if "ok" in m:
        m = {"ok": sorted([k, v["digest"]] for k, v in m["ok"])}
    i_cmp = {k: v for k, v in i.items() if k != "cwd_restored"}
    agreed = i_cmp == m
    nontrivial = ("ok" in i and len(i["ok"]) >= 2) or "err" in i
    res.case({"desc": desc, "impl": i_cmp if "err" in i else {"n_entries": len(i["ok"])}}, nontrivial, agreed, sample_cap=2)
    res.count("outcome_" + ("ok" if "ok" in i else i["err"]))
    res.count("base_%s" % base); res.count("lstrip_%s" % bool(lstrip)); res.count("follow_%s" % follow)
    if "ok" in i:
        res.count("entries_%s" % min(len(i["ok"]), 8))
    if not agreed:
        res.fail("disagree", {"op": "record", "desc": desc, "request": req}, {"op": "record", "impl": i_cmp, "model": m})
    # oracle
    ref = T.reference_record(tree, starts, eff_patterns, follow, normalize,
                             lstrip or [])
    lstrip_bad = False
    if lstrip:
        for a in range(len(lstrip)):
            for b in range(a + 1, len(lstrip)):
                if lstrip[a].startswith(lstrip[b]) or lstrip[b].startswith(lstrip[a]):
                    lstrip_bad = True
    if lstrip_bad:
        if i.get("err") != "PrefixError":
            res.fail("oracle", {"op": "record", "desc": desc, "request": req},
                     {"why": "overlapping strip prefixes were not rejected", "impl": i_cmp})
    elif ref[0] == "ok":
        exp = sorted([k, v] for k, v in ref[1].items())
        if i_cmp != {"ok": exp}:
            res.fail("oracle", {"op": "record", "desc": desc, "request": req},
                     {"why": "recording differs from 'one entry per reachable, non-excluded regular file, keyed by the "
                             "normalised stripped path, valued by its SHA-256'", "impl": i_cmp, "expected": exp})
    elif ref[0] == "collision":
        if "ok" in i:
            res.fail("oracle", {"op": "record", "desc": desc, "request": req},
                     {"why": "two files map to the same name %r after prefix stripping but the recording succeeded "
                             "(one of them silently dropped)" % ref[1], "impl": i_cmp})
    else:
        res.count("reached_twice_not_judged")   # loud over-rejection (DESIGN 4.3)
    if not i["cwd_restored"]:
        res.fail("oracle", {"op": "record", "desc": desc, "request": req}, {"why": "working directory not restored", "impl": i_cmp})


CORPUS = [
    # D4: collision hidden by the file: prefix
    {"tree": {"a": ("d", {"x": ("f", b"1")}), "b": ("d", {"x": ("f", b"2")})}, "starts": ["file:a", "file:b"],
     "lstrip": ["a/", "b/"]},
    {"tree": {"a": ("d", {"x": ("f", b"1")}), "b": ("d", {"x": ("f", b"2")})}, "starts": ["a", "b"],
     "lstrip": ["a/", "b/"]},
]


def shard_corpus():
    res = core.Result()
    for c in CORPUS:
        d = tempfile.mkdtemp(prefix="verif-c10-")
        try:
            T.materialise(c["tree"], d)
            i = impl_record(d, "arg", c["starts"], [], False, False, c["lstrip"], False)
        finally:
            shutil.rmtree(d, ignore_errors=True)
        import in_toto.settings as st
        req = {"op": "record", "root": T.model_node(c["tree"], c["tree"]), "artifacts": c["starts"],
               "excl": T.exclusion_table(list(st.ARTIFACT_EXCLUDE_PATTERNS), T.candidate_paths(c["tree"], c["starts"])),
               "follow": False, "normalize": False, "lstrip": c["lstrip"]}
        m = core.driver().call(req)
        i_cmp = {k: v for k, v in i.items() if k != "cwd_restored"}
        ok = i_cmp == m == {"err": "PrefixError"}
        res.case({"corpus": "D4", "starts": c["starts"], "impl": i_cmp}, True, ok)
        if i_cmp != m:
            res.fail("disagree", {"op": "record", "desc": {"corpus": "D4", "starts": c["starts"]}, "request": req},
                     {"op": "record", "impl": i_cmp, "model": m})
        if "ok" in i:
            res.fail("oracle", {"op": "record", "desc": {"corpus": "D4", "starts": c["starts"], "lstrip": c["lstrip"]}, "request": req},
                     {"why": "a/x and b/x both strip to 'x' but the recording succeeded: one file silently dropped", "impl": i_cmp})
    return res


def shard_normpath(seed, idx, n):
    res = core.Result()
    rng = core.rng_for(seed, "c10", "np", idx)
    syms = ["a", "b", ".", "..", "/", "//", "x y", "é"]
    ps = ["".join(rng.choice(syms) + rng.choice(["", "/", "/"]) for _ in range(rng.randrange(0, 6))) for _ in range(n)]
    m = core.driver().call({"op": "normpath", "paths": ps})["ok"]
    for p, mm in zip(ps, m):
        i = posixpath.normpath(p)
        res.case({"path": p, "normpath": i}, "/" in p, i == mm, sample_cap=1)
        if i != mm:
            res.fail("disagree", {"op": "normpath", "path": p}, {"op": "normpath", "impl": i, "model": mm})
    return res


def mixed_scheme_case(rng, res):
    """A path list that mixes plain paths with `dir:` artifacts in any position (first, in the middle, last, several):
    every listed path is recorded - the union of what each entry alone records."""
    import hashlib
    import in_toto.settings as st
    tree = {"README.txt": ("f", b"read me\n"),
            "src": ("d", {"a.c": ("f", b"int a;\n"), "sub": ("d", {"b.c": ("f", b"int b;\n")})}),
            "vendor": ("d", {"lib.a": ("f", b"lib\n"), "inc": ("d", {"h.h": ("f", b"h\n")})}),
            "docs": ("d", {"index.md": ("f", b"# %d\n" % rng.randrange(99))}),
            "third": ("d", {"x": ("f", b"x\n")}), "Makefile": ("f", b"all:\n")}
    plain = rng.sample(["README.txt", "src", "docs", "Makefile"], rng.randrange(1, 5))
    dirs = rng.sample(["vendor", "third"], rng.randrange(1, 3))
    starts = list(plain)
    for dname in dirs:
        starts.insert(rng.randrange(0, len(starts) + 1), "dir:" + dname)
    patterns = list(st.ARTIFACT_EXCLUDE_PATTERNS)
    d = tempfile.mkdtemp(prefix="verif-c10m-")
    try:
        T.materialise(tree, d)
        i = impl_record(d, None, starts, [], False, False, None, False)
    finally:
        shutil.rmtree(d, ignore_errors=True)
    i_cmp = {k: v for k, v in i.items() if k != "cwd_restored"}
    exp = {}
    for e in starts:
        if e.startswith("dir:"):
            ref = T.reference_record(tree[e[4:]][1], ["."], patterns, False, False, [])
            lines = sorted((p_.encode("utf8"), h_) for p_, h_ in ref[1].items())
            exp[e] = hashlib.sha256(b"".join(h_.encode() + b"  " + p_ + b"\n" for p_, h_ in lines)).hexdigest()
        else:
            exp.update(T.reference_record(tree, [e], patterns, False, False, [])[1])
    want = {"ok": sorted([k, v] for k, v in exp.items())}
    cands = T.candidate_paths(tree, starts + ["."])
    m = core.driver().call({"op": "record", "root": T.model_node(tree, tree), "artifacts": starts,
                            "excl": T.exclusion_table(patterns, cands), "follow": False, "normalize": False, "lstrip": []})
    if "ok" in m:
        m = {"ok": sorted([k, v["digest"] if "digest" in v else hashlib.sha256(v["text"].encode("utf8")).hexdigest()] for k, v in m["ok"])}
    case = {"op": "record_mixed_schemes", "starts": starts}
    res.case(dict(case, n=len(i_cmp.get("ok") or [])), True, i_cmp == m, sample_cap=1)
    res.count("mixed_schemes")
    if i_cmp != m:
        res.fail("disagree", case, {"op": "record", "impl": i_cmp, "model": m})
    if i_cmp != want:
        res.fail("oracle", case, {"why": "a path list mixing plain paths and dir: artifacts does not record the union of what each entry records",
                                  "impl": i_cmp, "expected": want})


def unreadable_case(rng, res, scheme=""):
    """A regular file that exists and cannot be read (an I/O error on read: here a link to /proc/self/mem, which fails for
    every user): the recording fails - it does not succeed without the file."""
    if not os.path.exists("/proc/self/mem"):
        return
    tree = {"a.txt": ("f", b"a\n"), "sub": ("d", {"b.txt": ("f", b"b\n")})}
    where = rng.choice(["", "sub/"])
    name = where + rng.choice(["core.bin", "zz-last", "0-first"])
    starts = rng.choice([["."], ["a.txt", "sub", name] if not where else ["a.txt", "sub"], [name]])
    if scheme == "dir:":
        starts = ["dir:."] if False else ["dir:top"]
    d = tempfile.mkdtemp(prefix="verif-c10u-")
    try:
        root = os.path.join(d, "top") if scheme == "dir:" else d
        T.materialise(tree, root)
        os.symlink("/proc/self/mem", os.path.join(root, name))
        i = impl_record(d, None, starts, [], rng.random() < 0.5, False, None, False)
    finally:
        shutil.rmtree(d, ignore_errors=True)
    case = {"op": "record_unreadable_file", "starts": starts, "unreadable": name}
    ok = "err" in i or any(k == name or k.endswith("/" + name) for k, _v in i.get("ok", []))
    res.case(dict(case, outcome=i.get("err") or "recorded"), True, ok, sample_cap=1)
    res.count("unreadable_file")
    if not ok:
        res.fail("oracle", case, {"why": "a regular file that exists and cannot be read was silently left out of the recording",
                                  "impl": i})


BACKSLASH_PATTERNS = [["lib"], ["m.txt"], ["/lib"], ["lib/"], ["lib/*"], ["*.pyc"], ["lib", "!lib/m.txt"]]


def backslash_name_case(rng, res, no):
    """A backslash is an ordinary character of a file name here. A file `lib\\m.txt` is ONE name in the recorded directory:
    exclude patterns see that name (none of these patterns matches it), the recording has it - under the key in-toto
    writes for it, `lib/m.txt`. (The general families leave such names out: two names may then share a key.)"""
    pats = BACKSLASH_PATTERNS[no % len(BACKSLASH_PATTERNS)]
    where = ["", "src/"][(no // len(BACKSLASH_PATTERNS)) % 2]
    data = b"m %d\n" % rng.randrange(999)
    d = tempfile.mkdtemp(prefix="verif-c10b-")
    try:
        os.makedirs(os.path.join(d, "src"))
        open(os.path.join(d, where + "lib\\m.txt"), "wb").write(data)
        open(os.path.join(d, "plain.txt"), "wb").write(b"p\n")
        i = impl_record(d, None, ["."], pats, False, False, None, False)
    finally:
        shutil.rmtree(d, ignore_errors=True)
    case = {"op": "record_backslash_name", "name": where + "lib\\m.txt", "patterns": pats}
    want = [where + "lib/m.txt", T.sha(data)]
    got = [list(kv) for kv in i.get("ok", [])] if "ok" in i else None
    ok = got is not None and want in got and ["plain.txt", T.sha(b"p\n")] in got and len(got) == 2
    res.case(dict(case, impl=i), True, ok, sample_cap=1)
    res.count("backslash_name")
    if not ok:
        res.fail("oracle", case, {"why": "a file whose name contains a backslash, which no exclude pattern matches, is not in the "
                                  "recording exactly once under its name", "impl": i, "expected_entry": want})


def shard(seed, idx, n, tier):
    res = core.Result()
    rng = core.rng_for(seed, "c10", idx)
    backslash_name_case(rng, res, idx)
    for _ in range(n):
        one_case(rng, res)
    for _ in range(3):
        mixed_scheme_case(rng, res)
    unreadable_case(rng, res)
    return res


def shard_cli_equiv(seed, idx, n):
    """The command line against the library call it stands for (harness/cliequiv.py): recording through in-toto-run /
    in-toto-record with the options that matter here (exclude patterns incl. negations and directory-only ones, prefix
    stripping, base path, dir: artifacts, time limit, verbosity)."""
    from harness import cliequiv
    res = core.Result()
    rng = core.rng_for(seed, "c10", "cli_equiv", idx)
    for _ in range(n):
        for tool in ['run', 'record']:
            cliequiv.equiv_case(rng, res, tool)
    from harness import clicall
    for _ in range(2 * n):
        for t in ("run", "record_start", "record_stop"):
            clicall.one_case(rng, res, t)
    return res


def run(tier, seed):
    per = 20 if tier == "quick" else 400
    shards = [(shard, (seed, i, per, tier)) for i in range(16)] + [(shard_corpus, ())]
    shards += [(shard_normpath, (seed, i, 200 if tier == "quick" else 5000)) for i in range(4)]
    shards += [(shard_cli_equiv, (seed, i, 3 if tier == "quick" else 40)) for i in range(4)]
    return core.parallel(core.call, shards)


def replay(case):
    if case.get("op") == "normpath":
        return {"impl": posixpath.normpath(case["path"]), "model": core.driver().call({"op": "normpath", "paths": [case["path"]]})}
    if "request" not in case:
        return {"case": case, "note": "an oracle on the implementation alone; the few files are named in the case"}
    return {"desc": case.get("desc"), "model": core.driver().call(case["request"]),
            "note": "the tree is regenerated from the seed; desc.tree lists it"}


def search(failure, tier, seed):
    res = core.parallel(core.call, [(shard, (seed + 1000 + i, i, 60, tier)) for i in range(16)] + [(shard_corpus, ())])
    for f in res.failures:
        if f["kind"] == "oracle":
            return f
    return None
