"""C06 — delegated steps (sublayouts) are verified completely and recursively."""
import datetime
import json

from harness import core, scen, vcommon, world as W

RULE = ("layout trees of depth 1-3 (several functionaries of a step delegating, thresholds over mixed links and "
        "sublayouts, inspections inside sublayouts, both formats), honest or with one defect injected at a random "
        "node: sublayout signed by another authorised key, expired, edited, sub-links missing / left in the parent's "
        "directory / tampered, sub-rule violated, sub-inspection failing. Non-trivial: the tree has at least one "
        "sublayout; distinct by description.")
ASSUMPTIONS = ["signatures present are non-malleable (ground-truth table)",
               "recursion depth of the model is bounded by fuel 8 (generated trees have depth <= 3)"]
SHARED_DEFECTS = [None, "sublinks_missing", "sublinks_in_parent_dir", "sublink_tampered", "sublink_unauthorised",
                  "foreign_step_rule", "foreign_step_rule"]
DEFECTS = [None, None, "wrong_signer", "expired", "edited", "sublinks_missing", "sublinks_in_parent_dir",
           "sublink_tampered", "subrule", "subinspection_fail", "subinspection_slow", "stepless_subinspection_fail"]


def find_spec(ch, path):
    """(parent chain, step, link spec) of the sub chain at `path`."""
    cur = ch
    for (si, li) in path[:-1]:
        cur = cur.steps[si]["links"][li]["sub"]
    si, li = path[-1]
    return cur, cur.steps[si], cur.steps[si]["links"][li]


def make_stepless(ch, path):
    """The sub chain at `path` becomes a layout without steps (its inspections stay). At depth 1 it is also made the only
    evidence of its step, in a root layout that does not mind a summary link without artifacts (returns True)."""
    parent, pstep, spec = find_spec(ch, path)
    spec["sub"].steps = []
    if len(path) != 1:
        return False
    pstep["links"] = [spec]
    pstep["keys"] = [spec["k"]]
    pstep["threshold"] = 1
    for s_ in parent.steps:
        s_["rules"] = ([["ALLOW", "*"]], [["ALLOW", "*"]])
    for x in parent.inspections:
        x["rules_m"] = x["rules_p"] = [["ALLOW", "*"]]
    return True


def clone_sub(sub, owner):
    """Same layout content, signed by another functionary, with its own (separately specified) sub-links."""
    import copy
    c = copy.copy(sub)
    c.owners = [owner]
    c.steps = []
    for s in sub.steps:
        s2 = dict(s)
        s2["links"] = [dict(l) for l in s["links"]]
        c.steps.append(s2)
    return c


def gen_shared_case(rng, root):
    """Two functionaries of one step (threshold 2) hand in the SAME sublayout content; the one listed
    later may have broken sub-links. Each delegation must be verified on its own."""
    pool = W.pool()
    ch = scen.gen_chain(rng, root, n_steps=rng.choice([1, 2]), n_insp=rng.choice([0, 1]), thresholds=(1,), max_funcs=1)
    si = rng.randrange(len(ch.steps))
    st = ch.steps[si]
    k1, k2 = rng.sample([k for k in pool if k not in ch.owners], 2)
    first = {p: b"x" for p in st["materials"]}
    sub1 = scen.gen_chain(rng, root, n_steps=rng.choice([1, 2]), n_insp=0, thresholds=(1,), max_funcs=1, owners=[k1],
                          prefix=st["name"] + "sh", fmt_mode="mixed")
    # make the sub chain's boundary artifacts those of the parent step
    sub1.steps[0]["materials"] = st["materials"]
    for ls in sub1.steps[0]["links"]:
        ls["materials"] = st["materials"]
    sub1.steps[-1]["products"] = st["products"]
    for ls in sub1.steps[-1]["links"]:
        ls["products"] = st["products"]
    sub1.closed = False
    for s_ in sub1.steps:
        s_["rules"] = ([["ALLOW", "*"]], [["ALLOW", "*"]])
    sub2 = clone_sub(sub1, k2)
    fmt = rng.choice(["metablock", "dsse"])
    st["keys"] = [k1, k2]
    st["pubkeys"] = [k1.keyid, k2.keyid]
    st["threshold"] = 2
    st["links"] = [scen.link_spec(k1, fmt, st["name"], st["materials"], st["products"], sub=sub1),
                   scen.link_spec(k2, fmt, st["name"], st["materials"], st["products"], sub=sub2)]
    for k in (k1, k2):
        ch.layout_keys[k.keyid] = k.pub
    defect = rng.choice(SHARED_DEFECTS)
    which = rng.choice(["second", "second", "first"])
    target = sub2 if which == "second" else sub1
    if defect == "sublinks_missing":
        rng.choice(target.steps)["links"] = []
    elif defect == "sublinks_in_parent_dir":
        target.links_dir_override = "links"
    elif defect == "sublink_tampered":
        for ls in rng.choice(target.steps)["links"]:
            ls["tamper"] = rng.choice(["sig", "content_fixed", "unsigned"])
    elif defect == "sublink_unauthorised":
        tstep = rng.choice(target.steps)
        stranger = [k for k in pool if k not in ch.owners and k not in (k1, k2) and k not in tstep["keys"]][0]
        for ls in tstep["links"]:
            ls["signer"] = stranger
    elif defect == "foreign_step_rule":
        # the second functionary's sublayout has its own step names and a rule that refers to a step of the FIRST
        # functionary's sublayout (verified just before, same artifacts): a sublayout is verified on its own, so the
        # rule finds no such step, consumes nothing, and DISALLOW * rejects
        which = "second"
        for s_ in sub2.steps:
            new_name = s_["name"] + "o"
            for ls in s_["links"]:
                ls["name"] = new_name
            s_["name"] = new_name
        last = sub2.steps[-1]
        last["rules"] = (last["rules"][0], [["MATCH", "*", "WITH", "PRODUCTS", "FROM", sub1.steps[-1]["name"]], ["DISALLOW", "*"]])
        if not st["products"]:
            defect = None
    desc = {"depth": 1, "n_sublayouts": 2, "defect": defect and "shared:" + defect, "shared_sublayout": True,
            "bad_functionary": which if defect else None, "expected_accept": defect is None}
    return ch, desc


def gen_dotted_sibling_case(rng, root):
    """Two steps delegated to the SAME functionary, the name of one extending the other's by a dot and more ('pkg' and
    'pkg.deb'): each sublayout's links lie in the directory named after its own step and the key - 'pkg.<key>/' is not
    where the links of 'pkg.deb' are looked for. The links of one of the two sublayouts may be missing."""
    pool = W.pool()
    ch = scen.gen_chain(rng, root, n_steps=2, n_insp=0, thresholds=(1,), max_funcs=1)
    ch.closed = False
    k1 = rng.choice([k for k in pool if k not in ch.owners])
    ch.layout_keys[k1.keyid] = k1.pub
    base = rng.choice(["pkg", "build", "a"])
    names = [base, base + rng.choice([".deb", ".x86", ".1"])]
    if rng.random() < 0.5:
        names.reverse()
    inner = scen.gen_chain(rng, root, n_steps=rng.choice([1, 2]), n_insp=0, thresholds=(1,), max_funcs=1, owners=[k1],
                           prefix="in", fmt_mode="mixed")
    inner.closed = False
    for s_ in inner.steps:
        s_["rules"] = ([["ALLOW", "*"]], [["ALLOW", "*"]])
    fmt = rng.choice(["metablock", "dsse"])
    subs = []
    for st, nm in zip(ch.steps, names):
        st["name"] = nm
        st["rules"] = ([["ALLOW", "*"]], [["ALLOW", "*"]])
        sub = clone_sub(inner, k1)
        sub.steps[0]["materials"] = st["materials"]
        for ls in sub.steps[0]["links"]:
            ls["materials"] = st["materials"]
        sub.steps[-1]["products"] = st["products"]
        for ls in sub.steps[-1]["links"]:
            ls["products"] = st["products"]
        st["keys"], st["pubkeys"], st["threshold"] = [k1], [k1.keyid], 1
        st["links"] = [scen.link_spec(k1, fmt, nm, st["materials"], st["products"], sub=sub)]
        subs.append(sub)
    defect = rng.choice([None, "sublinks_missing", "sublinks_missing"])
    which = None
    if defect:
        which = rng.randrange(2)
        for s_ in subs[which].steps:
            s_["links"] = []
    desc = {"depth": 1, "n_sublayouts": 2, "defect": defect and "dotted_sibling:" + defect, "step_names": names,
            "links_missing_for": names[which] if defect else None, "expected_accept": defect is None}
    return ch, desc


def gen_empty_last_substep_case(rng, root):
    """A delegated layout whose LAST step records no products (a test / scan / sign-off step) while an earlier one does:
    the summary link carries the last step's products - none -, not those of the last step that has some."""
    pool = W.pool()
    ch = scen.gen_chain(rng, root, n_steps=rng.choice([1, 2]), n_insp=0, thresholds=(1,), max_funcs=1)
    ch.closed = False
    for s_ in ch.steps:
        s_["rules"] = ([["ALLOW", "*"]], [["ALLOW", "*"]])
    st = ch.steps[-1]
    k1 = rng.choice([k for k in pool if k not in ch.owners])
    ch.layout_keys[k1.keyid] = k1.pub
    inner = scen.gen_chain(rng, root, n_steps=rng.choice([2, 3]), n_insp=0, thresholds=(1,), max_funcs=1, owners=[k1],
                           prefix="in", fmt_mode="mixed")
    inner.closed = False
    for s_ in inner.steps:
        s_["rules"] = ([["ALLOW", "*"]], [["ALLOW", "*"]])
    inner.steps[0]["materials"] = st["materials"]
    for ls in inner.steps[0]["links"]:
        ls["materials"] = st["materials"]
    inner.steps[-1]["products"] = {}
    for ls in inner.steps[-1]["links"]:
        ls["products"] = {}
    st["products"] = {}
    st["keys"], st["pubkeys"], st["threshold"] = [k1], [k1.keyid], 1
    st["links"] = [scen.link_spec(k1, rng.choice(["metablock", "dsse"]), st["name"], st["materials"], {}, sub=inner)]
    desc = {"depth": 1, "n_sublayouts": 1, "defect": None, "last_substep_without_products": True, "expected_accept": True}
    return ch, desc


def gen_case(rng, root, defect="draw"):
    r_ = rng.random() if defect == "draw" else 1.0
    if defect == "empty_last_substep":
        return gen_empty_last_substep_case(rng, root)
    if defect == "shared":
        return gen_shared_case(rng, root)
    if r_ < 0.1:
        return gen_dotted_sibling_case(rng, root)
    if r_ < 0.37:
        return gen_shared_case(rng, root)
    depth = rng.choice([1, 2, 2, 3])
    for _ in range(20):
        ch = scen.gen_chain(rng, root, n_steps=rng.choice([1, 2, 3]), n_insp=rng.choice([0, 1]),
                            thresholds=(1, 1, 2), max_funcs=3, depth=depth, sub_prob=0.55)
        subs = [(c, p) for c, p in scen.walk(ch) if p]
        if subs:
            break
    if defect == "draw":
        defect = rng.choice(DEFECTS)
    desc = {"depth": max(len(p) for _c, p in subs) if subs else 0, "n_sublayouts": len(subs), "defect": defect}
    if defect and subs:
        sub, path = rng.choice(subs)
        parent, pstep, spec = find_spec(ch, path)
        desc["at_depth"] = len(path)
        # the defect is decisive (the delegating functionary's evidence is necessary) - or, for defects that make the
        # delegated layout itself fail, it is NOT: the step has enough other evidence and asks for less than it has.
        # A failure anywhere in the tree fails the whole verification either way.
        fails_sub = defect in ("expired", "sublinks_missing", "sublinks_in_parent_dir", "sublink_tampered", "subrule",
                               "subinspection_fail", "subinspection_slow")
        if fails_sub and len(pstep["links"]) >= 2 and rng.random() < 0.5:
            pstep["threshold"] = 1
            desc["decisive"] = False
        else:
            pstep["threshold"] = len(pstep["links"])
        if defect == "wrong_signer":
            others = [k for k in pstep["keys"] if k is not spec["k"]] or [k for k in W.pool() if k is not spec["k"]]
            sub.owners = [rng.choice(others)]
        elif defect == "expired":
            sub.expires = vcommon.expired_instant(rng)
        elif defect == "edited":
            spec["tamper"] = "content_fixed"
        elif defect == "sublinks_missing":
            rng.choice(sub.steps)["links"] = []
        elif defect == "sublinks_in_parent_dir":
            sub.links_dir_override = "links" if len(path) == 1 else None
            if sub.links_dir_override is None:
                # parent's directory of a nested sublayout
                d = "links"
                cur = ch
                for (si, li) in path[:-1]:
                    st = cur.steps[si]; ls = st["links"][li]
                    d += "/%s.%s" % (st["name"], ls["kid"][:8]); cur = ls["sub"]
                sub.links_dir_override = d
        elif defect == "sublink_tampered":
            st = rng.choice(sub.steps)
            for ls in st["links"]:
                ls["tamper"] = rng.choice(["sig", "content_fixed", "unsigned"])
            st["threshold"] = max(st["threshold"], 1)
        elif defect == "subrule":
            st = rng.choice(sub.steps)
            st["rules"] = ([["DISALLOW", "*"]] if st["materials"] else [["REQUIRE", "nothing"]], [["REQUIRE", "not-there"]])
        elif defect == "subinspection_fail":
            sub.inspections = [{"name": "failing", "ident": "f%d" % rng.randrange(1000), "action": "exit1"}]
        elif defect == "stepless_subinspection_fail":
            # a delegated layout without steps is still a layout: its inspections run and must pass
            sub.inspections = [{"name": "failing", "ident": "f%d" % rng.randrange(1000), "action": "exit1"}]
            desc["decisive"] = make_stepless(ch, path)
        elif defect == "subinspection_slow":
            # (the verifier's time limit - 5 s here, see one_case - applies at every depth; the command sleeps 8.5 s,
            #  which is within the 10 s default)
            sub.inspections = [{"name": "slow", "ident": "w%d" % rng.randrange(1000), "action": "sleep"}]
    else:
        desc["defect"] = None
    desc["expected_accept"] = desc["defect"] is None
    return ch, desc


def one_case(rng, res, defect="draw"):
    root = scen.new_root()
    try:
        ch, desc = gen_case(rng, root, defect)
        scn = scen.build(ch, root, rng)
        scn.params = vcommon.pick_params(rng, desc)
        vcommon.pick_tz(rng, scn, desc)
        if desc["defect"] == "subinspection_slow":
            scn.meta["inspect_timeout"] = 5
        i, m, _ = vcommon.run_case(scn, desc, res, desc["n_sublayouts"] > 0)
        res.count("defect_%s" % desc["defect"]); res.count("depth_%d" % desc["depth"])
        if vcommon.accepted(i):
            if not desc["expected_accept"]:
                vcommon.oracle_fail(res, scn, desc, "root accepted although a sublayout in the tree is bad (%s)" % desc["defect"], i)
            s = json.loads(i["result"]["ok"])
            if s["materials"] != ch.steps[0]["materials"] or s["products"] != ch.steps[-1]["products"]:
                vcommon.oracle_fail(res, scn, desc, "summary link is not first step's materials + last step's products", i)
        elif desc["expected_accept"]:
            res.fail("disagree", vcommon.replayable(scn, desc), {"op": "verify", "why": "honest tree rejected",
                                                                 "impl": vcommon.short(i), "model": vcommon.short(m)})
    finally:
        scen.drop_root(root)


def second_evidence_case(rng, res, no):
    """ONE gpg functionary hands in two pieces of evidence for a step, under two of its signing subkeys: an ordinary link
    and a delegated layout that does not verify (its own links are missing / it has expired). The threshold (1) is met by
    the link; the delegated layout is evidence that was handed in and authenticated - it is verified like every other,
    and the root fails. Both load orders (which subkey carries which) are generated."""
    if not W.gpg_available():
        return
    g = W.gpg_key("two_subs")
    subs = [x for x in (g.pub.get("subkeys") or {}) if x in W.SIGNING_SUBKEYS]
    if len(subs) < 2:
        return
    if no % 2:
        subs = subs[::-1]
    sk_link, sk_lay = W.gpg_key("two_subs", subs[0]), W.gpg_key("two_subs", subs[1])
    bad = ["sublinks_missing", "expired"][(no // 2) % 2]
    root = scen.new_root()
    try:
        ch = scen.gen_chain(rng, root, n_steps=1, n_insp=0, thresholds=(1,), max_funcs=1, fmt_mode="metablock")
        ch.closed = False
        st = ch.steps[0]
        st["rules"] = ([["ALLOW", "*"]], [["ALLOW", "*"]])
        st["keys"], st["pubkeys"], st["threshold"] = [g], [g.keyid], 1
        ch.layout_keys[g.keyid] = g.pub
        sub = scen.gen_chain(rng, root, n_steps=1, n_insp=0, thresholds=(1,), max_funcs=1, owners=[sk_lay],
                             prefix=st["name"] + "sub", fmt_mode="metablock")
        sub.layout_fmt = "metablock"
        sub.closed = False
        sub.steps[0]["rules"] = ([["ALLOW", "*"]], [["ALLOW", "*"]])
        sub.steps[0]["materials"], sub.steps[0]["products"] = st["materials"], st["products"]
        if bad == "sublinks_missing":
            sub.steps[0]["links"] = []
        else:
            sub.expires = vcommon.expired_instant(rng)
        st["links"] = [scen.link_spec(sk_link, "metablock", st["name"], st["materials"], st["products"], signer=sk_link, kid=sk_link.keyid),
                       scen.link_spec(sk_lay, "metablock", st["name"], st["materials"], st["products"], signer=sk_lay, kid=sk_lay.keyid, sub=sub)]
        desc = {"family": "second_evidence_of_one_functionary", "defect": bad, "layout_under": "later subkey" if no % 2 == 0 else "earlier subkey",
                "depth": 1, "n_sublayouts": 1, "expected_accept": False}
        scn = scen.build(ch, root, rng)
        i, _m, _ = vcommon.run_case(scn, desc, res, True)
        res.count("second_evidence_%s" % bad)
        if vcommon.accepted(i):
            vcommon.oracle_fail(res, scn, desc, "root accepted although a delegated layout handed in by an authorised functionary "
                                "(second evidence of the same gpg key) does not verify (%s)" % bad, i)
    finally:
        scen.drop_root(root)


def shard(seed, idx, n, tier):
    res = core.Result()
    rng = core.rng_for(seed, "c06", idx)
    if idx < 8:
        second_evidence_case(rng, res, idx)
    # every kind of defect occurs in every run (cycled through, not drawn)
    kinds = [d_ for d_ in dict.fromkeys(DEFECTS) if d_]
    for j in range(n):
        c_ = idx * n + j
        one_case(rng, res, defect=(kinds + ["empty_last_substep"])[(c_ // 3) % (len(kinds) + 1)] if c_ % 3 == 0 else "draw")
    return res


def run(tier, seed):
    per = 10 if tier == "quick" else 160
    return core.parallel(core.call, [(shard, (seed, i, per, tier)) for i in range(16)])


replay = vcommon.replay
search = vcommon.generic_search(shard)
