"""C13 — recorded stdout / stderr / exit status are exact under every output schedule.

The real `_subprocess_run_duplicate_streams` runs against a scripted `Popen`:
each `poll()` first performs the next scheduled child writes with `os.write` on
the very file descriptors in-toto passed as stdout= / stderr=, then returns None
or the scripted exit status; `time.time` is scripted likewise. The interleaving
of child writes and parent reads is thus deterministic while the real loop, the
real readers / decoders and the real cleanup run."""
import contextlib
import io
import itertools
import os
import shutil
import subprocess
import sys
import tempfile
import types

from harness import core

RULE = ("schedules of 1-6 polls; per poll the child writes chunks (sizes around and far above the 8192-byte read size, on "
        "either stream) whose boundaries fall inside multi-byte characters and between CR and LF, then stays alive or exits "
        "with a status in 0..255 or a negative one (signal); clocks below and above the time limit; invalid UTF-8; "
        "exhaustive for <= 3 polls over a 5-chunk alphabet; plus real child processes (real capture files, polling and clock) "
        "writing chunks with delays from none to longer than a polling iteration and ending with a status or a signal. Non-trivial: at least two polls and >= 2 bytes written; "
        "distinct by schedule.")
ASSUMPTIONS = ["the child's behaviour is its schedule (what has been written by each poll, status, clock); kernel scheduling, "
               "real timing and a child that ignores SIGKILL are not modelled",
               "the model's incremental UTF-8 decoder is chunking-independent (proved: utf8Decoder_chunkIndependent) and is CPython's "
               "(compared on every schedule)",
               "PYTHONUTF8=1: the preferred encoding is UTF-8"]

TEXTS = ["abc", "é", "😀x", "l1\r\nl2", "cr\r", "\nlf", "\r\r\n", "日本語", "", "end\n", "x" * 100]
ALPHA = [b"a", b"\xc3", b"\xa9", b"\r", b"\n"]


class Ev:
    def __init__(self, out=b"", err=b"", status=None, clock=0):
        self.out, self.err, self.status, self.clock = out, err, status, clock

    def as_json(self):
        return {"out": self.out.hex(), "err": self.err.hex(), "status": self.status, "clock": self.clock}


class _Script:
    sched = []
    now = 0.0
    instances = []


class FakePopen:
    def __init__(self, cmd, stdout=None, stderr=None, universal_newlines=None, **kw):
        self.out_fd, self.err_fd = stdout.fileno(), stderr.fileno()
        self.i = 0
        self.returncode = None
        self.killed = self.waited = False
        _Script.instances.append(self)

    def poll(self):
        if self.returncode is not None:
            return self.returncode
        ev = _Script.sched[self.i]
        self.i += 1
        if ev.out:
            os.write(self.out_fd, ev.out)
        if ev.err:
            os.write(self.err_fd, ev.err)
        _Script.now = float(ev.clock)
        if ev.status is not None:
            self.returncode = ev.status
        return ev.status

    def kill(self):
        self.killed = True

    def wait(self, timeout=None):
        self.waited = True
        return -9


def impl_run(sched, timeout):
    import in_toto.runlib as rl
    _Script.sched, _Script.now, _Script.instances = sched, 0.0, []
    shim_sub = types.SimpleNamespace(Popen=FakePopen, TimeoutExpired=subprocess.TimeoutExpired, run=subprocess.run,
                                     DEVNULL=subprocess.DEVNULL, PIPE=subprocess.PIPE)
    shim_time = types.SimpleNamespace(time=lambda: _Script.now, sleep=lambda s: None)
    old_sub, old_time = rl.subprocess, rl.time
    tmp = tempfile.mkdtemp(prefix="verif-c13-")
    old_tmp = tempfile.tempdir
    tempfile.tempdir = tmp
    rl.subprocess, rl.time = shim_sub, shim_time
    try:
        with contextlib.redirect_stdout(io.StringIO()), contextlib.redirect_stderr(io.StringIO()):
            try:
                code, out, err = rl._subprocess_run_duplicate_streams(["scripted"], timeout)  # pylint: disable=protected-access
                res = {"returned": [str(code), out, err]}
            except subprocess.TimeoutExpired:
                p = _Script.instances[-1] if _Script.instances else None
                res = {"outcome": "TimeoutExpired", "killed": bool(p and p.killed), "reaped": bool(p and p.waited)}
            except UnicodeDecodeError:
                res = {"outcome": "UnicodeDecodeError"}
            except Exception as e:  # pylint: disable=broad-except
                res = {"outcome": type(e).__name__}
        res["leftover"] = sorted(os.listdir(tmp))
    finally:
        rl.subprocess, rl.time = old_sub, old_time
        tempfile.tempdir = old_tmp
        shutil.rmtree(tmp, ignore_errors=True)
    return res


def expected_text(data):
    try:
        return io.TextIOWrapper(io.BytesIO(data), encoding="utf-8").read()
    except UnicodeDecodeError:
        return None


def judge(sched, timeout, i, res, case):
    """Oracle: the property, evaluated on the implementation's behaviour."""
    if i.get("leftover"):
        res.fail("oracle", case, {"why": "temporary capture file left behind", "impl": i})
    alive_polls = [e for e in sched if e.status is None]
    exit_idx = next((k for k, e in enumerate(sched) if e.status is not None), None)
    hit = next((k for k, e in enumerate(sched[: exit_idx if exit_idx is not None else len(sched)])
                if timeout is not None and e.clock > timeout), None)
    all_out = b"".join(e.out for e in sched[: (exit_idx + 1) if exit_idx is not None else len(sched)])
    all_err = b"".join(e.err for e in sched[: (exit_idx + 1) if exit_idx is not None else len(sched)])
    if hit is not None:
        # bytes before the hit may raise a decode error first; otherwise it must time out
        if i.get("outcome") == "TimeoutExpired":
            if not (i.get("killed") and i.get("reaped")):
                res.fail("oracle", case, {"why": "timed-out command was not killed and reaped", "impl": i})
        else:
            # only invalid bytes read before the limit was hit may surface first; an incomplete character is held back
            import codecs
            invalid = False
            for data in (b"".join(e.out for e in sched[: hit + 1]), b"".join(e.err for e in sched[: hit + 1])):
                try:
                    codecs.getincrementaldecoder("utf-8")().decode(data, False)
                except UnicodeDecodeError:
                    invalid = True
            if not (invalid and i.get("outcome") == "UnicodeDecodeError"):
                res.fail("oracle", case, {"why": "command outlived the time limit but was not reported as timed out", "impl": i})
        return
    eo, ee = expected_text(all_out), expected_text(all_err)
    if eo is None or ee is None:
        return
    exp = {"returned": [str(sched[exit_idx].status), eo, ee]}
    got = {k: v for k, v in i.items() if k in ("returned", "outcome")}
    if got != exp:
        res.fail("oracle", case, {"why": "recorded output / status differ from what the command wrote / returned",
                                  "impl": summarise(i), "expected": summarise(exp)})


def summarise(o):
    if "returned" in o:
        c, a, b = o["returned"]
        return {"status": c, "stdout_len": len(a), "stderr_len": len(b), "stdout_head": a[:40], "stdout_tail": a[-20:]}
    return o


def check_schedules(cases, res, label):
    d = core.driver()
    model = d.batch({"op": "streams", "N": 8192, "timeout": t, "sched": [e.as_json() for e in s]} for s, t in cases)
    for (sched, timeout), m in zip(cases, model):
        i = impl_run(sched, timeout)
        i_cmp = {k: v for k, v in i.items() if k in ("returned", "outcome")}
        agreed = i_cmp == m
        nbytes = sum(len(e.out) + len(e.err) for e in sched)
        case = {"op": "streams", "timeout": timeout, "sched": [e.as_json() for e in sched] if nbytes < 400 else
                [{"out_len": len(e.out), "err_len": len(e.err), "status": e.status, "clock": e.clock} for e in sched],
                "replay_sched": [e.as_json() for e in sched]}
        res.case({"family": label, "timeout": timeout, "polls": len(sched), "bytes": nbytes, "impl": summarise(i_cmp)},
                 len(sched) >= 2 and nbytes >= 2, agreed, sample_cap=2)
        res.count("family_" + label)
        res.count("outcome_" + (i.get("outcome") or "returned"))
        if not agreed:
            res.fail("disagree", case, {"op": "streams", "impl": summarise(i_cmp), "model": summarise(m)})
        judge(sched, timeout, i, res, case)


def split_bytes(data, rng, n):
    cuts = sorted(rng.randrange(0, len(data) + 1) for _ in range(n - 1))
    out, prev = [], 0
    for c in cuts + [len(data)]:
        out.append(data[prev:c]); prev = c
    return out


def gen_schedule(rng):
    npolls = rng.randrange(1, 7)
    big = rng.random() < 0.35
    text = "".join(rng.choice(TEXTS) for _ in range(rng.randrange(0, 6)))
    data = text.encode("utf8")
    if big:
        unit = rng.choice(["x", "é", "ab\r\n", "😀"]).encode("utf8")
        data += unit * (rng.choice([8190, 8192, 8193, 20000, 70000]) // len(unit) + rng.randrange(3))
    if rng.random() < 0.04:
        data += b"\xff"
    err_data = ("".join(rng.choice(TEXTS) for _ in range(rng.randrange(0, 3)))).encode("utf8")
    if rng.random() < 0.15:
        err_data += b"E" * rng.choice([8191, 8200, 30000])
    outs = split_bytes(data, rng, npolls)
    errs = split_bytes(err_data, rng, npolls)
    timeout = rng.choice([None, 5, 5, 10, 0])
    status = rng.choice([0, 0, 1, 2, 127, 255, -9, -15])
    sched = []
    clock = 0
    for k in range(npolls):
        clock += rng.choice([0, 1, 1, 2, 7]) if rng.random() < 0.5 else 0
        sched.append(Ev(outs[k], errs[k], status if k == npolls - 1 else None, clock))
    return sched, timeout


def shard_random(seed, idx, n):
    res = core.Result()
    rng = core.rng_for(seed, "c13", idx)
    check_schedules([gen_schedule(rng) for _ in range(n)], res, "random")
    return res


def shard_exhaustive(npolls, first):
    """All schedules with `npolls` polls over a 5-chunk alphabet on stdout (exit at the last poll)."""
    res = core.Result()
    cases = []
    for rest in itertools.product(ALPHA, repeat=npolls - 1):
        chunks = [first] + list(rest)
        cases.append(([Ev(c, b"", 0 if k == npolls - 1 else None, 0) for k, c in enumerate(chunks)], None))
    check_schedules(cases, res, "exhaustive")
    return res


CORPUS = [
    ([Ev(b"a" * 10, b"", None, 0), Ev(b"b" * 20000, b"", 0, 0)], None),          # D5: truncation
    ([Ev(b"ab\xc3", b"", None, 0), Ev(b"\xa9z", b"", 0, 0)], None),               # D5: split character
    ([Ev(b"x\r", b"", None, 0), Ev(b"\ny", b"", 0, 0)], None),                    # D5: CR | LF
    ([Ev(b"x" * 20000, b"y" * 9000, 3, 0)], None),                                 # exit right after a large write
    ([Ev(b"a", b"", None, 1), Ev(b"b", b"", None, 11), Ev(b"c", b"", 0, 12)], 10),  # time limit
]


def shard_corpus():
    res = core.Result()
    check_schedules(CORPUS, res, "corpus")
    return res


CHILD = r"""
import os, sys, time, json
plan = json.loads(sys.argv[1])
for fd, hexdata, delay in plan["writes"]:
    os.write(fd, bytes.fromhex(hexdata))
    if delay:
        time.sleep(delay)
if plan["signal"]:
    os.kill(os.getpid(), plan["signal"])
sys.exit(plan["status"])
"""


def real_child_case(rng, res, busy=None):
    """A real child process (no scripted Popen, real capture files, real polling and clock): it writes chunks to fd 1 / 2
    with delays from none to longer than a polling iteration and exits with a status or a signal. Whatever the schedule
    turned out to be, the record must be the text it wrote (the model: any schedule with these bytes gives the same)."""
    import in_toto.runlib as rl
    import json as _json
    pieces = ["plain", "caf\u00e9 \u65e5\u672c", "line\r\n", "cr\rcr", "\r", "\n", "x" * 9000, "\u00e9" * 4097, "tail\r"]
    writes = []
    data = {1: b"", 2: b""}
    for _ in range(rng.randrange(0, 6)):
        fd = rng.choice([1, 1, 2])
        b = rng.choice(pieces).encode("utf8")
        parts = split_bytes(b, rng, rng.choice([1, 2, 3]))
        for part in parts:
            writes.append([fd, part.hex(), rng.choice([0, 0, 0.02, 0.25])])
            data[fd] += part
    sig = rng.choice([0, 0, 0, 15, 9])
    status = rng.choice([0, 1, 3, 255])
    plan = {"writes": writes, "signal": sig, "status": status}
    tmp = tempfile.mkdtemp(prefix="verif-c13r-")
    old_tmp = tempfile.tempdir
    tempfile.tempdir = tmp
    # a capture file that is "busy" for a moment when it is to be removed (the first or the second one; once): the removal
    # is tried again - both files are gone afterwards, the record is what it would have been
    real_remove = os.remove
    state = {"calls": 0, "failed": 0}

    def flaky_remove(path, *a, **kw):
        if busy is not None and os.path.dirname(os.path.abspath(path)) == tmp:
            state["calls"] += 1
            if state["calls"] == busy + 1 and not state["failed"]:
                state["failed"] = 1
                raise PermissionError(13, "busy (injected)", path)
        return real_remove(path, *a, **kw)
    try:
        with contextlib.redirect_stdout(io.StringIO()), contextlib.redirect_stderr(io.StringIO()):
            try:
                os.remove = flaky_remove
                try:
                    r = rl.execute_link([sys.executable, "-c", CHILD, _json.dumps(plan)], True, timeout=30)
                finally:
                    os.remove = real_remove
                i = {"returned": [str(r["return-value"]), r["stdout"], r["stderr"]]}
            except Exception as e:  # pylint: disable=broad-except
                i = {"outcome": type(e).__name__}
        leftover = sorted(os.listdir(tmp))
    finally:
        tempfile.tempdir = old_tmp
        shutil.rmtree(tmp, ignore_errors=True)
    exp_status = -sig if sig else status
    sched = [Ev(data[1], data[2], exp_status, 0.0)]
    m = core.driver().call({"op": "streams", "N": 8192, "timeout": 30, "sched": [e.as_json() for e in sched]})
    agreed = i == m
    case = {"op": "real_child", "plan": {"writes": [[fd, len(h) // 2, dl] for fd, h, dl in writes], "signal": sig, "status": status},
            "replay_plan": plan, "capture_file_busy_once_at_removal": busy}
    res.case({"family": "real_child", "writes": len(writes), "bytes": len(data[1]) + len(data[2]), "impl": summarise(i)},
             len(writes) >= 2, agreed, sample_cap=2)
    res.count("family_real_child")
    if not agreed:
        res.fail("disagree", case, {"op": "streams", "impl": summarise(i), "model": summarise(m)})
    exp = {"returned": [str(exp_status), expected_text(data[1]), expected_text(data[2])]}
    if i != exp:
        res.fail("oracle", case, {"why": "recorded output / status of a real child differ from what it wrote / returned",
                                  "impl": summarise(i), "expected": summarise(exp)})
    if leftover:
        res.fail("oracle", case, {"why": "temporary capture file left behind", "leftover": leftover})


LIMIT_CHILD = r"""
import sys, time, signal
if len(sys.argv) > 3 and sys.argv[3] == 'ignore':
    for s_ in (signal.SIGTERM, signal.SIGINT, signal.SIGHUP, signal.SIGQUIT):
        signal.signal(s_, signal.SIG_IGN)
sys.stdout.write('started\n'); sys.stdout.flush()
time.sleep(float(sys.argv[1]))
open(sys.argv[2], 'w').write('ran to its end')
sys.exit(7)
"""


LIMIT_GRID = [(0, 0.6, True, False), (0.0, 0.6, True, False), (0, 0.6, False, False), (0.2, 2.5, True, True), (0.2, 2.5, False, False),
              (20, 0.1, True, False), (0.0, 0.6, False, False), (0.2, 2.5, True, False),
              # a limit that is not a whole number of seconds, the command ending between its integral part and the limit
              (2.9, 2.3, True, False), (2.9, 2.3, False, False)]


def limit_case(rng, res, fixed=None):
    """The time limit as the public entry point hands it on: `in_toto_run(..., timeout=t)` with t = 0, 0.0 (limits like any
    other: shorter than every run), a limit the command outlives, and one it does not; with and without stream
    recording. A command that outlives its limit must be killed (it never reaches its last statement) and reported as
    timed out; the model gives the same verdict for the schedule 'alive at the first poll, done after `dur` seconds'."""
    import in_toto.runlib as rl
    import time
    limit, dur = rng.choice([(0, 0.6), (0.0, 0.6), (0, 0.6), (0.2, 2.5), (0.2, 2.5), (20, 0.1)])      # (wide margins: the machine may be busy)
    streams = rng.random() < 0.5
    # a command that ignores every signal a process can ignore: it must be *killed* at the limit, not asked to stop
    ignore = limit == 0.2 and rng.random() < 0.7
    if fixed is not None:
        limit, dur, streams, ignore = fixed
    tmp = tempfile.mkdtemp(prefix="verif-c13l-")
    marker = os.path.join(tmp, "marker")
    old_tmp, cwd = tempfile.tempdir, os.getcwd()
    tempfile.tempdir = os.path.join(tmp, "t"); os.makedirs(tempfile.tempdir)
    try:
        os.chdir(tmp)
        with contextlib.redirect_stdout(io.StringIO()), contextlib.redirect_stderr(io.StringIO()):
            try:
                t_call = time.time()
                md = rl.in_toto_run("limit", [], [], [sys.executable, "-c", LIMIT_CHILD, str(dur), marker] + (["ignore"] if ignore else []),
                                    record_streams=streams, timeout=limit)
                bp = md.get_payload().byproducts
                i = {"returned": [str(bp.get("return-value")), bp.get("stdout"), bp.get("stderr")]}
            except subprocess.TimeoutExpired:
                i = {"outcome": "TimeoutExpired"}
            except Exception as e:  # pylint: disable=broad-except
                i = {"outcome": type(e).__name__}
        elapsed = time.time() - t_call
        time.sleep(max(0.0, dur + 0.4 - elapsed) if "outcome" in i else 0)
        ran_to_end = os.path.exists(marker)
        leftover = sorted(os.listdir(tempfile.tempdir))
    finally:
        os.chdir(cwd)
        tempfile.tempdir = old_tmp
        shutil.rmtree(tmp, ignore_errors=True)
    out = b"started\n"
    # (the model's clock is integral: tenths of a second here)
    L = int(round(limit * 10))
    sched = [Ev(out, b"", None, L + 1), Ev(b"", b"", 7, L + 2)] if dur > limit else [Ev(out, b"", None, 0), Ev(b"", b"", 7, 1)]
    m = core.driver().call({"op": "streams", "N": 8192, "timeout": L, "sched": [e.as_json() for e in sched]})
    m = {k: v for k, v in m.items() if k in ("returned", "outcome")}
    if not streams and "returned" in m:
        m = {"returned": [m["returned"][0], "", ""]}
    agreed = i == m
    case = {"op": "limit", "limit": limit, "runs_for": dur, "record_streams": streams, "ignores_signals": ignore}
    if limit > dur and i.get("outcome") == "TimeoutExpired":
        # no implementation can report a time-out before the limit has passed; after it, a busy machine may be the reason
        # (the interpreter of the command needed the difference to start): then nothing is judged
        if elapsed < limit - 0.05:
            res.fail("oracle", case, {"why": "reported as timed out %.2f s after the start, before the limit of %r s had passed" % (elapsed, limit),
                                      "impl": summarise(i)})
        else:
            res.count("limit_case_slow_machine_not_judged")
        return
    if limit < dur and i.get("outcome") == "TimeoutExpired" and elapsed > limit + 0.7 * (dur - limit):
        res.fail("oracle", case, {"why": "the call came back %.1f s after the start although the limit was %r s: the command was not killed "
                                         "at the limit, it was waited for" % (elapsed, limit), "impl": summarise(i)})
    res.case({"family": "limit", "limit": repr(limit), "runs_for": dur, "streams": streams, "impl": summarise(i)}, True, agreed, sample_cap=2)
    res.count("family_limit_%r" % (limit,))
    if not agreed:
        res.fail("disagree", case, {"op": "streams", "impl": summarise(i), "model": summarise(m)})
    if limit < dur and (i.get("outcome") != "TimeoutExpired" or ran_to_end):
        res.fail("oracle", case, {"why": "a command that outlives its time limit (%r s, the command runs %r s) was %s" % (
            limit, dur, "not killed: it ran to its end" if ran_to_end else "not reported as timed out"), "impl": summarise(i)})
    if limit > dur and i.get("returned", [None])[0] != "7":
        res.fail("oracle", case, {"why": "a command that ends within its time limit was not recorded with its exit status", "impl": summarise(i)})
    if leftover:
        res.fail("oracle", case, {"why": "temporary capture file left behind", "leftover": leftover})


def shard_real(seed, idx, n):
    res = core.Result()
    rng = core.rng_for(seed, "c13", "real", idx)
    for j in range(n):
        real_child_case(rng, res, busy=[0, 1, None][j % 3] if idx % 2 == 0 else None)
    limit_case(rng, res, fixed=LIMIT_GRID[idx % len(LIMIT_GRID)])       # (every combination once per run, whatever the seed)
    # the status of a command ended by a signal, through in_toto_run: recorded (and written, and loadable) like any other
    from harness.props import c11
    c11.signal_exit_case(rng, res)
    return res


def shard_cli_equiv(seed, idx, n):
    """The command line against the library call it stands for (harness/cliequiv.py): recording through in-toto-run /
    in-toto-record with the options that matter here (exclude patterns incl. negations and directory-only ones, prefix
    stripping, base path, dir: artifacts, time limit, verbosity)."""
    from harness import cliequiv
    res = core.Result()
    rng = core.rng_for(seed, "c13", "cli_equiv", idx)
    for _ in range(n):
        for tool in ['run']:
            cliequiv.equiv_case(rng, res, tool)
    from harness import clicall
    for _ in range(2 * n):
        for t in ("run",):
            clicall.one_case(rng, res, t)
    return res


def run(tier, seed):
    shards = [(shard_corpus, ())]
    shards += [(shard_real, (seed, i, 3 if tier == "quick" else 40)) for i in range(len(LIMIT_GRID))]
    maxp = 3 if tier == "quick" else 4
    for n in range(1, maxp + 1):
        for a in ALPHA:
            shards.append((shard_exhaustive, (n, a)))
    per = 30 if tier == "quick" else 900
    shards += [(shard_random, (seed, i, per)) for i in range(16)]
    shards += [(shard_cli_equiv, (seed, i, 4 if tier == "quick" else 40)) for i in range(4)]
    res = core.parallel(core.call, shards)
    res.notes.append("exhaustive: all stdout schedules with <= %d polls over chunks %r" % (maxp, ALPHA))
    return res


def replay(case):
    if case.get("op") == "limit":
        import random
        res = core.Result()
        for k in range(40):
            limit_case(random.Random(k), res)
        return {"failures_on_replay": [f for f in res.failures if f["case"] == case][:3]}
    if case.get("op") == "real_child":
        import json as _json
        import in_toto.runlib as rl
        plan = case["replay_plan"]
        with contextlib.redirect_stdout(io.StringIO()), contextlib.redirect_stderr(io.StringIO()):
            try:
                r = rl.execute_link([sys.executable, "-c", CHILD, _json.dumps(plan)], True, timeout=30)
                i = {"returned": [str(r["return-value"]), r["stdout"], r["stderr"]]}
            except Exception as e:  # pylint: disable=broad-except
                i = {"outcome": type(e).__name__}
        data = {1: b"", 2: b""}
        for fd, h, _dl in plan["writes"]:
            data[fd] += bytes.fromhex(h)
        return {"impl": summarise(i), "expected": summarise({"returned": [str(-plan["signal"] if plan["signal"] else plan["status"]),
                                                                              expected_text(data[1]), expected_text(data[2])]})}
    sched = [Ev(bytes.fromhex(e["out"]), bytes.fromhex(e["err"]), e["status"], e["clock"]) for e in case["replay_sched"]]
    i = impl_run(sched, case["timeout"])
    m = core.driver().call({"op": "streams", "N": 8192, "timeout": case["timeout"], "sched": case["replay_sched"]})
    all_out = b"".join(e.out for e in sched)
    return {"impl": summarise(i), "leftover": i.get("leftover"), "model": summarise(m),
            "expected_stdout_len": len(expected_text(all_out) or "")}


def search(failure, tier, seed):
    res = core.parallel(core.call, [(shard_random, (seed + 1000 + i, i, 100)) for i in range(16)] + [(shard_corpus, ())])
    for f in res.failures:
        if f["kind"] == "oracle":
            return f
    return None
