"""C08 — evidence is bound to its step: a link counts only for the step it names."""
import copy
import json

from harness import core, scen, vcommon, world as W

RULE = ("layouts with 2-3 steps sharing one authorised functionary; for every ordered pair (A, B) the link of A is "
        "presented for B by file copy (A's link kept) or rename (A's link gone), B's own link removed or kept from a "
        "second functionary; both formats; rule sets that would (closed, MATCH-chained) or would not (ALLOW *) notice. "
        "Non-trivial: every case; distinct by description.")
ASSUMPTIONS = ["signatures present are non-malleable (ground-truth table)"]


# step names that agree on a long beginning (and on their end) and differ in between or only in length
LONG_NAMES = [["package-deb", "package-rpm", "package-debug"], ["integration-test-1", "integration-test-2", "integration-test-10"],
              ["build-linux-amd64", "build-linux-arm64", "build-linux-amd6"], ["sign-release", "sign-releasf", "sign-rel"]]


def gen_case(rng, root, force=None, case_no=None):
    n = rng.choice([2, 2, 3])
    ch = scen.gen_chain(rng, root, n_steps=n, n_insp=rng.choice([0, 1]), thresholds=(1,), max_funcs=1)
    if case_no is not None and case_no % 3 == 1:
        # (every run: a name comparison that looks at a part of the name only - its first characters, its length, its end)
        for i_, s_ in enumerate(ch.steps):
            s_["name"] = LONG_NAMES[(case_no // 3) % len(LONG_NAMES)][i_]
    elif rng.random() < 0.2:
        # a step whose name is the empty string is a step like any other (its link says so in its signed content)
        ch.steps[rng.randrange(n)]["name"] = ""
    pool = [k for k in W.pool() if k not in ch.owners]
    shared = rng.choice(pool)
    second = rng.choice([k for k in pool if k is not shared])
    # sometimes the shared functionary is a gpg key: the master is authorised and a signing subkey (or the
    # master itself) signs, so the id in the file name and signature differs from the authorised id
    gpg_signer = None
    if W.gpg_available() and rng.random() < 0.3 and not force:
        mname = rng.choice(["one_sub", "two_subs", "no_sub"])
        shared = W.gpg_key(mname)
        subs = [x for x in (shared.pub.get("subkeys") or {}) if x in W.SIGNING_SUBKEYS]
        gpg_signer = W.gpg_key(mname, rng.choice(subs)) if subs and rng.random() < 0.8 else shared
    notice = rng.random() < 0.5
    ch.closed = notice
    same_arts = (not notice) and rng.random() < 0.5
    for s in ch.steps:
        s["keys"] = [shared]
        s["pubkeys"] = [shared.keyid]
        if not notice:
            s["rules"] = ([["ALLOW", "*"]], [["ALLOW", "*"]])
        if same_arts:   # identical artifacts everywhere: only the signed name distinguishes the links
            s["materials"], s["products"] = ch.steps[0]["materials"], ch.steps[-1]["products"]
        fmt = "metablock" if gpg_signer else rng.choice(["metablock", "dsse"])
        if gpg_signer:
            s["links"] = [scen.link_spec(gpg_signer, fmt, s["name"], s["materials"], s["products"], signer=gpg_signer,
                                         kid=gpg_signer.keyid)]
        else:
            s["links"] = [scen.link_spec(shared, fmt, s["name"], s["materials"], s["products"])]
    ch.layout_keys = {shared.keyid: shared.pub, second.keyid: second.pub}
    a, b = rng.sample(range(n), 2)
    A, B = ch.steps[a], ch.steps[b]
    how = rng.choice(["copy", "rename"])
    keep_own = rng.choice(["none", "none", "second"])
    replay_link = dict(A["links"][0])      # signed content names A, presented under B's file name
    foreign = None
    if rng.random() < 0.2 and not force:
        # ... or names a step of some OTHER layout whose name merely ends in B's (a path-like name, a dotted one): recorded
        # for that step, not for B
        foreign = rng.choice(["linux/", "release.", "x/y/", "../"]) + B["name"]
        replay_link["name"] = foreign
    B["links"] = [replay_link]
    if keep_own == "second":
        B["pubkeys"] = [shared.keyid, second.keyid]
        B["links"].append(scen.link_spec(second, rng.choice(["metablock", "dsse"]), B["name"], B["materials"], B["products"]))
    multi = None
    if n == 3 and rng.random() < 0.4 and not force:
        # the same link presented for *both* other steps in one verification: the earlier of the two also has genuine
        # evidence from a second functionary (so verification gets as far as the later one), the later has the replay only
        c = [x for x in range(n) if x not in (a, b)][0]
        first, later = sorted([b, c])
        F, L = ch.steps[first], ch.steps[later]
        F["pubkeys"] = [shared.keyid, second.keyid]
        F["links"] = [dict(replay_link), scen.link_spec(second, rng.choice(["metablock", "dsse"]), F["name"], F["materials"], F["products"])]
        L["pubkeys"] = [shared.keyid]
        L["links"] = [dict(replay_link)]
        keep_own = "second for the earlier step only"
        multi = [F["name"], L["name"]]
    if multi is None and keep_own == "second" and rng.random() < 0.5:
        # B asks for two functionaries and has one genuine link (the second functionary's); the first functionary's link
        # of A - reporting the very same artifacts - is presented as the other. One functionary performed B: not enough.
        B["threshold"] = 2
        replay_link["materials"], replay_link["products"] = B["materials"], B["products"]
        B["links"][0] = replay_link
        if A["links"]:
            A["links"][0] = dict(A["links"][0], materials=B["materials"], products=B["products"])
        A["materials"], A["products"] = B["materials"], B["products"]
        for s_ in ch.steps:
            s_["rules"] = ([["ALLOW", "*"]], [["ALLOW", "*"]])
        ch.closed = notice = False
        keep_own = "second, threshold 2"
    extra_variant = None
    r = rng.random()
    if force:
        r = 0.05 if force in ("replay_plus_two_subkey_links", "failing_sublayout_plus_two_subkey_links") else 0.2
    if multi is None and not gpg_signer and r < 0.3:
        # TWO functionaries authorised for both steps, both their links of A presented for B, one after the other (B has
        # no evidence of its own): neither counts
        shared2 = rng.choice([k for k in pool if k is not shared and k is not second])
        for s_ in ch.steps:
            s_["rules"] = ([["ALLOW", "*"]], [["ALLOW", "*"]])
        ch.closed = notice = False
        ch.layout_keys[shared2.keyid] = shared2.pub
        A["keys"], A["pubkeys"] = [shared, shared2], [shared.keyid, shared2.keyid]
        A["links"] = [scen.link_spec(shared, rng.choice(["metablock", "dsse"]), A["name"], A["materials"], A["products"]),
                      scen.link_spec(shared2, rng.choice(["metablock", "dsse"]), A["name"], A["materials"], A["products"])]
        B["keys"], B["pubkeys"], B["threshold"] = [shared, shared2], [shared.keyid, shared2.keyid], rng.choice([1, 1, 2])
        B["links"] = [dict(A["links"][0]), dict(A["links"][1])]
        keep_own = "none (two replayed links in a row)"
        extra_variant = "double_replay"
        if r < 0.12 and W.gpg_available():
            # ... and a third functionary - a gpg key - hands in two agreeing links for B, signed with two of its
            # subkeys: ONE functionary performed B, the step asks for two
            g = W.gpg_key("two_subs")
            subs = sorted(x for x in (g.pub.get("subkeys") or {}) if x in W.SIGNING_SUBKEYS)
            if len(subs) >= 2:
                ch.layout_keys[g.keyid] = g.pub
                B["keys"], B["pubkeys"], B["threshold"] = [shared, g], [shared.keyid, g.keyid], 2
                B["links"] = [dict(A["links"][0])]
                if force == "failing_sublayout_plus_two_subkey_links" or (not force and rng.random() < 0.4):
                    # ... or, instead of the replayed link, the first functionary hands in a delegated layout whose own
                    # links are missing: it does not verify, and nothing of it counts
                    sub = scen.gen_chain(rng, root, n_steps=1, n_insp=0, thresholds=(1,), max_funcs=1, owners=[shared],
                                         prefix=B["name"] + "sub", fmt_mode="mixed")
                    sub.closed = False
                    sub.steps[0]["rules"] = ([["ALLOW", "*"]], [["ALLOW", "*"]])
                    sub.steps[0]["materials"], sub.steps[0]["products"] = B["materials"], B["products"]
                    sub.steps[0]["links"] = []
                    B["links"] = [scen.link_spec(shared, rng.choice(["metablock", "dsse"]), B["name"], B["materials"], B["products"], sub=sub)]
                    extra_variant_name = "failing_sublayout_plus_two_subkey_links"
                else:
                    extra_variant_name = "replay_plus_two_subkey_links"
                for sid in subs[:2]:
                    sk = W.gpg_key("two_subs", sid)
                    B["links"].append(scen.link_spec(sk, "metablock", B["name"], B["materials"], B["products"], signer=sk, kid=sk.keyid))
                keep_own = "one gpg functionary with two subkey links, threshold 2, plus %s" % (
                    "a replayed link" if extra_variant_name.startswith("replay") else "a delegated layout that does not verify")
                extra_variant = extra_variant_name
    if multi is None and not gpg_signer and extra_variant is None and (force == "decoy_then_replay" or (not force and rng.random() < 0.2)):
        # B lists another functionary FIRST, whose file for B is a decoy: it names B and carries no valid signature
        # (unsigned / signature altered); after it comes the validly signed link of A under the shared functionary's
        # name. What is compared with the step name is the signed content of the link that is counted - not the decoy's.
        decoy = rng.choice([k for k in pool if k is not shared and k is not second])
        for s_ in ch.steps:
            s_["rules"] = ([["ALLOW", "*"]], [["ALLOW", "*"]])
        ch.closed = notice = False
        ch.layout_keys[decoy.keyid] = decoy.pub
        B["keys"], B["pubkeys"], B["threshold"] = [decoy, shared], [decoy.keyid, shared.keyid], 1
        B["links"] = [scen.link_spec(decoy, rng.choice(["metablock", "dsse"]), B["name"], B["materials"], B["products"],
                                     tamper=rng.choice(["unsigned", "sig", "content_fixed"])),
                      dict(replay_link)]
        keep_own = "none (an unsigned decoy naming the step, listed first)"
        extra_variant = "decoy_then_replay"
    if how == "rename" and extra_variant is None:
        A["links"] = []
    desc = {"steps": n, "from": foreign or A["name"], "to": B["name"], "how": how, "own_evidence": keep_own,
            "rules_notice": notice, "same_artifacts": same_arts, "fmt": replay_link["fmt"],
            "shared_functionary": "gpg master, signed by %s" % ("a subkey" if gpg_signer is not shared else "the master")
            if gpg_signer else shared.kind,
            "variant": extra_variant,
            "expected_accept": keep_own == "second" and how == "copy"}
    if multi:
        desc["to"] = multi
    return ch, desc


def one_case(rng, res, force=None, case_no=None):
    root = scen.new_root()
    try:
        ch, desc = gen_case(rng, root, force, case_no)
        # B's file must carry A's signed name: link_spec "name" is what is signed
        scn = scen.build(ch, root, rng)
        scn.params = vcommon.pick_params(rng, desc)
        i, m, _ = vcommon.run_case(scn, desc, res, True)
        res.count("how_" + desc["how"]); res.count("own_" + desc["own_evidence"])
        res.count("notice_%s" % desc["rules_notice"])
        if vcommon.accepted(i) and not desc["expected_accept"]:
            vcommon.oracle_fail(res, scn, desc, "accepted although the only evidence presented for step %s is a link "
                                "recorded for step %s" % (desc["to"], desc["from"]), i)
        if desc["expected_accept"] and not vcommon.accepted(i):
            vcommon.oracle_fail(res, scn, desc, "every step has genuine evidence (step %s from a second functionary) and the "
                                "replayed link of step %s must simply not count, yet verification failed" % (
                                    desc["to"], desc["from"]), i)
        if vcommon.accepted(i):
            # the summary is built from the evidence accepted for the first and the last step: it must not show
            # anything of a link recorded for another step
            summ = json.loads(i["result"]["ok"], strict=False)
            last = ch.steps[-1]
            used_foreign = summ.get("command") != ["do", last["name"]]
            if used_foreign:
                vcommon.oracle_fail(res, scn, desc, "the summary link carries the command %r: the evidence used for step %s "
                                    "is not a link recorded for that step" % (summ.get("command"), last["name"]), i)
    finally:
        scen.drop_root(root)


def shard(seed, idx, n, tier):
    res = core.Result()
    rng = core.rng_for(seed, "c08", idx)
    for j in range(n):
        one_case(rng, res, case_no=idx * n + j)
    return res


def run(tier, seed):
    per = 12 if tier == "quick" else 100
    return core.parallel(core.call, [(shard, (seed, i, per, tier)) for i in range(16)])


replay = vcommon.replay
search = vcommon.generic_search(shard)
