"""C18 — command-line exit status reports success only when the operation succeeded.

Every front end's `main()` is run in-process (sys.argv patched, SystemExit
caught) over scenarios of the other properties with every key-argument form,
both formats, malformed and missing files and wrong argument combinations. The
status is compared with the Lean `exitStatus(tool, outcome)`, where the outcome
is established by the *library* call on the same inputs; the oracle: status 0
iff the library call succeeded and the expected output file exists."""
import json
import os
import random
import shutil
import sys
import tempfile

from harness import cli, core, scen, vcommon, world as W
from harness.props import c02, c05, c06, c07, c08

RULE = ("in-toto-verify over C02 / C05 / C06 / C07 / C08 scenarios with --verification-keys, --layout-keys (rsa) and --gpg, "
        "malformed / missing layout, no key argument, unknown option; in-toto-run and in-toto-record (--signing-key, --key, "
        "--gpg; both formats; failing command, missing key file, unwritable metadata directory, time-out, missing / conflicting "
        "arguments); in-toto-mock; in-toto-sign (sign, append, verify, conflicting arguments, missing file); "
        "in-toto-match-products (equal / changed tree, both formats, missing link). Non-trivial: every invocation; distinct by "
        "(tool, arguments, scenario).")
ASSUMPTIONS = ["an exception escaping main() (in-toto-match-products) is the interpreter's exit status 1",
               "front ends are run in-process; the thorough tier also runs the installed console scripts in subprocesses"]


def draw(rng, options, base, j):
    """A variant of a family: cycled through the distinct ones when the family is run with a case number (every variant
    occurs in every run, whatever the seed), drawn otherwise."""
    if base is None:
        return rng.choice(options)
    uniq = list(dict.fromkeys(options))
    return uniq[(base + j) % len(uniq)]


def model_status(tool, outcome):
    return core.driver().call({"op": "cli_status", "tool": tool, "outcome": outcome})["ok"]


def norm(status):
    if isinstance(status, str) and status.startswith("uncaught"):
        return 1
    return status


MODULES = {"run": "in_toto_run", "record_start": "in_toto_record", "record_stop": "in_toto_record", "verify": "in_toto_verify",
           "sign": "in_toto_sign", "sign_verify": "in_toto_sign", "mock": "in_toto_mock", "match_products": "in_toto_match_products"}


def abstract_args(tool, argv):
    """What argparse leaves in the namespace, reduced to what main() looks at (the parser is in-toto's own
    create_parser(); the checks main() then makes are the model's)."""
    import contextlib, importlib, io
    parser = importlib.import_module("in_toto." + MODULES[tool]).create_parser()
    try:
        with contextlib.redirect_stdout(io.StringIO()), contextlib.redirect_stderr(io.StringIO()):
            ns = parser.parse_args(list(argv))
    except SystemExit:
        return {"argparse_ok": False}
    a = {"argparse_ok": True}
    if tool == "run":
        a.update(key=ns.key, gpg=ns.gpg, signing_key=ns.signing_key, no_command=bool(ns.no_command), link_cmd=list(ns.link_cmd or []))
    elif tool in ("record_start", "record_stop"):
        a.update(key=ns.key, gpg=ns.gpg, signing_key=ns.signing_key)
    elif tool == "verify":
        a.update(layout_keys=ns.layout_keys, gpg=ns.gpg, verification_keys=ns.verification_keys)
    elif tool in ("sign", "sign_verify"):
        a.update(verify=bool(ns.verify), append=bool(ns.append), output=ns.output, key=ns.key, gpg=ns.gpg)
    return a


def model_main(tool, argv, outcome, file_kind=None):
    """Status predicted by the model of main(): its own argument checks on the parsed arguments, then the status of
    what the operation does (`outcome`; irrelevant when a check fails)."""
    req = {"op": "cli_main", "tool": "sign" if tool == "sign_verify" else tool, "args": abstract_args(tool, argv),
           "work": "success" if outcome == "usage" else outcome}
    if tool in ("sign", "sign_verify"):
        req["file"] = file_kind or "layout"
    r = core.driver().call(req)
    if "ok" not in r:
        raise core.Infra("cli_main: %r" % (r,))
    return r["ok"]


def record(res, tool, argv_desc, status, outcome, expect_file=None, extra=None, argv=None, file_kind=None):
    m = model_status(tool, outcome)
    st = norm(status)
    agreed = st == m
    if argv is not None:
        m2 = model_main(tool, argv, outcome, file_kind)
        res.evaluations += 1
        if st != m2:
            agreed = False
            res.fail("disagree", {"op": "cli_main", "tool": tool, "args": argv_desc, "argv": [str(x) for x in argv], "outcome": outcome},
                     {"op": "cli_main", "impl": status, "model": m2, "parsed": abstract_args(tool, argv)})
    case = {"tool": tool, "args": argv_desc, "status": status, "outcome": outcome}
    if extra:
        case.update(extra)
    res.case(case, True, agreed)
    res.count("tool_" + tool); res.count("status_%s" % st)
    if isinstance(argv_desc, dict) and argv_desc.get("variant"):
        res.count("variant_%s_%s" % (tool, argv_desc["variant"]))
    if not agreed:
        res.fail("disagree", {"op": "cli_status", "tool": tool, "args": argv_desc, "outcome": outcome},
                 {"op": "cli_status", "impl": status, "model": m})
    ok = outcome == "success"
    if (st == 0) != ok:
        res.fail("oracle", {"op": "cli_status", "tool": tool, "args": argv_desc, "outcome": outcome},
                 {"why": "exit status %r although the operation %s" % (status, "succeeded" if ok else "failed (%s)" % outcome)})
    if expect_file is not None:
        exists = os.path.exists(expect_file)
        if (st == 0) != exists:
            res.fail("oracle", {"op": "cli_status", "tool": tool, "args": argv_desc, "outcome": outcome},
                     {"why": "exit status %r but the output file %s" % (status, "exists" if exists else "does not exist"),
                      "file": os.path.basename(expect_file)})


def write_pub_pem(k, d):
    from cryptography.hazmat.primitives import serialization as ser
    p = os.path.join(d, "pub-%s.pem" % k.keyid[:8])
    pub = k.signer._private_key.public_key()  # pylint: disable=protected-access
    open(p, "wb").write(pub.public_bytes(ser.Encoding.PEM, ser.PublicFormat.SubjectPublicKeyInfo))
    return p


def priv_path(k):
    return os.path.join(W.HERE, "keydata", sorted(os.listdir(os.path.join(W.HERE, "keydata")))[W.pool().index(k)])


# ------------------------------------------------------------------ verify


def verify_cases(rng, res, n, base=None):
    fams = ["c02", "c05", "c06", "c07", "c08"]
    for j in range(n):
        fam = fams[j % len(fams)]
        root = scen.new_root()
        try:
            hooks, timeout = [], 60
            if fam == "c02":
                ch, desc = c02.gen_case(rng, root, False)
            elif fam == "c05":
                ch, desc = c05.gen_case(rng, root); desc.pop("attested", None)
            elif fam == "c06":
                ch, desc = c06.gen_case(rng, root)
            elif fam == "c07":
                ch, desc, hooks, _f = c07.gen_case(rng, root); timeout = c07.timeout_for(ch)
            else:
                ch, desc = c08.gen_case(rng, root)
            scn = scen.build(ch, root, rng)
            scn.meta["inspect_timeout"] = timeout
            if hooks:
                c07.apply_hooks(scn, ch, hooks, rng)
            scn.now = __import__("datetime").datetime.now(__import__("datetime").timezone.utc)
            if fam in ("c02", "c05", "c08"):      # (worlds without inspection commands: nothing depends on the time limit)
                # the operation's outcome is the MODEL's (a library call that succeeds where the model refuses - say by
                # stepping over a link file that cannot be loaded - would otherwise pass as "status follows the library")
                lib, _m, _a = vcommon.run_case(scn, dict(desc, front_end_family=fam), res, True)
            else:
                lib = scn.run_impl(root=root)          # library outcome on the same world (real clock)
            outcome = "success" if vcommon.accepted(lib) else ("load" if lib.get("load") != "ok" else "fail")
            scn.materialise(root)
            supplied = [k for k in W.pool() if k.keyid in scn.keys]      # the verifier's keys of this scenario
            keyfiles = [write_pub_pem(k, root) for k in supplied]
            cwd = os.getcwd()
            try:
                os.chdir(os.path.join(root, "product"))
                form = rng.choice(["verification-keys", "verification-keys", "layout-keys"])
                argv = ["--layout", os.path.join(root, "root.layout"), "--link-dir", os.path.join(root, "links"),
                        "--inspection-timeout", str(timeout)]
                if form == "layout-keys" and all(k.kind == "rsa" for k in supplied):
                    argv += ["--layout-keys"] + keyfiles
                    # the deprecated loader derives its own key ids: the outcome is that of the library
                    # call with the keys as that loader returns them
                    from securesystemslib import interface
                    scn.keys = interface.import_publickeys_from_file(keyfiles, ["rsa"] * len(keyfiles))
                    lib = scn.run_impl(root=root)
                    scn.materialise(root)
                    outcome = "success" if vcommon.accepted(lib) else ("load" if lib.get("load") != "ok" else "fail")
                else:
                    form = "verification-keys"
                    argv += ["--verification-keys"] + keyfiles
                variant = draw(rng, ["plain"] * 6 + ["no_keys", "unknown_option", "missing_layout", "garbage_layout", "extra_unsigned_key", "layout_keys_more_than_types",
                                      "mixed_forms_extra_unsigned", "mixed_forms_extra_unsigned", "mixed_forms_gpg_unsigned"], base if (base is None or j % 2 == 0) else None, j // 2)
                if variant.startswith("mixed_forms") and form != "verification-keys":
                    variant = "plain"
                if variant == "mixed_forms_extra_unsigned" and not [k for k in W.pool() if k not in ch.owners and k.kind == "rsa"]:
                    variant = "extra_unsigned_key"          # (both rsa keys of the pool own this layout)
                out2 = outcome
                if variant == "no_keys":
                    argv = [a for a in argv if a not in keyfiles and not a.endswith("-keys")]
                    out2 = "usage"
                elif variant == "unknown_option":
                    argv += ["--frobnicate"]
                    out2 = "usage"
                elif variant == "missing_layout":
                    argv[1] = os.path.join(root, "nope.layout")
                    out2 = "load"
                elif variant == "garbage_layout":
                    open(os.path.join(root, "garbage.layout"), "w").write("{not json")
                    argv[1] = os.path.join(root, "garbage.layout")
                    out2 = "load"
                elif variant == "mixed_forms_extra_unsigned":
                    # every key that signed goes in through --verification-keys, one that did not through the
                    # deprecated --layout-keys (either order): for each passed key the layout must carry a signature
                    other = [k for k in W.pool() if k not in ch.owners and k.kind == "rsa"][0]
                    extra = ["--layout-keys", write_pub_pem(other, root)]
                    argv = argv + extra if rng.random() < 0.5 else argv[:4] + extra + argv[4:]
                    out2 = "fail"
                elif variant == "mixed_forms_gpg_unsigned":
                    if W.gpg_available():
                        g = W.gpg_key("no_sub")
                        argv = argv + ["--gpg", g.keyid, "--gpg-home", g.gpg_home]
                        out2 = "fail"
                    else:
                        variant = "plain"
                elif variant == "layout_keys_more_than_types":
                    # the deprecated option with a type list shorter than the key list, the surplus key one that did not
                    # sign: whatever the tool makes of the mismatch, it is not a success
                    strangers = [k for k in W.pool() if k not in ch.owners and k.kind == "rsa"]
                    if form == "layout-keys" and strangers and len(supplied) == 1:
                        argv += [write_pub_pem(strangers[0], root), "--key-types", "rsa"]
                        out2 = "fail"
                    else:
                        variant = "plain"
                elif variant == "extra_unsigned_key":
                    other = [k for k in W.pool() if k not in ch.owners][0]
                    argv += [write_pub_pem(other, root)]
                    out2 = "fail"
                st, _o, _e = cli.run_main("in_toto_verify", argv)
            finally:
                os.chdir(cwd)
            record(res, "verify", {"family": fam, "keys": form, "variant": variant, "layout_fmt": ch.layout_fmt}, st, out2,
                   extra={"library": vcommon.short(lib)}, argv=argv)
        finally:
            scen.drop_root(root)


def gpg_verify_case(rng, res):
    if not W.gpg_available():
        return
    root = scen.new_root()
    try:
        owner = W.gpg_key(rng.choice(["no_sub", "no_sub2"]))
        ch = scen.gen_chain(rng, root, n_steps=1, n_insp=0, thresholds=(1,), max_funcs=1, fmt_mode="metablock", owners=[owner])
        ch.layout_fmt = "metablock"
        bad = rng.random() < 0.4
        scn = scen.build(ch, root, rng)
        if bad:
            scn.layout = scen.apply_tamper(scn.layout, "content_fixed", rng, scn.table)
        scn.materialise(root)
        cwd = os.getcwd()
        try:
            os.chdir(os.path.join(root, "product"))
            st, _o, _e = cli.run_main("in_toto_verify", ["--layout", os.path.join(root, "root.layout"), "--link-dir",
                                                          os.path.join(root, "links"), "--gpg", owner.keyid,
                                                          "--gpg-home", owner.gpg_home])
        finally:
            os.chdir(cwd)
        record(res, "verify", {"keys": "gpg", "tampered_layout": bad}, st, "fail" if bad else "success")
    finally:
        scen.drop_root(root)


# ------------------------------------------------------------------ run / record / mock


def run_record_cases(rng, res, n, base=None):
    for j in range(n):
        d = tempfile.mkdtemp(prefix="verif-c18-")
        cwd = os.getcwd()
        try:
            os.chdir(d)
            open("in.txt", "w").write("in\n")
            k = rng.choice(W.pool())
            rsa = [x for x in W.pool() if x.kind == "rsa"][0]
            dsse = rng.random() < 0.5
            tool = draw(rng, ["run", "run", "record", "mock"], base, j)
            vb = None if base is None else (base + j) // 3
            if tool == "run":
                variant = draw(rng, ["ok", "ok", "failing_command", "no_such_command", "missing_key", "bad_metadata_dir", "timeout",
                                      "no_command", "no_command_flag", "two_keys", "no_key", "legacy_key",
                                      "empty_signing_key", "empty_key", "empty_gpg", "gpg_and_signing_key", "gpg_flag_and_signing_key"], vb, 0)
                key = k
                argv = ["-n", "st", "-m", ".", "-p", "."]
                keyargs = ["--signing-key", priv_path(k)]
                cmd = ["--", sys.executable, "-c", "open('out.txt','w').write('o')"]
                outcome = "success"
                if variant == "failing_command":
                    cmd = ["--", sys.executable, "-c", "raise SystemExit(3)"]
                elif variant == "no_such_command":
                    cmd = ["--", "/no/such/cmd"]; outcome = "fail"
                elif variant == "missing_key":
                    keyargs = ["--signing-key", os.path.join(d, "nope.pem")]; outcome = "fail"
                elif variant == "bad_metadata_dir":
                    argv += ["-d", os.path.join(d, "nope")]; outcome = "fail"
                elif variant == "timeout":
                    argv += ["--run-timeout", "1"]; cmd = ["--", sys.executable, "-c", "import time; time.sleep(20)"]; outcome = "fail"
                elif variant == "no_command":
                    cmd = []; outcome = "usage"
                elif variant == "no_command_flag":
                    cmd = []; argv += ["-x"]
                elif variant == "two_keys":
                    keyargs += ["--key", priv_path(rsa)]; outcome = "usage"
                elif variant == "no_key":
                    keyargs = []; outcome = "usage"
                elif variant in ("gpg_and_signing_key", "gpg_flag_and_signing_key"):
                    # two ways of signing asked for at once (a gpg key and a key file): exactly one is allowed - the tool
                    # must not pick one silently
                    if variant == "gpg_and_signing_key" and W.gpg_available():
                        g = W.gpg_key("no_sub")
                        extra_k = ["--gpg", g.keyid, "--gpg-home", g.gpg_home]
                    else:
                        extra_k = ["--gpg"]
                    keyargs = (keyargs + extra_k) if rng.random() < 0.5 else (extra_k + keyargs)
                    outcome = "usage"
                elif variant == "legacy_key":
                    keyargs = ["--key", priv_path(rsa)]; key = rsa
                elif variant in ("empty_signing_key", "empty_key", "empty_gpg"):
                    # e.g. an unset shell variable: --signing-key "$KEY"
                    keyargs = ["--" + variant[len("empty_"):].replace("_", "-"), ""]; outcome = "usage"
                if dsse:
                    argv += ["--use-dsse"]
                if rng.random() < 0.3:
                    argv += ["-s"]
                st, _o, _e = cli.run_main("in_toto_run", argv + keyargs + cmd)
                if variant == "legacy_key":
                    # the legacy loader derives its own key id: find the file it wrote
                    files = [f for f in os.listdir(d) if f.startswith("st.") and f.endswith(".link")]
                    expect = os.path.join(d, files[0]) if files else os.path.join(d, "st.legacy.link")
                else:
                    expect = os.path.join(d, "nope" if variant == "bad_metadata_dir" else "", "st.%s.link" % key.keyid[:8])
                record(res, "run", {"variant": variant, "dsse": dsse, "key": key.kind}, st, outcome, expect_file=expect,
                       argv=argv + keyargs + cmd)
            elif tool == "record":
                variant = draw(rng, ["ok", "ok", "stop_without_start", "missing_key", "two_keys", "bad_subcommand",
                                      "empty_signing_key", "empty_key", "empty_gpg", "gpg_and_signing_key"], vb, 0)
                keyargs = ["--signing-key", priv_path(k)]
                if variant.startswith("empty_"):
                    keyargs = ["--" + variant[len("empty_"):].replace("_", "-"), ""]
                if variant == "two_keys":
                    keyargs += ["--key", priv_path(rsa)]
                if variant == "gpg_and_signing_key":
                    keyargs = ["--gpg"] + keyargs if rng.random() < 0.5 else keyargs + ["--gpg"]
                if variant == "missing_key":
                    keyargs = ["--signing-key", os.path.join(d, "nope.pem")]
                pre = os.path.join(d, ".st.%s.link-unfinished" % k.keyid[:8])
                fin = os.path.join(d, "st.%s.link" % k.keyid[:8])
                if variant == "bad_subcommand":
                    st, _o, _e = cli.run_main("in_toto_record", ["pause", "-n", "st"] + keyargs)
                    record(res, "record_start", {"variant": variant}, st, "usage", argv=["pause", "-n", "st"] + keyargs)
                    continue
                if variant != "stop_without_start":
                    av = ["start", "-n", "st", "-m", "."] + keyargs + (["--use-dsse"] if dsse else [])
                    st, _o, _e = cli.run_main("in_toto_record", av)
                    out = {"ok": "success", "missing_key": "fail", "two_keys": "usage", "gpg_and_signing_key": "usage"}.get(variant, "usage")
                    record(res, "record_start", {"variant": variant, "dsse": dsse, "key": k.kind}, st, out, expect_file=pre, argv=av)
                open("out.txt", "w").write("o")
                av = ["stop", "-n", "st", "-p", "."] + keyargs
                st, _o, _e = cli.run_main("in_toto_record", av)
                out = {"ok": "success", "stop_without_start": "fail", "missing_key": "fail", "two_keys": "usage"}.get(variant, "usage")
                record(res, "record_stop", {"variant": variant, "dsse": dsse, "key": k.kind}, st, out, expect_file=fin, argv=av)
            else:
                variant = draw(rng, ["ok", "ok", "no_such_command", "no_name"], vb, 0)
                argv = ["-n", "mk"] + (["--use-dsse"] if dsse else []) + ["--", sys.executable, "-c", "print(1)"]
                outcome = "success"
                if variant == "no_such_command":
                    argv = ["-n", "mk", "--", "/no/such/cmd"]; outcome = "fail"
                elif variant == "no_name":
                    argv = ["--", "true"]; outcome = "usage"
                st, _o, _e = cli.run_main("in_toto_mock", argv)
                record(res, "mock", {"variant": variant, "dsse": dsse}, st, outcome, expect_file=os.path.join(d, "mk.link"), argv=argv)
        finally:
            os.chdir(cwd)
            shutil.rmtree(d, ignore_errors=True)


# ------------------------------------------------------------------ sign / match-products


def verify_many_grid(res):
    """in-toto-sign --verify with several keys, every small pattern of "signed / did not sign" among the keys asked for,
    both formats, every run: status 0 exactly when every key asked for verifies."""
    from in_toto.models.layout import Layout
    from in_toto.models.metadata import Metablock, Envelope
    pool = W.pool()
    S1, S2, N1 = pool[0], pool[1], pool[2]
    grid = [([S1], [S1, N1]), ([S1], [N1, S1]), ([S1, S2], [S1, S2, N1]), ([S1, S2], [N1, S1]), ([S1], [S1]), ([S1, S2], [S2, S1]), ([S1], [N1])]
    for dsse in (False, True):
        for signers, ask in grid:
            d = tempfile.mkdtemp(prefix="verif-c18g-")
            cwd = os.getcwd()
            try:
                os.chdir(d)
                lay = Layout(expires="2031-01-01T00:00:00Z")
                (Envelope.from_signable(lay) if dsse else Metablock(signed=lay)).dump("l.layout")
                _av = ["-f", "l.layout", "-k"] + [priv_path(x) for x in signers]
                st, _o, _e = cli.run_main("in_toto_sign", _av)
                record(res, "sign", {"variant": "verify_many_grid", "dsse": dsse, "n_keys": len(signers)}, st, "success", argv=_av, file_kind="layout")
                _av = ["-f", "l.layout", "--verify", "-k"] + [write_pub_pem(x, d) for x in ask]
                st, _o, _e = cli.run_main("in_toto_sign", _av)
                all_ok = all(x in signers for x in ask)
                record(res, "sign_verify", {"variant": "verify_many_grid", "dsse": dsse, "asked_signed": [x in signers for x in ask]}, st,
                       "success" if all_ok else "sig", argv=_av, file_kind="layout")
            finally:
                os.chdir(cwd)
                shutil.rmtree(d, ignore_errors=True)


def sign_match_cases(rng, res, n, base=None):
    from in_toto.models.layout import Layout
    from in_toto.models.link import Link
    from in_toto.models.metadata import Metablock, Envelope
    for j in range(n):
        d = tempfile.mkdtemp(prefix="verif-c18s-")
        cwd = os.getcwd()
        try:
            os.chdir(d)
            k, other = rng.sample(W.pool(), 2)
            dsse = rng.random() < 0.5
            lay = Layout(expires="2031-01-01T00:00:00Z")
            md = Envelope.from_signable(lay) if dsse else Metablock(signed=lay)
            md.dump("l.layout")
            variant = draw(rng, ["sign_verify_ok", "verify_wrong_key", "verify_unsigned", "verify_with_append", "both_key_kinds",
                                  "missing_file", "sign_bad_key", "link_two_keys", "match_equal", "match_changed", "match_missing_link", "match_other_algorithm", "match_no_digest", "match_extra_file",
                                  "match_empty_name_changed", "match_empty_name_equal", "match_colon_path_changed", "match_colon_path_equal",
                                  "match_exclude_replaces_defaults", "match_exclude_replaces_defaults_equal", "verify_modified_after_signing",
                                  "verify_modified_after_signing",
                                  "link_append", "link_one_key", "verify_gpg_no_id", "verify_with_output", "no_key_arg",
                                  "verify_with_empty_output", "verify_many", "verify_many", "verify_many", "link_verify_gpg_no_id",
                                  "verify_both_key_kinds", "verify_both_key_kinds",
                                  "gpg_sign_verify_ok", "gpg_verify_other_key", "gpg_sign_default_key", "gpg_sign_envelope",
                                  "verify_missing_key_file", "verify_garbage_key_file", "sign_with_output", "match_only_in_products"], base, j)
            if variant.startswith("gpg_") and not W.gpg_available():
                variant = "sign_verify_ok"
            if variant.startswith("gpg_"):
                # signing and checking with a gpg key (by id, or the default key of the home): a traditional layout is
                # signed and verifies with that key, not with another one; an envelope cannot be signed with gpg at all
                g, g2 = W.gpg_key("no_sub"), W.gpg_key("no_sub2")
                if variant == "gpg_sign_envelope":
                    Envelope.from_signable(lay).dump("l.layout")
                else:
                    Metablock(signed=lay).dump("l.layout")
                _av = ["-f", "l.layout", "-g"] + ([] if variant == "gpg_sign_default_key" else [g.keyid]) + ["--gpg-home", g.gpg_home]
                st, _o, _e = cli.run_main("in_toto_sign", _av)
                record(res, "sign", {"variant": variant}, st, "fail" if variant == "gpg_sign_envelope" else "success")
                if variant not in ("gpg_sign_envelope", "gpg_sign_default_key"):      # (which key a home's default is, is gpg's business)
                    vg = g2 if variant == "gpg_verify_other_key" else g
                    _av = ["-f", "l.layout", "--verify", "-g", vg.keyid, "--gpg-home", vg.gpg_home]
                    st, _o, _e = cli.run_main("in_toto_sign", _av)
                    record(res, "sign_verify", {"variant": variant}, st, "sig" if variant == "gpg_verify_other_key" else "success")
            elif variant == "sign_with_output":
                # -o: the signed layout goes to the named file (status 0 iff it is there), the input stays as it was
                before = open("l.layout", "rb").read()
                _av = ["-f", "l.layout", "-k", priv_path(k), "-o", "signed.layout"]
                st, _o, _e = cli.run_main("in_toto_sign", _av)
                record(res, "sign", {"variant": variant, "dsse": dsse, "key": k.kind}, st, "success", expect_file=os.path.join(d, "signed.layout"),
                       argv=_av, file_kind="layout")
                if open("l.layout", "rb").read() != before:
                    res.fail("oracle", {"op": "cli_status", "tool": "sign", "args": {"variant": variant}, "outcome": "success"},
                             {"why": "in-toto-sign -o changed its input file"})
                _av = ["-f", "signed.layout", "-k", write_pub_pem(k, d), "--verify"]
                st, _o, _e = cli.run_main("in_toto_sign", _av)
                record(res, "sign_verify", {"variant": variant, "dsse": dsse, "key": k.kind}, st, "success", argv=_av, file_kind="layout")
            elif variant in ("verify_missing_key_file", "verify_garbage_key_file"):
                # a signed layout checked with a key file that is not there / is not a key: the check could not be made -
                # neither "verified" nor "bad signature"
                md.create_signature(k.signer); md.dump("l.layout")
                kf = os.path.join(d, "nokey.pem")
                if variant == "verify_garbage_key_file":
                    open(kf, "w").write("-----BEGIN PUBLIC KEY-----\nnot a key\n-----END PUBLIC KEY-----\n")
                _av = ["-f", "l.layout", "--verify", "-k", kf]
                st, _o, _e = cli.run_main("in_toto_sign", _av)
                record(res, "sign_verify", {"variant": variant, "dsse": dsse}, st, "fail")
            elif variant in ("sign_verify_ok", "verify_wrong_key"):
                _av = ["-f", "l.layout", "-k", priv_path(k)]
                st, _o, _e = cli.run_main("in_toto_sign", _av)
                record(res, "sign", {"variant": variant, "dsse": dsse, "key": k.kind}, st, "success", argv=_av, file_kind="layout")
                vk = k if variant == "sign_verify_ok" else other
                _av = ["-f", "l.layout", "-k", write_pub_pem(vk, d), "--verify"]
                st, _o, _e = cli.run_main("in_toto_sign", _av)
                record(res, "sign_verify", {"variant": variant, "dsse": dsse, "key": k.kind}, st,
                       "success" if variant == "sign_verify_ok" else "sig", argv=_av, file_kind="layout")
            elif variant == "verify_unsigned":
                _av = ["-f", "l.layout", "-k", write_pub_pem(k, d), "--verify"]
                st, _o, _e = cli.run_main("in_toto_sign", _av)
                record(res, "sign_verify", {"variant": variant, "dsse": dsse}, st, "sig", argv=_av, file_kind="layout")
            elif variant == "verify_with_append":
                _av = ["-f", "l.layout", "-k", write_pub_pem(k, d), "--verify", "-a"]
                st, _o, _e = cli.run_main("in_toto_sign", _av)
                record(res, "sign_verify", {"variant": variant}, st, "usage", argv=_av, file_kind="layout")
            elif variant == "both_key_kinds":
                _av = ["-f", "l.layout", "-k", priv_path(k), "-g"]
                st, _o, _e = cli.run_main("in_toto_sign", _av)
                record(res, "sign", {"variant": variant}, st, "usage", argv=_av, file_kind="layout")
            elif variant == "verify_modified_after_signing":
                # signed, then the content changed (the signature is still there, under the signer's key id, and does
                # not fit any more): checking with the signer's own key is a failed signature check - status 1
                import base64 as _b64
                _av = ["-f", "l.layout", "-k", priv_path(k)]
                st, _o, _e = cli.run_main("in_toto_sign", _av)
                record(res, "sign", {"variant": variant, "dsse": dsse, "key": k.kind}, st, "success", argv=_av, file_kind="layout")
                c_ = json.load(open("l.layout"))
                if "signed" in c_:
                    c_["signed"]["readme"] = "changed after signing"
                else:
                    body_ = json.loads(_b64.b64decode(c_["payload"]))
                    body_["readme"] = "changed after signing"
                    c_["payload"] = _b64.b64encode(json.dumps(body_, sort_keys=True).encode()).decode()
                json.dump(c_, open("l.layout", "w"))
                _av = ["-f", "l.layout", "-k", write_pub_pem(k, d), "--verify"]
                st, _o, _e = cli.run_main("in_toto_sign", _av)
                record(res, "sign_verify", {"variant": variant, "dsse": dsse, "key": k.kind}, st, "sig", argv=_av, file_kind="layout")
            elif variant == "verify_both_key_kinds":
                # --verify with a key file that did sign and a gpg key that did not (either order): whatever the tool makes
                # of the two options together, a key was given that has no valid signature - not a success; the front end
                # treats the combination as a usage error
                _av = ["-f", "l.layout", "-k", priv_path(k)]
                st, _o, _e = cli.run_main("in_toto_sign", _av)
                record(res, "sign", {"variant": variant, "dsse": dsse, "key": k.kind}, st, "success", argv=_av, file_kind="layout")
                if W.gpg_available():
                    g = W.gpg_key("no_sub")
                    kpart, gpart = ["-k", write_pub_pem(k, d)], ["-g", g.keyid, "--gpg-home", g.gpg_home]
                    _av = ["-f", "l.layout", "--verify"] + (kpart + gpart if rng.random() < 0.5 else gpart + kpart)
                    st, _o, _e = cli.run_main("in_toto_sign", _av)
                    record(res, "sign_verify", {"variant": variant, "dsse": dsse, "key": k.kind}, st, "usage", argv=_av, file_kind="layout")
            elif variant == "missing_file":
                _av = ["-f", "nope.layout", "-k", priv_path(k)]
                st, _o, _e = cli.run_main("in_toto_sign", _av)
                record(res, "sign", {"variant": variant}, st, "load", argv=_av, file_kind="unloadable")
            elif variant == "sign_bad_key":
                _av = ["-f", "l.layout", "-k", os.path.join(d, "nokey.pem")]
                st, _o, _e = cli.run_main("in_toto_sign", _av)
                record(res, "sign", {"variant": variant}, st, "fail", argv=_av, file_kind="layout")
            elif variant == "link_verify_gpg_no_id":
                lk = Link(name="s")
                mdl = Envelope.from_signable(lk) if dsse else Metablock(signed=lk)
                mdl.create_signature(k.signer)
                if rng.random() < 0.5:
                    mdl.signatures = []           # nothing that could verify at all
                mdl.dump("s.link")
                _av = ["-f", "s.link", "--verify", "-g"]
                st, _o, _e = cli.run_main("in_toto_sign", _av)
                record(res, "sign_verify", {"variant": variant, "dsse": dsse}, st, "usage", argv=_av, file_kind="link")
            elif variant == "verify_many":
                # a layout signed by some keys, verified with several keys in one invocation, in any order: status 0
                # exactly when every given key verifies
                trio = rng.sample(W.pool(), 3)
                signers = rng.sample(trio, rng.randrange(1, 3))
                _av = ["-f", "l.layout", "-k"] + [priv_path(x) for x in signers]
                st, _o, _e = cli.run_main("in_toto_sign", _av)
                record(res, "sign", {"variant": variant, "dsse": dsse, "n_keys": len(signers)}, st, "success", argv=_av, file_kind="layout")
                ask = rng.sample(trio, rng.randrange(2, 4))
                _av = ["-f", "l.layout", "--verify", "-k"] + [write_pub_pem(x, d) for x in ask]
                st, _o, _e = cli.run_main("in_toto_sign", _av)
                all_ok = all(x in signers for x in ask)
                record(res, "sign_verify", {"variant": variant, "dsse": dsse, "asked_signed": [x in signers for x in ask]}, st,
                       "success" if all_ok else "sig", argv=_av, file_kind="layout")
                # the model of the loop over the keys: the first failing check decides, only all passing is success
                mm = core.driver().call({"op": "sign_verify_many", "results": ["success" if x in signers else "sig" for x in ask]})["ok"]
                res.evaluations += 1
                if norm(st) != mm:
                    res.fail("disagree", {"op": "sign_verify_many", "asked_signed": [x in signers for x in ask]},
                             {"op": "sign_verify_many", "impl": st, "model": mm})
            elif variant in ("link_append", "link_one_key"):
                lk = Link(name="s")
                (Envelope.from_signable(lk) if dsse else Metablock(signed=lk)).dump("s.link")
                _av = ["-f", "s.link", "-k", priv_path(k)] + (["-a"] if variant == "link_append" else [])
                st, _o, _e = cli.run_main("in_toto_sign", _av)
                record(res, "sign", {"variant": variant, "dsse": dsse}, st, "usage" if variant == "link_append" else "success",
                       argv=_av, file_kind="link")
            elif variant in ("verify_gpg_no_id", "verify_with_output", "no_key_arg", "verify_with_empty_output"):
                _av = {"verify_gpg_no_id": ["-f", "l.layout", "--verify", "-g"],
                       "verify_with_output": ["-f", "l.layout", "--verify", "-k", write_pub_pem(k, d), "-o", "out.layout"],
                       "verify_with_empty_output": ["-f", "l.layout", "--verify", "-k", write_pub_pem(k, d), "-o", ""],
                       "no_key_arg": ["-f", "l.layout"]}[variant]
                st, _o, _e = cli.run_main("in_toto_sign", _av)
                # an empty -o value is not a conflict for main(); the unsigned layout then fails the signature check
                record(res, "sign_verify" if "--verify" in _av else "sign", {"variant": variant, "dsse": dsse}, st,
                       "sig" if variant == "verify_with_empty_output" else "usage", argv=_av, file_kind="layout")
            elif variant == "link_two_keys":
                lk = Link(name="s")
                (Envelope.from_signable(lk) if dsse else Metablock(signed=lk)).dump("s.link")
                _av = ["-f", "s.link", "-k", priv_path(k), priv_path(other)]
                st, _o, _e = cli.run_main("in_toto_sign", _av)
                record(res, "sign", {"variant": variant}, st, "usage", argv=_av, file_kind="link")
            else:
                open("a.txt", "w").write("a\n")
                import hashlib
                lk = Link(name="s", products={"a.txt": {"sha256": hashlib.sha256(b"a\n").hexdigest()}})
                (Envelope.from_signable(lk) if dsse else Metablock(signed=lk)).dump(os.path.join(d, "s.link"))
                argv = ["--link", os.path.join(d, "s.link"), "--paths", "a.txt"]
                outcome = "success"
                if variant == "match_changed":
                    open("a.txt", "w").write("changed\n"); outcome = "differ"
                elif variant in ("match_other_algorithm", "match_no_digest"):
                    # a link whose record for the file shares no hash algorithm with the local one (written by another
                    # tool, or with other settings), and a local file that is not the recorded one: nothing shows the
                    # files equal, the status must not say so
                    rec = {"sha512": hashlib.sha512(b"a\n").hexdigest()} if variant == "match_other_algorithm" else {}
                    lk = Link(name="s", products={"a.txt": rec})
                    (Envelope.from_signable(lk) if dsse else Metablock(signed=lk)).dump(os.path.join(d, "s.link"))
                    open("a.txt", "w").write("changed\n"); outcome = "differ"
                elif variant == "match_extra_file":
                    open("b.txt", "w").write("b\n"); argv += ["b.txt"]; outcome = "differ"
                elif variant == "match_only_in_products":
                    # the link lists a product that is not among the local files
                    lk = Link(name="s", products={"a.txt": {"sha256": hashlib.sha256(b"a\n").hexdigest()},
                                                  "gone.txt": {"sha256": hashlib.sha256(b"g\n").hexdigest()}})
                    (Envelope.from_signable(lk) if dsse else Metablock(signed=lk)).dump(os.path.join(d, "s.link"))
                    outcome = "differ"
                elif variant.startswith("match_exclude_replaces_defaults"):
                    # patterns given with --exclude REPLACE the default ones (as everywhere in in-toto): a stray byte-code
                    # file is then a local file like any other - not in the products, unless the step recorded it
                    open("app.pyc", "w").write("pyc\n")
                    prods = {"a.txt": {"sha256": hashlib.sha256(b"a\n").hexdigest()}}
                    if variant.endswith("equal"):
                        prods["app.pyc"] = {"sha256": hashlib.sha256(b"pyc\n").hexdigest()}
                    else:
                        outcome = "differ"
                    lk = Link(name="s", products=prods)
                    (Envelope.from_signable(lk) if dsse else Metablock(signed=lk)).dump(os.path.join(d, "s.link"))
                    argv = ["--link", os.path.join(d, "s.link"), "--paths", "a.txt", "app.pyc", "--exclude", "*.tmp"]
                elif variant.startswith("match_empty_name"):
                    # the prefix option strips the whole path: the product is recorded - and compared - under the empty name
                    lk = Link(name="s", products={"": {"sha256": hashlib.sha256(b"a\n").hexdigest()}})
                    (Envelope.from_signable(lk) if dsse else Metablock(signed=lk)).dump(os.path.join(d, "s.link"))
                    argv += ["--lstrip-paths", "a.txt"]
                    if variant.endswith("changed"):
                        open("a.txt", "w").write("changed\n"); outcome = "differ"
                elif variant.startswith("match_colon_path"):
                    # a file whose name contains a colon, named explicitly (not a URI of a registered scheme: a plain path)
                    os.makedirs("out", exist_ok=True)
                    open("out/app:v1.bin", "w").write("a\n")
                    lk = Link(name="s", products={"out/app:v1.bin": {"sha256": hashlib.sha256(b"a\n").hexdigest()}})
                    (Envelope.from_signable(lk) if dsse else Metablock(signed=lk)).dump(os.path.join(d, "s.link"))
                    argv = ["--link", os.path.join(d, "s.link"), "--paths", "out/app:v1.bin"]
                    if variant.endswith("changed"):
                        open("out/app:v1.bin", "w").write("changed\n"); outcome = "differ"
                elif variant == "match_missing_link":
                    argv[1] = os.path.join(d, "nope.link"); outcome = "load"
                _av = argv + (["-v"] if rng.random() < 0.4 else [])      # (what is printed must not decide the status)
                st, _o, _e = cli.run_main("in_toto_match_products", _av)
                record(res, "match_products", {"variant": variant, "dsse": dsse}, st, outcome, argv=_av, file_kind=None)
        finally:
            os.chdir(cwd)
            shutil.rmtree(d, ignore_errors=True)


INCOMPLETE = {"in_toto_run": [[], ["-n", "x"], ["--"], ["-n", "x", "--", "true"]],
              "in_toto_record": [[], ["start"], ["stop"], ["-n", "x"], ["start", "-n", "x"]],
              "in_toto_verify": [[], ["-l", "x"], ["--link-dir", "."]],
              "in_toto_sign": [[], ["-f", "x"], ["--verify"]],
              "in_toto_mock": [[], ["-n", "x"], ["--", "true"]],
              "in_toto_match_products": [[], ["--paths", "."]]}


def incomplete_cases(res):
    """Command lines that lack a required part (no arguments at all, no sub-command, no key, no layout, no command):
    usage errors, status 2 - stated here, not derived from in-toto's own parser (which the other families consult)."""
    d = tempfile.mkdtemp(prefix="verif-c18u-")
    cwd = os.getcwd()
    try:
        os.chdir(d)
        for tool, argvs in sorted(INCOMPLETE.items()):
            for argv in argvs:
                st, _o, _e = cli.run_main(tool, argv)
                res.case({"tool": tool, "argv": argv, "status": st}, True, st == 2, sample_cap=1)
                res.count("incomplete_command_line")
                if st != 2:
                    res.fail("oracle", {"op": "incomplete_command_line", "tool": tool, "argv": argv},
                             {"why": "%s %s lacks a required part: a usage error, exit status 2 - but it ended with %r" % (
                                 tool.replace("_", "-"), " ".join(argv), st)})
    finally:
        os.chdir(cwd)
        shutil.rmtree(d, ignore_errors=True)


def interrupt_case(rng, res):
    """The front end is interrupted (SIGINT, as from Ctrl-C) while the step command runs: no link is written - and the
    exit status does not say success."""
    import signal, subprocess, time
    tool = rng.choice(["in_toto_run", "in_toto_mock"])
    spelling = rng.choice(["script", "module"])
    k = rng.choice(W.pool())
    d = tempfile.mkdtemp(prefix="verif-c18i-")
    try:
        child = [sys.executable, "-c", "import time; open('started', 'w').close(); time.sleep(30)"]
        argv = ["-n", "st"] + (["-p", ".", "--signing-key", priv_path(k)] if tool == "in_toto_run" else []) + ["--"] + child
        if spelling == "script":
            name, mod, func = cli.console_scripts().get(tool, (tool.replace("_", "-"), "in_toto." + tool, "main"))
            cmd = [sys.executable, "-c", "import sys\nfrom %s import %s\nsys.argv[0] = %r\nsys.exit(%s())\n" % (mod, func, name, func)] + argv
        else:
            cmd = [sys.executable, "-m", "in_toto." + tool] + argv
        p = subprocess.Popen(cmd, cwd=d, stdin=subprocess.DEVNULL, stdout=subprocess.DEVNULL, stderr=subprocess.DEVNULL,
                             start_new_session=True)
        t0 = time.time()
        while not os.path.exists(os.path.join(d, "started")) and time.time() - t0 < 60 and p.poll() is None:
            time.sleep(0.05)
        started = os.path.exists(os.path.join(d, "started"))
        if p.poll() is None:
            os.kill(p.pid, signal.SIGINT)
        try:
            st = p.wait(timeout=60)
        except subprocess.TimeoutExpired:
            p.kill(); p.wait()
            st = "still running 60 s after SIGINT"
        try:
            os.killpg(p.pid, signal.SIGKILL)        # (the sleeping step command, if it is still there)
        except OSError:
            pass
        links = sorted(f for f in os.listdir(d) if f.endswith(".link"))
    finally:
        shutil.rmtree(d, ignore_errors=True)
    case = {"op": "interrupt", "tool": tool, "front_end_run_as": spelling, "key": k.kind}
    ok = (not started) or (st != 0 and not links)
    res.case(dict(case, status=st, links=links, command_had_started=started), started, ok, sample_cap=1)
    res.count("interrupted_front_end")
    if not ok:
        res.fail("oracle", case, {"why": "interrupted while the step command ran: exit status %r, link files %r - an operation that did "
                                         "not complete is not a success" % (st, links)})


def shard(seed, idx, n, tier):
    res = core.Result()
    rng = core.rng_for(seed, "c18", idx)
    if idx in (3, 4, 5, 6):
        interrupt_case(rng, res)
    if idx == 0:
        incomplete_cases(res)
    if idx == 7:
        verify_many_grid(res)
    if idx in (1, 2):
        # --layout-keys with fewer --key-types, the surplus key one that did not sign (shared with C01): not a success
        from harness.props import c01
        if idx == 1:
            c01.layout_keys_types_case(res, "C18")
    verify_cases(rng, res, n, base=idx * n)
    if idx < 4:
        gpg_verify_case(rng, res)
    run_record_cases(rng, res, n, base=idx * n)
    sign_match_cases(rng, res, n, base=idx * n)
    # the same families with the front end as a child process: the console-script wrapper of [project.scripts]
    # (`sys.exit(main())`) and `python -m in_toto.<tool>` - the exit status of a process is what C18 is about, and a
    # status that main() returns instead of exiting with, or an exception that escapes, only shows there
    k = 1 if tier == "quick" else max(2, n // 6)
    for spelling in (("script", "module") if (tier != "quick" or idx % 2 == 0) else ("module", "script"))[:(1 if tier == "quick" else 2)]:
        prng = core.rng_for(seed, "c18-process", spelling, idx)
        before = len(res.failures)
        with cli.mode(spelling):
            if idx in (0, 1):
                incomplete_cases(res)
            verify_cases(prng, res, k)
            run_record_cases(prng, res, k + 1)
            sign_match_cases(prng, res, k)
        res.count("front_end_as_child_process_" + spelling, 1)
        for f in res.failures[before:]:
            f["case"]["front_end_run_as"] = spelling
    # status 0 stands for the library call the command line describes (harness/clicall.py): a usage error makes none
    from harness import clicall
    for _ in range(max(2, n // 2)):
        for t in ("run", "record_start", "record_stop"):
            clicall.one_case(rng, res, t)
        for t in ("match_products", "verify"):
            clicall.one_other(rng, res, t)
    return res


def run(tier, seed):
    per = 5 if tier == "quick" else 60
    return core.parallel(core.call, [(shard, (seed, i, per, tier)) for i in range(16)])


def replay(case):
    if "model_request" in case:
        return vcommon.replay(case)
    return {"note": "invocations are regenerated from the seed", "case": case,
            "model_status": model_status(case["tool"], case["outcome"])}


def search(failure, tier, seed):
    res = core.parallel(core.call, [(shard, (seed + 1000 + i, i, 8, tier)) for i in range(16)])
    for f in res.failures:
        if f["kind"] == "oracle":
            return f
    return None
