"""C09 — signatures bind exact content across formats, key types and disk round-trips.

(a) op `canon` vs securesystemslib.formats.encode_canonical on random JSON values;
(b) links / layouts built and signed THROUGH in-toto (Metablock / Envelope,
    every key type incl. gpg master and subkey), dumped (compact / indented),
    loaded, verified; signable bytes before = after the disk round trip =
    the model's bytes = the harness's own canonical bytes; member order of the
    supplied dictionaries is irrelevant; every single-leaf edit and signature edit
    makes verification fail; any other key fails;
(c) sequences of in-toto-sign operations (sign = replace, append, verify) through `main`;
(d) histories of verify / sign / append / edit / reload on one in-memory object in both formats (the model is
    stateless, so any dependence of a check on earlier checks shows as a disagreement)."""
import base64
import copy
import json
import os
import random
import shutil
import tempfile

from harness import cli, core, scen, world as W

RULE = ("random JSON values (unicode, quotes, backslashes, control characters, big integers, nesting, shuffled member "
        "order, floats) for canon; random links and layouts (unicode / quote / backslash / control characters, nested and "
        "empty byproducts, large integers, up to 40 artifacts) x rsa / ecdsa / ed25519 / gpg master / gpg subkey x both "
        "formats x compact / indented, with leaf and signature edits; in-toto-sign sequences of length 1-4; histories of 4-10 "
        "verify / impostor-key / sign / append / edit / reload operations on one in-memory object per format. Non-trivial: "
        "value nests at least one object or list / payload has at least one artifact; distinct by content.")
ASSUMPTIONS = ["genuineness of a signature produced by in-toto is established with securesystemslib's key classes over the "
               "harness's own canonical bytes before it enters the ground-truth table",
               "lone surrogates are not generated (in-toto itself fails to encode them)"]

CHARS = list("abcXYZ019 _-./") + ['"', "\\", "\n", "\t", "\x01", "é", "ü", "😀", " ", "{", "}", ":", ","]


def rstr(rng, n=8):
    return "".join(rng.choice(CHARS) for _ in range(rng.randrange(0, n)))


def rjson(rng, depth=0):
    r = rng.random()
    if depth > 3 or r < 0.35:
        k = rng.randrange(7)
        if k == 0:
            return rstr(rng, 12)
        if k == 1:
            return rng.choice([0, 1, -1, 7, 2**31, -2**63, 10**30, -10**25, rng.randrange(-1000, 1000)])
        if k == 2:
            return rng.choice([True, False])
        if k == 3:
            return None
        if k == 4:
            return rstr(rng, 3)
        if k == 5 and rng.random() < 0.15:
            return rng.choice([1.5, -0.0, 1e300])
        return rng.randrange(100)
    if r < 0.65:
        return [rjson(rng, depth + 1) for _ in range(rng.randrange(0, 5))]
    d = {}
    for _ in range(rng.randrange(0, 6)):
        d[rstr(rng, 6)] = rjson(rng, depth + 1)
    return d


def shuffled(obj, rng):
    if isinstance(obj, dict):
        items = list(obj.items())
        rng.shuffle(items)
        return {k: shuffled(v, rng) for k, v in items}
    if isinstance(obj, list):
        return [shuffled(v, rng) for v in obj]
    return obj


def shard_canon(seed, idx, n):
    from securesystemslib.formats import encode_canonical
    from securesystemslib.exceptions import FormatError
    res = core.Result()
    rng = core.rng_for(seed, "c09", "canon", idx)
    vals = [rjson(rng) for _ in range(n)]
    model = core.driver().batch({"op": "canon", "v": W.tagged(v)} for v in vals)
    for v, m in zip(vals, model):
        try:
            i = {"ok": encode_canonical(v)}
        except FormatError:
            i = {"err": "FormatError"}
        agreed = i == m
        nontrivial = isinstance(v, (dict, list)) and any(isinstance(x, (dict, list)) for x in (v.values() if isinstance(v, dict) else v))
        res.case({"value": v if len(json.dumps(v)) < 300 else "(large)", "canon": i.get("ok", i)[:200] if "ok" in i else i},
                 nontrivial, agreed, sample_cap=2)
        res.count("canon_" + ("ok" if "ok" in i else "FormatError"))
        if not agreed:
            res.fail("disagree", {"op": "canon", "v": v}, {"op": "canon", "impl": i, "model": m})
        if "ok" in i:
            v2 = shuffled(v, rng)
            i2 = encode_canonical(v2)
            res.evaluations += 1
            if i2 != i["ok"]:
                res.fail("oracle", {"op": "canon", "v": v}, {"why": "canonical bytes depend on member order", "a": i["ok"], "b": i2})
            try:
                own = W.canon(v)
            except ValueError:
                own = None
            if own != i["ok"]:
                res.fail("disagree", {"op": "canon", "v": v}, {"op": "canon-own", "impl": i, "harness": own})
    return res


# ------------------------------------------------------------------ (b)


def rand_link_payload(rng):
    n = rng.choice([0, 1, 2, 5, 40])
    arts = {}
    for j in range(n):
        arts[rstr(rng, 10) + str(j)] = {"sha256": "%064x" % rng.getrandbits(256)}
    prods = dict(list(arts.items())[: n // 2])
    prods[rstr(rng, 5) + "p"] = {"sha256": "%064x" % rng.getrandbits(256), "md5": "%032x" % rng.getrandbits(128)}
    byp = rng.choice([{}, {"return-value": rng.choice([0, 1, 255, 10**20]), "stdout": rstr(rng, 30), "stderr": ""},
                      {"return-value": rng.choice([0, 1]), "interactive": rng.choice([False, True]), "cached": rng.choice([False, True]), "stdout": "", "stderr": ""},
                      {"nested": {"a": [1, {"b": rstr(rng)}], "e": {}}, "return-value": 0}])
    return {"name": rstr(rng, 6) or "n", "materials": arts, "products": prods, "byproducts": byp,
            "command": [rstr(rng, 9) for _ in range(rng.randrange(0, 4))],
            "environment": rng.choice([{}, {"workdir": "/w/" + rstr(rng)}])}


def rand_layout_kwargs(rng):
    from in_toto.models.layout import Step, Inspection
    pool = W.pool()
    keys = {k.keyid: k.pub for k in rng.sample(pool, rng.randrange(0, 3))}
    steps = []
    for j in range(rng.randrange(0, 3)):
        # (several authorised ids, in DEscending order for the first step and shuffled for the others: their order is
        #  part of the signed content and must come back from a file as it went in)
        ids = [k.keyid for k in rng.sample(pool, rng.randrange(2, 4))]
        ids = sorted(ids, reverse=True) if j == 0 else ids
        steps.append(Step(name="s%d%s" % (j, rstr(rng, 3)), pubkeys=(ids if rng.random() < 0.7 or j == 0 else list(keys)[:1]), threshold=rng.choice([1, 2, 0, 1]),
                          expected_materials=[["ALLOW", rstr(rng, 5) or "*"]],
                          expected_products=[["MATCH", "*", "WITH", "PRODUCTS", "FROM", "x"], ["DISALLOW", "*"]],
                          expected_command=[rstr(rng, 5)]))
        if j == 0 or rng.random() < 0.5:
            steps[-1].pubkeys = list(ids)          # (assigned after construction, as the documentation builds layouts)
    insp = [Inspection(name="i" + rstr(rng, 3), run=["true", rstr(rng, 4)])] if rng.random() < 0.5 else []
    return {"steps": steps, "inspect": insp, "keys": keys, "readme": rstr(rng, 20),
            "expires": "20%02d-0%d-1%dT0%d:00:59Z" % (rng.randrange(27, 99), rng.randrange(1, 10), rng.randrange(0, 10), rng.randrange(0, 10))}


def table_from_file(content, keys):
    """Ground truth for a file signed through in-toto: a row for every signature
    entry that genuinely verifies (securesystemslib key classes) over the
    harness's own bytes."""
    from securesystemslib.signer import Key, Signature
    import securesystemslib.gpg.functions as gpgf
    t = W.SigTable()
    if "payload" in content:
        msg = W.pae(W.PAYLOAD_TYPE, base64.b64decode(content["payload"]))
    else:
        msg = W.canon(content["signed"]).encode("utf8")
    for s in content.get("signatures", []):
        for k in keys:
            cands = [k.pub] + list((k.pub.get("subkeys") or {}).values())
            for pub in cands:
                if pub["keyid"] != s.get("keyid"):
                    continue
                try:
                    if "other_headers" in s:
                        ok = gpgf.verify_signature(s, pub, msg)
                        val = s["signature"] + "|" + s["other_headers"]
                    else:
                        val = base64.b64decode(s["sig"]).hex() if "payload" in content else s["sig"]
                        key = Key.from_dict(pub["keyid"], copy.deepcopy(pub))
                        key.verify_signature(Signature(pub["keyid"], val), msg)
                        ok = True
                except Exception:  # pylint: disable=broad-except
                    ok = False
                if ok:
                    t.add(val, W.key_material(pub), msg)
    return t, msg


def impl_check(path, pub):
    from in_toto.models.metadata import Metadata, Metablock
    from in_toto.exceptions import SignatureVerificationError
    try:
        md = Metadata.load(path)
    except Exception as e:  # pylint: disable=broad-except
        return {"load": {"err": W.exc_class(e)}}
    try:
        md.verify_signature(json.loads(json.dumps(pub)))
        chk = "ok"
    except Exception as e:  # pylint: disable=broad-except
        chk = W.exc_class(e)
    try:
        b = md.signed.signable_bytes.decode("utf8") if isinstance(md, Metablock) else md.pae().decode("utf8")
    except Exception:  # pylint: disable=broad-except
        b = None
    return {"load": "ok", "check": chk, "bytes": b}


def model_check(content, pub, table):
    req = {"op": "load_verify_sig", "now_us": "1900000000000000", "now_s": "1900000000", "sigs": table.rows,
           "files": [], "insp": [], "file": W.file_for_model(content), "key": W.tagged(pub)}
    m = core.driver().call(req)
    if m.get("load") != "ok":
        return {"load": m["load"]}
    return {"load": "ok", "check": m["check"], "bytes": m["bytes"]}


def same_check(i, m):
    if i.get("load") != "ok" or m.get("load") != "ok":
        return i.get("load") != "ok" and m.get("load") != "ok"
    if i["check"] != m["check"]:
        if not (m["check"] == "Exception" and i["check"] not in ("ok", "SignatureVerificationError")):
            return False
    return i["bytes"] == m["bytes"]


def one_roundtrip(rng, res, d, use_gpg):
    import attr
    from in_toto.models.link import Link
    from in_toto.models.layout import Layout
    from in_toto.models.metadata import Metablock, Envelope, Metadata
    from in_toto.models._signer import GPGSigner
    pool = W.pool()
    is_layout = rng.random() < 0.4
    obj = Layout(**rand_layout_kwargs(rng)) if is_layout else Link(**rand_link_payload(rng))
    if use_gpg:
        mname = rng.choice(["two_subs", "one_sub", "no_sub"])
        master = W.gpg_key(mname)
        subs = [s for s in (master.pub.get("subkeys") or {}) if s in W.SIGNING_SUBKEYS]
        which = rng.choice([None] + subs)
        signer_k = master if which is None else W.gpg_key(mname, which)
        verify_pub = master.pub
        signer = GPGSigner(keyid=signer_k.gpg_id, homedir=signer_k.gpg_home)
        dsse = False
        keys_for_table = [master]
    else:
        signer_k = rng.choice(pool)
        verify_pub = signer_k.pub
        signer = signer_k.signer
        dsse = rng.random() < 0.5
        keys_for_table = [signer_k]
    compact = rng.random() < 0.5
    md = Envelope.from_signable(obj) if dsse else Metablock(signed=obj, compact_json=compact)
    md.create_signature(signer)
    before = md.pae() if dsse else md.signed.signable_bytes
    # member order independence: same content, dictionaries supplied in another order
    asd = attr.asdict(obj)
    obj2 = (Layout.read if is_layout else Link.read)(shuffled(json.loads(json.dumps(asd)), rng))
    if obj2.signable_bytes != obj.signable_bytes:
        res.fail("oracle", {"op": "roundtrip", "payload": asd}, {"why": "signable bytes depend on the order in which members were supplied"})
    # the same for the bytes a DSSE signature covers: wrapping equal content gives equal bytes, however the dictionaries
    # inside were filled, and a signature made over one wrapping verifies on the other
    e1, e2 = Envelope.from_signable(obj), Envelope.from_signable(obj2)
    res.evaluations += 1
    if e1.pae() != e2.pae():
        res.fail("oracle", {"op": "roundtrip", "payload": asd},
                 {"why": "the bytes a DSSE signature covers depend on the order in which members were supplied, not on the content alone"})
    if e1.pae() != W.pae(W.PAYLOAD_TYPE, json.dumps(json.loads(json.dumps(asd)), sort_keys=True).encode("utf8")):
        res.fail("disagree", {"op": "roundtrip", "payload": asd},
                 {"op": "pae", "why": "DSSE pre-authentication bytes differ from PAE(type, JSON of the content with sorted members)"})
    path = os.path.join(d, "f.%d" % rng.randrange(10**6))
    md.dump(path)
    try:
        content = json.load(open(path, encoding="utf8"))
    except ValueError as e:
        res.evaluations += 1
        res.fail("oracle", {"op": "roundtrip", "payload": asd, "dsse": dsse, "compact": compact},
                 {"why": "metadata signed through in-toto and written to disk cannot be loaded again: the file is not JSON (%s)" % str(e)[:120]})
        return
    table, msg = table_from_file(content, keys_for_table)
    desc = {"kind": "layout" if is_layout else "link", "dsse": dsse, "compact": compact, "key": signer_k.kind,
            "gpg_signer": getattr(signer_k, "gpg_id", None)}
    other = rng.choice([k for k in pool if k is not signer_k])
    variants = [("untouched", content, verify_pub, True), ("other_key", content, other.pub, False)]
    e = scen.edit_payload_leaf(content, rng)
    if e:
        variants.append(("leaf_edit", e[0], verify_pub, False))
    e = scen.edit_signature(content, rng)
    if e:
        variants.append(("sig_edit", e[0], verify_pub, False))
    e = scen.falsy_edit(content, rng)
    if e:
        variants.append(("falsy_edit", e[0], verify_pub, False))
    e = scen.shadow_signature(content, rng)
    if e:
        variants.append(("shadow_signature", e[0], verify_pub, True))
    for label, c, pub, must_verify in variants:
        p2 = path + "." + label
        json.dump(c, open(p2, "w", encoding="utf8"))
        i = impl_check(p2, pub)
        m = model_check(c, pub, table)
        agreed = same_check(i, m)
        nontrivial = bool(asd.get("materials") or asd.get("steps") or asd.get("keys"))
        res.case({"desc": dict(desc, variant=label), "impl": {k: v for k, v in i.items() if k != "bytes"},
                  "model": {k: v for k, v in m.items() if k != "bytes"}}, nontrivial, agreed, sample_cap=2)
        res.count("variant_" + label); res.count("key_" + signer_k.kind + ("_dsse" if dsse else ""))
        if not agreed:
            res.fail("disagree", {"op": "load_verify_sig", "desc": dict(desc, variant=label), "content": c, "key": pub,
                                  "table": table.rows}, {"op": "load_verify_sig", "impl": i, "model": m})
        verified = i.get("load") == "ok" and i["check"] == "ok"
        if label == "shadow_signature" and not verified:
            res.fail("oracle", {"op": "load_verify_sig", "desc": dict(desc, variant=label), "content": c, "key": pub, "table": table.rows},
                     {"why": "a signature entry with another key id (a fragment of the signer's) placed before the genuine signature made "
                             "the genuine one not count", "impl": {k: v for k, v in i.items() if k != "bytes"}})
        if label == "shadow_signature":
            continue
        if label == "untouched":
            if not verified:
                res.fail("oracle", {"op": "load_verify_sig", "desc": dict(desc, variant=label), "content": c, "key": pub, "table": table.rows},
                         {"why": "metadata signed through in-toto does not verify with the matching key after a disk round trip", "impl": i})
            if i.get("bytes") is not None and i["bytes"].encode("utf8") != before:
                res.fail("oracle", {"op": "load_verify_sig", "desc": desc, "content": c, "key": pub, "table": table.rows},
                         {"why": "signed bytes re-derived after load differ from the bytes that were signed"})
            if i.get("bytes") is not None and i["bytes"].encode("utf8") != msg:
                res.fail("disagree", {"op": "load_verify_sig", "desc": desc, "content": c, "key": pub, "table": table.rows},
                         {"op": "signable_bytes", "why": "harness canonical bytes differ from in-toto's"})
        elif verified:
            # a parse-equal edit (e.g. of an unknown member) cannot occur here: leaf edits hit real members
            before_c, _ = scen.payload_canon_by_model(content)
            after_c, err = scen.payload_canon_by_model(c)
            if label not in ("leaf_edit", "falsy_edit") or before_c != after_c or err or "payload" in c:
                res.fail("oracle", {"op": "load_verify_sig", "desc": dict(desc, variant=label), "content": c, "key": pub, "table": table.rows},
                         {"why": "verification succeeded after '%s'" % label, "impl": i})
    _surrogate_variant(content, verify_pub, path, rng, res, desc)


def _surrogate_variant(content, pub, path, rng, res, desc):
    """Oracle only (the model's strings cannot hold a lone surrogate): a character of the signed content replaced by the
    lone surrogates of its UTF-8 bytes is a change of the signed content like any other."""
    e = scen.surrogate_edit(content, rng)
    if not e:
        return
    p2 = path + ".surrogate"
    json.dump(e[0], open(p2, "w", encoding="utf8"))
    i = impl_check(p2, pub)
    res.evaluations += 1
    res.count("variant_surrogate_edit")
    if i.get("load") == "ok" and i["check"] == "ok":
        res.fail("oracle", {"op": "surrogate_edit", "desc": desc, "edit": e[1]},
                 {"why": "verification succeeded after a string of the signed content was edited (a character replaced by the lone "
                         "surrogates of its UTF-8 bytes)", "impl": {k: v for k, v in i.items() if k != "bytes"}})


def gpg_default_sequence(rng, res, d):
    """sign with ordinary keys, then `--gpg` without a key id (the home's default key): in replace mode the file carries
    the new signature only and no longer verifies with the replaced keys; with --append the old ones stay."""
    if not W.gpg_available():
        return
    from in_toto.models.layout import Layout
    from in_toto.models.metadata import Metablock
    keys = rng.sample(W.pool(), 2)
    sub = os.path.join(d, "gpgseq-%d" % rng.randrange(10**6))
    os.makedirs(sub)
    path = os.path.join(sub, "root.layout")
    Metablock(signed=Layout(**rand_layout_kwargs(rng))).dump(path)
    g = W.gpg_key("no_sub")
    append = rng.random() < 0.4
    st1 = cli.run_main("in_toto_sign", ["-f", path, "-k"] + [priv_path(k) for k in keys])[0]
    st2 = cli.run_main("in_toto_sign", ["-f", path, "-g", "--gpg-home", g.gpg_home] + (["-a"] if append else []))[0]
    ids = [s_["keyid"] for s_ in json.load(open(path, encoding="utf8"))["signatures"]]
    old_still = [k.keyid[:8] for k in keys if cli.run_main("in_toto_sign", ["-f", path, "-k", write_pub(k, d), "--verify"])[0] == 0]
    want_n = 3 if append else 1
    ok = st1 == 0 and st2 == 0 and len(ids) == want_n and (len(old_still) == (2 if append else 0))
    case = {"op": "gpg_default_sequence", "append": append, "keys": [k.kind for k in keys]}
    res.case(dict(case, signatures=[i[:8] for i in ids], old_keys_still_verify=old_still), True, ok, sample_cap=1)
    res.count("gpg_default_sequences")
    if not ok:
        res.fail("oracle", case, {"why": "after signing with two keys and then %s with the default gpg key the file carries %d signature(s) %r and "
                                         "verifies with the earlier keys %r" % ("appending" if append else "replacing", len(ids), [i[:8] for i in ids], old_still),
                                  "statuses": [st1, st2]})


def shrinking_rewrite_case(rng, res, d):
    """Metadata written over a LONGER file of the same name that cannot be removed (a directory the user may not change,
    a bind-mounted file): signed by two keys, then signed again in place by one. What is on disk afterwards is the new
    metadata and nothing else: it loads, and verifies with the key that signed."""
    from in_toto.models.layout import Layout
    from in_toto.models.metadata import Metadata, Metablock, Envelope
    k1, k2, k3 = rng.sample(W.pool(), 3)
    dsse = rng.random() < 0.5
    through = rng.choice(["library", "in-toto-sign"])
    path = os.path.join(d, "shrink-%d.layout" % rng.randrange(1 << 30))
    lay = Layout(expires="2031-01-01T00:00:00Z", readme="r" * rng.randrange(0, 40))
    md = Envelope.from_signable(lay) if dsse else Metablock(signed=lay)
    for k in (k1, k2, k3):
        md.create_signature(k.signer)
    md.dump(path)
    long_len = os.path.getsize(path)
    real_remove, real_unlink = os.remove, os.unlink

    def refuse(p_, *a, **kw):
        if os.path.abspath(p_) == path:
            raise PermissionError(13, "not removable (injected)", p_)
        return real_remove(p_, *a, **kw)
    got = {}
    try:
        os.remove = os.unlink = refuse
        try:
            if through == "library":
                md2 = Metadata.load(path)
                md2.signatures = []
                md2.create_signature(k1.signer)
                md2.dump(path)
            else:
                from harness import cli
                from harness.props.c18 import priv_path
                st, _o, _e = cli.run_main("in_toto_sign", ["-f", path, "-k", priv_path(k1)])
                got["status"] = st
        finally:
            os.remove, os.unlink = real_remove, real_unlink
        try:
            back = Metadata.load(path)
            got["signers"] = [getattr(s_, "keyid", None) or s_.get("keyid") for s_ in back.signatures]
            back.verify_signature(json.loads(json.dumps(k1.pub)))
            got["verifies"] = True
        except Exception as e:  # pylint: disable=broad-except
            got["error_after"] = W.exc_class(e)
    except Exception as e:  # pylint: disable=broad-except
        got["error"] = W.exc_class(e)
    finally:
        os.remove, os.unlink = real_remove, real_unlink
        try:
            os.remove(path)
        except OSError:
            pass
    ok = got.get("verifies") is True and got.get("signers") == [k1.keyid] and got.get("status", 0) == 0
    case = {"op": "shrinking_rewrite", "dsse": dsse, "through": through, "key": k1.kind, "longer_file_bytes": long_len}
    res.case(dict(case, outcome=got), True, ok, sample_cap=1)
    res.count("shrinking_rewrite")
    if not ok:
        res.fail("oracle", case, {"why": "metadata signed in place over a longer file that cannot be removed: what is on disk afterwards "
                                         "does not load / verify as the newly signed metadata", "outcome": got})


def shard_roundtrip(seed, idx, n, tier):
    res = core.Result()
    rng = core.rng_for(seed, "c09", "rt", idx)
    d = tempfile.mkdtemp(prefix="verif-c09-")
    try:
        ngpg = max(1, n // 8) if W.gpg_available() else 0
        for j in range(n):
            one_roundtrip(rng, res, d, j < ngpg)
        for _ in range(max(1, n // 5)):
            sign_sequence(rng, res, d)
        if idx % 4 == 0:
            gpg_default_sequence(rng, res, d)
        shrinking_rewrite_case(rng, res, d)
    finally:
        shutil.rmtree(d, ignore_errors=True)
    return res


# ------------------------------------------------------------------ (c) in-toto-sign


def write_pub(k, d):
    from cryptography.hazmat.primitives import serialization as ser
    p = os.path.join(d, "pub-%s.pem" % k.keyid[:8])
    if not os.path.exists(p):
        pub = k.signer._private_key.public_key()  # pylint: disable=protected-access
        open(p, "wb").write(pub.public_bytes(ser.Encoding.PEM, ser.PublicFormat.SubjectPublicKeyInfo))
    return p


def priv_path(k):
    for fn in sorted(os.listdir(os.path.join(W.HERE, "keydata"))):
        pass
    idx = W.pool().index(k)
    return os.path.join(W.HERE, "keydata", sorted(os.listdir(os.path.join(W.HERE, "keydata")))[idx])


def sign_sequence(rng, res, d):
    """sign (replace) / append / verify through in_toto_sign.main on a layout (signed in place or to --output) or a
    link (written to <name>.<keyid8>.link in the working directory).  Signature list and output path are the Lean
    `signKeyids` / `signOutPath`; the harness keeps its own account as the oracle."""
    from in_toto.models.layout import Layout
    from in_toto.models.link import Link
    from in_toto.models.metadata import Metablock, Envelope
    pool = W.pool()
    keys = rng.sample(pool, 3)
    is_link = rng.random() < 0.3
    obj = Link(**rand_link_payload(rng)) if is_link else Layout(**rand_layout_kwargs(rng))
    if is_link:
        obj.name = "st%d" % rng.randrange(100)
    dsse = rng.random() < 0.5
    md = Envelope.from_signable(obj) if dsse else Metablock(signed=obj)
    sub = os.path.join(d, "seq-%d" % rng.randrange(10**6))
    os.makedirs(sub)
    path = os.path.join(sub, "in.link" if is_link else "root.layout")
    md.dump(path)
    present = []          # the harness's own account of the signature list: key ids in order
    ops = []
    cwd = os.getcwd()
    try:
        os.chdir(sub)
        for _ in range(1 if is_link else rng.randrange(1, 5)):
            ks = rng.sample(keys, 1 if is_link else rng.randrange(1, 3))
            append = (not is_link) and rng.random() < 0.5
            out_opt = os.path.join(sub, "out-%d" % len(ops)) if rng.random() < 0.2 else None
            argv = ["-f", path, "-k"] + [priv_path(k) for k in ks] + (["-a"] if append else []) + (["-o", out_opt] if out_opt else [])
            st, _o, _e = cli.run_main("in_toto_sign", argv)
            ops.append({"op": "append" if append else "sign", "keys": [k.keyid[:8] for k in ks], "status": st, "output": bool(out_opt)})
            if st != 0:
                res.fail("oracle", {"op": "sign_sequence", "ops": ops}, {"why": "in-toto-sign failed to sign", "status": st})
                return
            m = core.driver().call({"op": "sign_ops", "append": append, "present": present, "given": [k.keyid for k in ks],
                                    "output": out_opt, "file": path, "link_name": obj.name if is_link else None})["ok"]
            present = (present if append else []) + [k.keyid for k in ks]
            exp_path = out_opt or (os.path.join(sub, "%s.%s.link" % (obj.name, ks[-1].keyid[:8])) if is_link else path)
            mpath = m["path"] if m["path"] is None or os.path.isabs(m["path"]) else os.path.join(sub, m["path"])
            ok_path = os.path.exists(exp_path)
            file_ids = [s_["keyid"] for s_ in json.load(open(exp_path, encoding="utf8"))["signatures"]] if ok_path else None
            agreed_op = mpath == exp_path and m["keyids"] == file_ids
            res.case({"sign_op": ops[-1], "kind": "link" if is_link else "layout", "dsse": dsse, "written_to": os.path.basename(exp_path)},
                     True, agreed_op, sample_cap=1)
            if not agreed_op:
                res.fail("disagree", {"op": "sign_sequence", "ops": ops, "dsse": dsse},
                         {"op": "sign_ops", "impl": {"file_exists": ok_path, "keyids": file_ids, "path": exp_path}, "model": m})
            if not ok_path or file_ids != present:
                res.fail("oracle", {"op": "sign_sequence", "ops": ops, "dsse": dsse},
                         {"why": "in-toto-sign did not write the signatures of exactly the given keys (replacing / appending) to "
                                 "the documented place", "expected_file": exp_path, "exists": ok_path, "keyids": file_ids, "expected": present})
                return
            path = exp_path
    finally:
        os.chdir(cwd)
    content = json.load(open(path, encoding="utf8"))
    file_ids = [s["keyid"] for s in content["signatures"]]
    agreed = file_ids == present
    table, _msg = table_from_file(content, keys)
    verdicts = {}
    for k in keys:
        st, _o, _e = cli.run_main("in_toto_sign", ["-f", path, "-k", write_pub(k, d), "--verify"])
        m = model_check(content, k.pub, table)
        exp = 0 if k.keyid in present else 1
        verdicts[k.keyid[:8]] = st
        if (st == 0) != (m.get("check") == "ok"):
            agreed = False
        if st != exp:
            res.fail("oracle", {"op": "sign_sequence", "ops": ops, "dsse": dsse},
                     {"why": "in-toto-sign --verify status %r for a key that %s" % (st, "signed" if exp == 0 else "did not sign"),
                      "key": k.keyid[:8]})
    if not is_link:
        # several keys in one call, in any order (a key without a signature before, between or after keys that signed):
        # success only if every one of them verifies
        for _ in range(2):
            ask = rng.sample(keys, rng.randrange(2, 4))
            st, _o, _e = cli.run_main("in_toto_sign", ["-f", path, "--verify", "-k"] + [write_pub(k, d) for k in ask])
            signed = [k.keyid in present for k in ask]
            verdicts["+".join(k.keyid[:4] for k in ask)] = st
            res.evaluations += 1
            if (st == 0) != all(signed):
                res.fail("oracle", {"op": "sign_sequence", "ops": ops, "dsse": dsse, "verify_with": [k.keyid[:8] for k in ask]},
                         {"why": "in-toto-sign --verify with keys %r (signed: %r) exited %r: it must succeed only if every given key has a "
                                 "valid signature" % ([k.keyid[:8] for k in ask], signed, st)})
    res.case({"sign_sequence": ops, "dsse": dsse, "signatures_in_file": [x[:8] for x in file_ids], "verify_status": verdicts},
             True, agreed, sample_cap=1)
    res.count("sign_sequences")
    if not agreed:
        res.fail("disagree", {"op": "sign_sequence", "ops": ops, "dsse": dsse},
                 {"op": "sign_ops", "file_ids": file_ids, "model_ids": present})


# ------------------------------------------------------------------ (d) histories on one in-memory object


def history_case(case_seed, res, prop="C09"):
    """One payload held as a traditional and as a DSSE object *in memory*; a random history of verify (genuine key,
    other key, a key dictionary carrying another key's id) / sign (= replace) / append / edit / store-and-reload is
    applied to both.  Every verify is compared with the (stateless) model on the object's current dictionary form, with
    the ground truth kept by the harness (which keys signed the current content), and between the two formats."""
    import attr
    from in_toto.models.layout import Layout
    from in_toto.models.link import Link
    from in_toto.models.metadata import Metablock, Envelope, Metadata
    rng = random.Random(case_seed)
    pool = W.pool()
    keys = rng.sample(pool, 3)
    is_layout = rng.random() < 0.5
    mk = (lambda kw: Layout(**kw)) if is_layout else (lambda kw: Link(**kw))
    kw = rand_layout_kwargs(rng) if is_layout else rand_link_payload(rng)
    objs = {"metablock": mk(copy.deepcopy(kw)), "dsse": mk(copy.deepcopy(kw))}
    mds = {"metablock": Metablock(signed=objs["metablock"]), "dsse": Envelope.from_signable(objs["dsse"])}
    version = 0
    present = []                      # ground truth: (keyid, material, content version signed)
    ops = []
    d = tempfile.mkdtemp(prefix="verif-c09h-")
    try:
        # (one history in four begins: sign, sign again with the same key in addition, store and load again, verify)
        forced = [("sign", keys[0]), ("append", keys[0]), ("reload", keys[0]), ("verify", keys[0])] if case_seed % 4 == 0 else []
        for _step in range(rng.randrange(4, 11)):
            kind = rng.choice(["verify"] * 5 + ["impostor"] * 2 + ["sign", "sign", "append", "append", "edit", "reload", "corrupt"])
            k = rng.choice(keys)
            if forced:
                kind, k = forced.pop(0)
            if kind == "append" and prop == "C09" and present and rng.random() < 0.5:
                # a second signature by a key that has signed already (in-toto-sign --append does this)
                dup_id = rng.choice(present)[0]
                k = next(x for x in keys if x.keyid == dup_id)
            dups_ = [p for p in present if p[0] == k.keyid]
            if kind == "append" and dups_ and prop != "C09" and not all(p[2] == version for p in dups_):
                # for the comparison of the formats two signatures under one key id occur only while both are valid (the
                # same key signing the same content twice, as `in-toto-sign -a` run twice does): first-match and any-match
                # then agree (DESIGN 4.3)
                kind = "sign"
            if kind == "corrupt" and prop != "C09" and len({p[0] for p in present}) != len(present):
                kind = "verify"
            if kind == "corrupt" and not any(p[2] != -1 for p in present):
                kind = "verify"       # nothing (left) to corrupt; a second change could restore the original value
            op = {"op": kind, "key": k.keyid[:8]}
            if kind == "corrupt":
                # one hex digit of one signature value is changed, in both twins
                j = rng.choice([x for x, p in enumerate(present) if p[2] != -1])
                for fmt, md in mds.items():
                    sg = md.signatures[j]
                    if isinstance(sg, dict):
                        v = sg["sig"]; sg["sig"] = v[:-1] + ("0" if v[-1] != "0" else "1")
                    else:
                        v = sg.signature; sg.signature = v[:-1] + ("0" if v[-1] != "0" else "1")
                present[j] = (present[j][0], present[j][1], -1)
                op = {"op": "corrupt", "index": j}
                ops.append(op)
                continue
            if kind in ("sign", "append"):
                for fmt, md in mds.items():
                    if kind == "sign":
                        md.signatures = []
                    md.create_signature(k.signer)
                present = (present if kind == "append" else []) + [(k.keyid, W.key_material(k.pub), version)]
            elif kind == "edit":
                version += 1
                how = rng.choice(["assign", "nested_a", "nested_b", "nested_c", "nested_d"])
                op["how"] = how
                for fmt in mds:
                    o = objs[fmt]
                    # a field is assigned anew, or a container below the top level is changed in place (nothing
                    # tells the object that it changed): the signable bytes are those of the content as it is now
                    if how == "assign":
                        if is_layout:
                            o.readme = (o.readme or "") + "!"
                        else:
                            o.command = list(o.command) + ["edited"]
                    elif is_layout:
                        if how == "nested_a" and o.steps:
                            o.steps[-1].expected_command.append("e%d" % version)
                        elif how == "nested_b" and o.inspect:
                            o.inspect[0].run.append("e%d" % version)
                        elif how == "nested_c":
                            o.keys["%064x" % version] = {"keyid": "%064x" % version, "keytype": "ed25519", "scheme": "ed25519",
                                                       "keyval": {"public": "%064x" % (version + 7)}}
                        else:
                            from in_toto.models.layout import Step
                            o.steps.append(Step(name="added%d" % version))
                    else:
                        if how == "nested_a" and o.products:
                            sorted(o.products.items())[0][1]["sha256"] = "%064x" % (version + 11)
                        elif how == "nested_b":
                            o.byproducts["edited"] = version
                        elif how == "nested_c":
                            o.materials["added%d" % version] = {"sha256": "%064x" % version}
                        else:
                            o.command.append("e%d" % version)
                mds["dsse"].payload = Envelope.from_signable(objs["dsse"]).payload
                op.pop("key")
            elif kind == "reload":
                outs_r = {}
                for fmt in list(mds):
                    path = os.path.join(d, "h-%s" % fmt)
                    mds[fmt].dump(path)
                    try:
                        mds[fmt] = Metadata.load(path)
                        outs_r[fmt] = "ok"
                    except Exception as e:  # pylint: disable=broad-except
                        outs_r[fmt] = W.exc_class(e)
                        continue
                    if fmt == "metablock":
                        objs[fmt] = mds[fmt].signed
                    else:
                        objs[fmt] = mds[fmt].get_payload()
                op.pop("key", None)
                if set(outs_r.values()) != {"ok"}:
                    # what in-toto itself wrote cannot be loaded again (in one format, or in both)
                    res.evaluations += 1
                    res.fail("oracle", {"op": "history", "case_seed": case_seed, "ops": ops + [op], "fmt": "both"},
                             {"why": "metadata stored through in-toto cannot be loaded again" + (
                                 " in one of the two formats" if "ok" in outs_r.values() else ""), "outcomes": outs_r})
                    return
            else:
                pub = json.loads(json.dumps(k.pub))
                if kind == "impostor":
                    other = rng.choice([x for x in keys if x is not k])
                    pub["keyid"] = other.keyid          # k's material under other's id
                    op["claims_id_of"] = other.keyid[:8]
                want = (pub["keyid"], W.key_material(pub), version)
                same_id = [p for p in present if p[0] == pub["keyid"]]
                # a traditional file is checked against the FIRST signature carrying the key's id, an envelope
                # against any (they coincide while ids are distinct)
                truth_by_fmt = {"metablock": bool(same_id) and same_id[0] == want, "dsse": want in present}
                outs = {}
                for fmt, md in mds.items():
                    try:
                        md.verify_signature(json.loads(json.dumps(pub)))
                        i = "ok"
                    except Exception as e:  # pylint: disable=broad-except
                        i = W.exc_class(e)
                    content = json.loads(json.dumps(md.to_dict()))
                    table, _msg = table_from_file(content, keys)
                    m = model_check(content, pub, table)
                    agreed = m.get("load") == "ok" and (i == m["check"] or (
                        m["check"] == "Exception" and i not in ("ok", "SignatureVerificationError")))
                    outs[fmt] = i
                    res.case({"history": ops + [op], "fmt": fmt, "impl": i, "model": m.get("check")}, len(ops) >= 2, agreed,
                             sample_cap=1)
                    res.count("history_verify_" + ("ok" if i == "ok" else "fail"))
                    full = {"op": "history", "case_seed": case_seed, "ops": ops + [op], "fmt": fmt}
                    if not agreed:
                        res.fail("disagree", full, {"op": "load_verify_sig", "impl": i, "model": m})
                    truth = truth_by_fmt[fmt]
                    if prop == "C09" and (i == "ok") != truth:
                        res.fail("oracle", full, {
                            "why": "signature check %s although the key dictionary (id %s) %s the current content" % (
                                "passed" if i == "ok" else "failed (%s)" % i, pub["keyid"][:8],
                                "signed" if truth else "did not sign"), "impl": i})
                if prop == "C14" and outs["metablock"] != outs["dsse"]:
                    res.fail("oracle", {"op": "history", "case_seed": case_seed, "ops": ops + [op], "fmt": "both"},
                             {"why": "the same history gives different signature-check results on traditional and DSSE metadata",
                              "outcomes": outs})
                op["result"] = outs
            ops.append(op)
    finally:
        shutil.rmtree(d, ignore_errors=True)


def shard_history(seed, idx, n, prop):
    res = core.Result()
    rng = core.rng_for(seed, "c09", "history", idx)
    for _ in range(n):
        history_case(rng.randrange(1 << 40), res, prop)
    return res


def run(tier, seed):
    nc, nr = (150, 12) if tier == "quick" else (2500, 250)
    nh = 30 if tier == "quick" else 400
    shards = [(shard_canon, (seed, i, nc)) for i in range(16)] + [(shard_roundtrip, (seed, i, nr, tier)) for i in range(16)] + \
        [(shard_history, (seed, i, nh, "C09")) for i in range(16)]
    return core.parallel(core.call, shards)


def replay(case):
    if case.get("op") == "canon":
        from securesystemslib.formats import encode_canonical
        try:
            i = {"ok": encode_canonical(case["v"])}
        except Exception as e:  # pylint: disable=broad-except
            i = {"err": type(e).__name__}
        return {"impl": i, "model": core.driver().call({"op": "canon", "v": W.tagged(case["v"])})}
    if case.get("op") == "load_verify_sig":
        d = tempfile.mkdtemp(prefix="verif-c09-")
        try:
            p = os.path.join(d, "f")
            json.dump(case["content"], open(p, "w"))
            i = impl_check(p, case["key"])
        finally:
            shutil.rmtree(d, ignore_errors=True)
        t = W.SigTable(); t.rows = case["table"]
        return {"desc": case.get("desc"), "impl": i, "model": model_check(case["content"], case["key"], t)}
    if case.get("op") == "history":
        res = core.Result()
        history_case(case["case_seed"], res, "C14" if case.get("fmt") == "both" else "C09")
        return {"ops": case["ops"], "failures_on_replay": res.failures}
    return {"note": "sequence cases are regenerated from the seed"}


def search(failure, tier, seed):
    res = core.parallel(core.call, [(shard_roundtrip, (seed + 1000 + i, i, 30, tier)) for i in range(16)] +
                        [(shard_history, (seed + 1000 + i, i, 20, "C09")) for i in range(16)])
    for f in res.failures:
        if f["kind"] == "oracle":
            return f
    return None
