"""C19 — match-products reports exactly the differences between disk and link."""
import copy
import os
import shutil
import tempfile

from harness import cli, core, tree as T

RULE = ("random trees recorded as products (follow links, random exclude / prefix-strip options), then changed by 0-4 "
        "edits (modify, add, delete, rename, content-preserving rewrite, touch an excluded file); in_toto_match_products "
        "through the library and through in-toto-match-products main. Non-trivial: at least one report is non-empty or the "
        "trees are identical with >= 2 files; distinct by description.")
ASSUMPTIONS = ["the local side is the C10 recording (independent reference recorder used as ground truth)"]


def edit_tree(rng, tree):
    """Returns (new tree, list of edit descriptions)."""
    t = copy.deepcopy(tree)
    edits = []
    for _ in range(rng.randrange(0, 5)):
        files = [(p, n) for p, n in T.all_paths(t) if n[0] == "f"]
        kind = rng.choice(["modify", "add", "delete", "rename", "rewrite", "excluded", "stamp"])
        if kind == "add" or not files:
            t["added%d" % rng.randrange(100)] = ("f", b"new\n")
            edits.append("add")
            continue
        p, n = rng.choice(files)
        parent = t
        comps = p.split("/")
        for c in comps[:-1]:
            parent = parent[c][1]
        name = comps[-1]
        if kind == "modify":
            parent[name] = ("f", n[1] + b"!")
        elif kind == "stamp":
            # other content of the same length; on disk it is written in place and the time stamps are put back
            if n[1]:
                parent[name] = ("f", bytes([n[1][0] ^ 1]) + n[1][1:])
        elif kind == "delete":
            del parent[name]
        elif kind == "rename":
            parent[name + ".renamed"] = parent.pop(name)
        elif kind == "rewrite":
            parent[name] = ("f", bytes(n[1]))
        else:
            parent["junk.pyc"] = ("f", b"x")
        edits.append(kind)
    return t, edits


def gen_paths(rng, tree, local_tree):
    """None (default: cwd), ["."], or a list of top-level entries of either tree (so look-alike siblings such as
    "b" / "bar.txt" / "lib" / "lib.py" are passed side by side), sometimes with a nested path in addition."""
    r = rng.random()
    if r < 0.35:
        return None
    if r < 0.45:
        return ["."]
    names = sorted(set(tree) | set(local_tree))
    if not names:
        return ["."]
    chosen = rng.sample(names, rng.randrange(1, len(names) + 1))
    if rng.random() < 0.25:
        nested = [p for p, n in T.all_paths(tree) if "/" in p and p.split("/")[0] in chosen and n[0] != "l"]
        if nested:
            chosen.append(rng.choice(nested))
    rng.shuffle(chosen)
    return chosen


def apply_in_place(root, old, new):
    """Turns the tree `old` on disk into `new`: unchanged entries are left alone, a file whose content changed but whose
    length did not is overwritten in place with its time stamps restored, everything else is removed and created."""
    for name in sorted(set(old) | set(new)):
        p = os.path.join(root, name)
        a, b = old.get(name), new.get(name)
        if a == b:
            continue
        if a and b and a[0] == "d" and b[0] == "d":
            apply_in_place(p, a[1], b[1])
            continue
        if a and b and a[0] == "f" and b[0] == "f" and len(a[1]) == len(b[1]):
            st = os.stat(p)
            with open(p, "r+b") as f:
                f.write(b[1])
            os.utime(p, ns=(st.st_atime_ns, st.st_mtime_ns))
            continue
        if a is not None:
            if a[0] == "d":
                shutil.rmtree(p)
            else:
                os.remove(p)
        if b is not None:
            T.materialise({name: b}, root)


def lookup_is_file(tree, path):
    cur = tree
    comps = path.split("/")
    for c in comps[:-1]:
        if c not in cur or cur[c][0] != "d":
            return False
        cur = cur[c][1]
    return comps[-1] in cur and cur[comps[-1]][0] == "f"


def run_impl(local_tree, products, paths, patterns, lstrip, first_tree=None):
    d = tempfile.mkdtemp(prefix="verif-c19-")
    cwd = os.getcwd()
    try:
        import in_toto.runlib as rl
        from in_toto.models.link import Link
        from in_toto.models.metadata import Metablock, Envelope
        link = Link(name="s", products=products)
        if first_tree is not None:
            # the tree as recorded is compared once (whatever an implementation remembers about it), then edited in place
            T.materialise(first_tree, os.path.join(d, "t"))
            os.chdir(os.path.join(d, "t"))
            try:
                rl.in_toto_match_products(link, paths=paths, exclude_patterns=patterns or None, lstrip_paths=lstrip)
            except Exception:  # pylint: disable=broad-except
                pass
            os.chdir(cwd)
            apply_in_place(os.path.join(d, "t"), first_tree, local_tree)
        else:
            T.materialise(local_tree, os.path.join(d, "t"))
        os.chdir(os.path.join(d, "t"))
        try:
            r = rl.in_toto_match_products(link, paths=paths, exclude_patterns=patterns or None, lstrip_paths=lstrip)
            i = {"ok": [sorted(x) for x in r]}
        except Exception as e:  # pylint: disable=broad-except
            i = {"err": type(e).__name__}
        # through main, both formats
        statuses = {}
        for fmt in ("metablock", "dsse"):
            md = Metablock(signed=link) if fmt == "metablock" else Envelope.from_signable(link)
            lp = os.path.join(d, "s.%s.link" % fmt)
            md.dump(lp)
            argv = ["--link", lp]
            if paths:
                argv += ["--paths"] + paths
            if patterns:
                argv += ["--exclude"] + patterns
            if lstrip:
                argv += ["--lstrip-paths"] + lstrip
            statuses[fmt] = cli.run_main("in_toto_match_products", argv)[0]
    finally:
        os.chdir(cwd)
        shutil.rmtree(d, ignore_errors=True)
    return i, statuses


def one_case(rng, res):
    tree = T.gen_tree(rng, max_depth=3)
    if rng.random() < 0.4:
        T.add_order_siblings(rng, tree, rng.randrange(1, 3))
    if rng.random() < 0.4:
        T.add_symlinks(rng, tree, 2)
    patterns = rng.choice([[], [], ["*.pyc"], ["sub"], ["*.txt"]])
    dirs = [p + "/" for p, n in T.all_paths(tree) if n[0] == "d"]
    lstrip = [rng.choice(dirs)] if dirs and rng.random() < 0.3 else None
    if lstrip and rng.random() < 0.4:
        # the same prefix spelt in a way that is not normalised: recorded names are normalised, so it strips nothing -
        # neither when recording nor when matching
        d0 = lstrip[0]
        lstrip = [rng.choice(["./" + d0, d0 + "/", d0.rstrip("/") + "//", "zz/../" + d0])]
    if rng.random() < 0.15 and "build" not in tree and "dist" not in tree:
        # two prefixes to strip, and inside the first directory a directory named like the second: the first matching
        # prefix is stripped, once - build/dist/app.bin is recorded (and compared) as dist/app.bin
        tree["build"] = ("d", {"dist": ("d", {"app.bin": ("f", b"app %d\n" % rng.randrange(9))}), "obj.o": ("f", b"o\n")})
        tree["dist"] = ("d", {"pkg.tar": ("f", b"tar\n")})
        lstrip = rng.choice([["build/", "dist/"], ["dist/", "build/"]])
    colon = None
    if rng.random() < 0.25 and tree.get("out", ("d", {}))[0] == "d":
        # a file whose name contains a colon (a tag, a drive-like prefix): a path like any other, also when listed by name
        tree.setdefault("out", ("d", {}))[1]["img:latest"] = ("f", b"img %d\n" % rng.randrange(9))
        colon = "out/img:latest"
    local_tree, edits = edit_tree(rng, tree)
    paths = gen_paths(rng, tree, local_tree)
    if colon and lookup_is_file(local_tree, colon) and rng.random() < 0.8:
        paths = [x for x in (paths or []) if x not in (".", "out")] + [colon]
    nested_files = [p_ for p_, n_ in T.all_paths(tree) if n_[0] == "f" and "/" in p_ and lookup_is_file(local_tree, p_)]
    if paths and paths != ["."] and nested_files and rng.random() < 0.35:
        # a file named explicitly, spelt with a doubled slash / a dot segment / a detour, and an exclude pattern with a
        # directory component that leaves it out: patterns apply to the normalised name, like everything else
        f = rng.choice(nested_files)
        d_, b_ = f.rsplit("/", 1)
        spelt = rng.choice([d_ + "//" + b_, d_ + "/./" + b_, d_ + "/zz/../" + b_, "./" + f, f])
        paths = [x for x in paths if x != f and not f.startswith(x + "/")] + [spelt]
        if rng.random() < 0.7:
            patterns = [d_ + "/*" + (("." + b_.rsplit(".", 1)[1]) if "." in b_ else "")]
    import in_toto.settings as st
    eff = patterns or list(st.ARTIFACT_EXCLUDE_PATTERNS)
    ref_p = T.reference_record(tree, paths or ["."], eff, True, False, lstrip or [])
    ref_l = T.reference_record(local_tree, paths or ["."], eff, True, False, lstrip or [])
    if ref_p[0] != "ok" or ref_l[0] != "ok":
        res.count("prefix_collision_skipped")
        return
    products = {k: {"sha256": v} for k, v in ref_p[1].items()}
    local = {k: {"sha256": v} for k, v in ref_l[1].items()}
    foreign = []
    if products and rng.random() < 0.25:
        # hash records as other tools or other settings write them: another algorithm only, none at all, one more beside
        # sha256. The comparison is equality of the whole record: a record that shares no algorithm with the local one
        # (or lacks one) is a difference, not a match.
        for kx in rng.sample(sorted(products), min(len(products), rng.randrange(1, 3))):
            v = products[kx]["sha256"]
            products[kx] = rng.choice([{"sha512": (v * 2)[:128]}, {}, {"sha256": v, "sha512": (v * 2)[:128]}, {"md5": v[:32]}])
            foreign.append(kx)
    if products and rng.random() < 0.15:
        # a link written by another tool: a product under a name that is not in normalised spelling. Names are compared as
        # they are: the product is "only in the link", the local file "not in the link" - in either metadata format.
        kx = rng.choice(sorted(products))
        alias = rng.choice(["./" + kx, kx.replace("/", "//", 1) if "/" in kx else "./" + kx, "zz/../" + kx])
        products[alias] = products.pop(kx)
        foreign.append(alias)
    desc = {"edits": edits, "patterns": patterns, "lstrip": lstrip, "paths": paths, "n_products": len(products), "foreign_hash_records": foreign}
    i, statuses = run_impl(local_tree, products, paths, patterns, lstrip, first_tree=tree if rng.random() < 0.6 else None)
    m = core.driver().call({"op": "match_products",
                            "products": [[k, sorted(v.items())] for k, v in products.items()],
                            "local": [[k, sorted(v.items())] for k, v in local.items()]})
    m = {"ok": m["ok"]}
    agreed = i == m
    P, L = set(products), set(local)
    exp = [sorted(P - L), sorted(L - P), sorted(k for k in P & L if products[k] != local[k])]
    identical = products == local
    nontrivial = any(exp) or len(products) >= 2
    res.case({"desc": desc, "impl": i, "cli_status": statuses}, nontrivial, agreed, sample_cap=2)
    res.count("identical" if identical else "different")
    for e in edits:
        res.count("edit_" + e)
    full = {"op": "match_products", "desc": desc, "products": products, "local": local, "local_tree": T.to_jsonable(local_tree)}
    if not agreed:
        res.fail("disagree", full,
                 {"op": "match_products", "impl": i, "model": m})
    if i != {"ok": exp}:
        res.fail("oracle", full,
                 {"why": "the three reports are not exactly (only in link, only on disk, in both but different)",
                  "impl": i, "expected": exp})
    for fmt, stt in statuses.items():
        if (stt == 0) != identical:
            res.fail("oracle", dict(full, desc=dict(desc, fmt=fmt)),
                     {"why": "in-toto-match-products exit status %r although the local tree %s the recorded products" % (
                         stt, "equals" if identical else "differs from"), "impl": i})


def dir_uri_case(rng, res):
    """A directory given as `dir:<path>` in the path list: one product entry whose digest stands for the non-excluded
    files below it, exclude patterns taken relative to that directory. Directory names that themselves match a default
    or given pattern, and patterns with a slash (anchored at the directory), tell 'relative to the directory' from
    'relative to where the command runs'."""
    from harness.props import c20
    import in_toto.runlib as rl
    from in_toto.models.link import Link
    sub = c20.gen_dir_tree(rng)
    name = rng.choice(["build", "symbols.linkmap", "pkg", "x~", "old.pyc", "my dir", "lib"])
    patterns = rng.choice([[], [], [], ["lib/generated.py"], ["/a"], ["build"], ["*.txt"], ["sub/deep"], ["/bar.txt", "/lib"]])
    if patterns == ["lib/generated.py"]:
        libd = sub.get("lib") if sub.get("lib", ("f",))[0] == "d" else None
        if libd is None:
            sub["lib"] = libd = ("d", {})
        libd[1]["generated.py"] = ("f", b"# generated\n")
        libd[1]["core.py"] = ("f", b"core = 1\n")
    sub2, edits = edit_tree(rng, sub)
    if patterns == ["lib/generated.py"] and rng.random() < 0.5 and sub2.get("lib", ("f",))[0] == "d":
        sub2 = copy.deepcopy(sub); sub2["lib"][1]["generated.py"] = ("f", b"# generated again\n"); edits = ["excluded_file_edited"]
    import hashlib
    import in_toto.settings as st

    def digest(t):
        # the documented construction, over what match-products records (it follows symlinked directories)
        ref = T.reference_record(t, ["."], patterns or list(st.ARTIFACT_EXCLUDE_PATTERNS), True, False, [])
        lines = sorted((p_.encode("utf8"), h) for p_, h in ref[1].items())
        return hashlib.sha256(b"".join(h.encode() + b"  " + p_ + b"\n" for p_, h in lines)).hexdigest(), ref[1]
    exp1, ent1 = digest(sub)
    exp2, ent2 = digest(sub2)
    uri = "dir:" + name
    link = Link(name="s", products={uri: {"sha256": exp1}})
    d = tempfile.mkdtemp(prefix="verif-c19d-")
    cwd = os.getcwd()
    try:
        T.materialise({name: ("d", sub2)}, os.path.join(d, "t"))
        os.chdir(os.path.join(d, "t"))
        try:
            r = rl.in_toto_match_products(link, paths=[uri], exclude_patterns=patterns or None)
            i = {"ok": [sorted(x) for x in r]}
        except Exception as e:  # pylint: disable=broad-except
            i = {"err": type(e).__name__}
    finally:
        os.chdir(cwd)
        shutil.rmtree(d, ignore_errors=True)
    m = core.driver().call({"op": "match_products", "products": [[uri, [["sha256", exp1]]]], "local": [[uri, [["sha256", exp2]]]]})
    m = {"ok": m["ok"]}
    exp = [[], [], [uri] if exp1 != exp2 else []]
    desc = {"family": "dir_uri", "dir": name, "patterns": patterns, "edits": edits, "n_files": len(ent1), "changed": ent1 != ent2}
    res.case({"desc": desc, "impl": i}, len(ent1) >= 1, i == m, sample_cap=1)
    res.count("family_dir_uri")
    full = {"op": "match_products_dir", "desc": desc, "tree": T.to_jsonable(sub), "local_tree": T.to_jsonable(sub2)}
    if i != m:
        res.fail("disagree", full, {"op": "match_products", "impl": i, "model": m})
    if i != {"ok": exp}:
        res.fail("oracle", full, {"why": "the reports for a directory given as dir:<path> are not exactly the difference between its recorded and "
                                         "its local non-excluded content (patterns relative to that directory)", "impl": i, "expected": exp})


def shard(seed, idx, n, tier):
    res = core.Result()
    rng = core.rng_for(seed, "c19", idx)
    for _ in range(n):
        one_case(rng, res)
    for _ in range(max(3, n // 4)):
        dir_uri_case(rng, res)
    from harness import clicall       # which library call in-toto-match-products makes (model InToto/CliCall.lean)
    for _ in range(max(4, n // 2)):
        clicall.one_other(rng, res, "match_products")
    return res


def run(tier, seed):
    per = 20 if tier == "quick" else 320
    return core.parallel(core.call, [(shard, (seed, i, per, tier)) for i in range(16)])


def replay(case):
    if case.get("op") == "match_products_dir":
        return {"note": "directory cases are regenerated from the seed", "case": case["desc"]}
    m = core.driver().call({"op": "match_products",
                            "products": [[k, sorted(v.items())] for k, v in case["products"].items()],
                            "local": [[k, sorted(v.items())] for k, v in case["local"].items()]})
    P, L = set(case["products"]), set(case["local"])
    extra = {}
    if "local_tree" in case:
        dsc = case["desc"]
        i, statuses = run_impl(T.from_jsonable(case["local_tree"]), case["products"], dsc["paths"], dsc["patterns"], dsc["lstrip"])
        extra = {"impl": i, "cli_status": statuses}
    return {"desc": case["desc"], "model": m, **extra,
            "expected": [sorted(P - L), sorted(L - P), sorted(k for k in P & L if case["products"][k] != case["local"][k])]}


def search(failure, tier, seed):
    res = core.parallel(core.call, [(shard, (seed + 1000 + i, i, 40, tier)) for i in range(16)])
    for f in res.failures:
        if f["kind"] == "oracle":
            return f
    return None
