"""C17 (second half): a layout, step or inspection containing a malformed rule
cannot be constructed or loaded. Filled in once the metadata model exists."""
from harness import core


def run(tier, seed):
    return core.Result()
