"""C17 (second half): a layout, step or inspection containing a malformed rule
cannot be constructed or loaded.  Every position of every rule list of random
layouts receives one malformed rule; `Step(...)`, `Inspection(...)`,
`Layout.read`, `Metadata.load` (traditional) and `Envelope.get_payload` must
raise; the Lean `readPayload` must agree."""
import base64
import copy
import json
import os
import shutil
import tempfile

from harness import core, world as W

BAD_RULES = [[], ["MATCH"], ["CREATE"], ["FOO", "x"], ["CREATE", "a", "b"], ["MATCH", "x", "WITH", "PRODUCTS", "FROM"],
             ["MATCH", "x", "WITH", "NOTHING", "FROM", "s"], ["MATCH", "x", "IN", "a", "WITH", "PRODUCTS", "IN", "b", "FRM", "s"],
             ["ALLOW", 7], "ALLOW *", None, ["MATCH", "x", "FROM", "s"], ["İN", "x"],
             # something that is not a list but can be iterated (an object whose member names spell a rule, a string)
             {"DISALLOW": True, "*": True}, {"ALLOW": 1, "x": 2}, {}, "", 7, True]
GOOD_RULES = [["ALLOW", "*"], ["MATCH", "*", "WITH", "PRODUCTS", "FROM", "s0"], ["require", "MATCH"], ["DISALLOW", "*"],
              ["MATCH", "a", "IN", "b", "WITH", "MATERIALS", "IN", "c", "FROM", "d"], ["create", ""]]


def gen_layout(rng):
    k = W.pool()[0]
    steps = []
    for j in range(rng.randrange(1, 4)):
        steps.append(W.step_payload("s%d" % j, [k.keyid], 1,
                                    [list(r) for r in rng.sample(GOOD_RULES, rng.randrange(0, 4))],
                                    [list(r) for r in rng.sample(GOOD_RULES, rng.randrange(0, 4))]))
    insp = []
    for j in range(rng.randrange(0, 3)):
        insp.append(W.inspection_payload("i%d" % j, ["true"],
                                         [list(r) for r in rng.sample(GOOD_RULES, rng.randrange(0, 3))],
                                         [list(r) for r in rng.sample(GOOD_RULES, rng.randrange(0, 3))]))
    return W.layout_payload(steps, insp, {k.keyid: k.pub}, "2031-01-01T00:00:00Z")


def positions(payload):
    for kind in ("steps", "inspect"):
        for i, item in enumerate(payload[kind]):
            for f in ("expected_materials", "expected_products"):
                for r in range(len(item[f]) + 1):
                    yield kind, i, f, r


def impl_outcomes(payload, d, with_cli=False):
    from in_toto.models.layout import Layout, Step, Inspection
    from in_toto.models.metadata import Metadata
    out = {}

    def cls(fn):
        try:
            fn()
            return "ok"
        except Exception as e:  # pylint: disable=broad-except
            return W.exc_class(e)
    out["Layout.read"] = cls(lambda: Layout.read(copy.deepcopy(payload)))
    p = os.path.join(d, "l.layout")
    json.dump({"signatures": [], "signed": payload}, open(p, "w"))
    out["Metadata.load"] = cls(lambda: Metadata.load(p))
    env = {"payload": base64.b64encode(json.dumps(payload).encode()).decode(), "payloadType": W.PAYLOAD_TYPE, "signatures": []}
    json.dump(env, open(p, "w"))
    out["Envelope.get_payload"] = cls(lambda: Metadata.load(p).get_payload())
    if with_cli:
        # in-toto-sign (sign to another file; verify) and in-toto-verify on the file, in both containers: a layout that
        # cannot be loaded cannot be signed, verified or used
        from harness import cli, cliequiv
        k = W.pool()[0]
        for label, content in (("traditional", {"signatures": [], "signed": payload}), ("dsse", env)):
            json.dump(content, open(p, "w"))
            outp = os.path.join(d, "signed.layout")
            if os.path.exists(outp):
                os.remove(outp)
            st = cli.run_main("in_toto_sign", ["-f", p, "-k", cliequiv.priv_path(k), "-o", outp])[0]
            out["in-toto-sign -o (%s)" % label] = "ok" if st == 0 or os.path.exists(outp) else "status %s" % st
            st = cli.run_main("in_toto_sign", ["-f", p, "-k", cliequiv.priv_path(k)])[0]
            out["in-toto-sign in place (%s)" % label] = "ok" if st == 0 else "status %s" % st
    return out


def run_shard(seed, idx, n):
    from in_toto.models.layout import Step, Inspection
    res = core.Result()
    rng = core.rng_for(seed, "c17load", idx)
    d = tempfile.mkdtemp(prefix="verif-c17-")
    drv = core.driver()
    try:
        for _ in range(n):
            base = gen_layout(rng)
            cases = [("none", base)]
            pos = list(positions(base))
            for kind, i, f, r in (pos if len(pos) <= 12 else rng.sample(pos, 12)):
                p = copy.deepcopy(base)
                bad = rng.choice(BAD_RULES)
                p[kind][i][f].insert(r, bad)
                cases.append(({"where": [kind, i, f, r], "rule": bad}, p))
            for desc, p in cases:
                i_out = impl_outcomes(p, d, with_cli=rng.random() < 0.25)
                m = drv.call({"op": "read_payload", "v": W.tagged(p)})
                m_ok = "ok" in m
                agreed = all((v == "ok") == m_ok for v in i_out.values())
                res.case({"malformed": desc, "impl": i_out, "model": "ok" if m_ok else m["err"]}, desc != "none", agreed, sample_cap=2)
                res.count("load_" + ("ok" if i_out["Layout.read"] == "ok" else i_out["Layout.read"]))
                if not agreed:
                    res.fail("disagree", {"op": "read_payload", "payload": p, "malformed": desc},
                             {"op": "read_payload", "impl": i_out, "model": m})
                if desc != "none":
                    if any(v == "ok" for v in i_out.values()):
                        res.fail("oracle", {"op": "read_payload", "payload": p, "malformed": desc},
                                 {"why": "a layout containing a malformed rule was constructed / loaded", "impl": i_out})
                    # the item on its own
                    kind, i = desc["where"][0], desc["where"][1]
                    item = copy.deepcopy(p[kind][i]); item.pop("_type", None)
                    try:
                        (Step if kind == "steps" else Inspection)(**item)
                        res.fail("oracle", {"op": "construct_item", "item": item},
                                 {"why": "a step / inspection with a malformed rule was constructed"})
                    except Exception:  # pylint: disable=broad-except
                        pass
                    res.evaluations += 1
    finally:
        shutil.rmtree(d, ignore_errors=True)
    return res


def run(tier, seed):
    n = 3 if tier == "quick" else 40
    return core.parallel(core.call, [(run_shard, (seed, i, n)) for i in range(16)])
