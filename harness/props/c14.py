"""C14 — traditional and DSSE metadata are interchangeable for every tool.

(a) Every scenario family of C02/C05/C06/C07/C08 is re-materialised under
three assignments of the two formats to the layout, each link and each
sublayout (all traditional, all DSSE, random mix); the implementation's
outcomes must be equal across assignments and equal to the model's.
(b) run / record / sign / match-products through the library in both formats
(see also C18 for the command line);
(c) histories of verify / sign / append / edit / reload on one in-memory object
per format (c09.history_case): results must be equal at every step."""
import copy
import json
import os
import random

from harness import core, scen, vcommon, world as W
from harness.props import c02, c05, c06, c07, c08, c16

RULE = ("scenarios of the C02 (non-gpg), C05, C06, C07, C08 and C16 (layouts with placeholders verified with parameter sets) "
        "generators, each materialised under three format "
        "assignments (all traditional / all DSSE / random mix per file) and compared on verdict class, summary link and "
        "inspection log; plus in_toto_run, record start/stop, create/verify signature and match_products in both "
        "formats. Non-trivial: every scenario (three full verifications); distinct by description.")
ASSUMPTIONS = ["signature key ids within one metadata file are distinct (first-match vs any-match, DESIGN 4.3)",
               "non-gpg keys (gpg signing of envelopes is documented as unsupported)"]


def normalise_tampers(ch):
    for node, _p in scen.walk(ch):
        for s in node.steps:
            for ls in s["links"]:
                if ls["tamper"] == "content":
                    ls["tamper"] = "content_fixed"
                elif ls["tamper"] in ("other_family", "float"):
                    ls["tamper"] = "sig"


def outcome(i):
    if i.get("load") != "ok":
        return {"load": "error"}
    r = i["result"]
    return {"verdict": "accept" if "ok" in r else r["err"], "summary": r.get("ok"), "log": i.get("log")}


def one_case(rng, res, family):
    root = scen.new_root()
    try:
        hooks, inspect_timeout, params = [], 60, None
        if family == "illformed":
            # two functionaries, one needed: one hands in a validly signed file whose content is not link metadata (the
            # command as one string), the other a proper link
            ch = scen.gen_chain(rng, root, n_steps=rng.choice([1, 2]), n_insp=0, thresholds=(1,), max_funcs=1)
            st_ = rng.choice(ch.steps)
            a_, b_ = rng.sample([k for k in W.pool() if k not in ch.owners], 2)
            st_["keys"], st_["pubkeys"], st_["threshold"] = [a_, b_], [a_.keyid, b_.keyid], 1
            ch.layout_keys[a_.keyid] = a_.pub; ch.layout_keys[b_.keyid] = b_.pub
            links = [scen.link_spec(a_, rng.choice(["metablock", "dsse"]), st_["name"], st_["materials"], st_["products"], tamper="illformed_signed"),
                     scen.link_spec(b_, rng.choice(["metablock", "dsse"]), st_["name"], st_["materials"], st_["products"])]
            damaged = rng.random() < 0.5
            if damaged:
                # ... or the link is fine and the KEY the layout lists for that functionary is unusable (a PEM block with a
                # piece missing, a hex string of odd length): its signature cannot be checked, the link does not count -
                # in either format - and the other functionary's link decides
                import copy as _copy
                links[0] = scen.link_spec(a_, links[0]["fmt"], st_["name"], st_["materials"], st_["products"])
                bad = _copy.deepcopy(a_.pub)
                pv = bad["keyval"]["public"]
                bad["keyval"]["public"] = (pv[:70] + pv[82:]) if "BEGIN" in pv else pv[:-1]
                ch.layout_keys[a_.keyid] = bad
            rng.shuffle(links)
            st_["links"] = links
            st_["pubkeys"] = [l_["k"].keyid for l_ in links] if rng.random() < 0.5 else st_["pubkeys"]
            desc = {"step": st_["name"], ("unusable_key_of" if damaged else "illformed_link_of"): a_.kind, "proper_link_of": b_.kind}
        elif family == "c02":
            ch, desc = c02.gen_case(rng, root, False)
        elif family == "c05":
            ch, desc = c05.gen_case(rng, root); desc.pop("attested", None)
        elif family == "c06":
            ch, desc = c06.gen_case(rng, root)
            if desc.get("defect") == "subinspection_slow":
                inspect_timeout = 5       # (as in c06.one_case: the command sleeps longer than this limit, shorter than the default)
        elif family == "c07":
            ch, desc, hooks, _failed = c07.gen_case(rng, root); inspect_timeout = c07.timeout_for(ch)
        elif family == "c16":
            ch, desc, params = c16.gen_case(rng, root)
        else:
            ch, desc = c08.gen_case(rng, root)
        normalise_tampers(ch)
        desc = dict(desc, family=family)
        outs = {}
        agreed_all = True
        seed = rng.randrange(1 << 30)
        for mode in ("metablock", "dsse", "mixed"):
            ch2 = scen.reformat(ch, random.Random(seed), mode)
            scn = scen.build(ch2, root, random.Random(seed))
            scn.meta["inspect_timeout"] = inspect_timeout
            if family == "c16":
                scn.params = params
                c16.fix_insp_table(scn, params)
            if hooks:
                c07.apply_hooks(scn, ch2, [(h, (a if h != "unloadable" else _same_node(ch, ch2, a))) for h, a in hooks],
                                random.Random(seed))
            i, m, agreed = scen.run_both(scn)
            outs[mode] = outcome(i)
            if not agreed:
                agreed_all = False
                res.fail("disagree", vcommon.replayable(scn, dict(desc, assignment=mode)),
                         {"op": "verify", "impl": vcommon.short(i), "model": vcommon.short(m)})
            last = scn
        same = outs["metablock"] == outs["dsse"] == outs["mixed"]
        if not same and any(o.get("load") == "error" for o in outs.values()):
            # a traditional file is validated when it is loaded, an envelope's payload when it is first used: content that
            # cannot be loaded (e.g. a rule whose keyword is a placeholder) is refused at different moments; what must
            # agree is that none of the assignments is accepted
            same = not any(o.get("verdict") == "accept" for o in outs.values())
        illformed = any(ls.get("tamper") == "illformed_signed" for c_, _p in scen.walk(ch) for s_ in c_.steps for ls in s_["links"])
        if not same and illformed:
            # likewise for a validly signed link file whose content is not link metadata: refused when loaded (traditional)
            # or when first used (envelope) - possibly never, if its signature is not asked for; what must agree is whether
            # the verification is accepted
            if family == "illformed":
                same = len({o.get("verdict") == "accept" for o in outs.values()}) == 1
            else:
                # (drawn among other files by the C02 generator: the ill-formed file may lie under a name / carry a signature
                #  that does not count; a traditional file is then refused at load all the same, an envelope is never opened
                #  - the documented asymmetry of DESIGN 4.3 / 10.3, not judged)
                same = True
                res.count("illformed_file_that_does_not_count_not_judged")
        res.case({"desc": desc, "outcomes": {k: {"verdict": v.get("verdict"), "log": v.get("log")} for k, v in outs.items()}},
                 True, agreed_all)
        res.evaluations += 2
        res.count("family_" + family); res.count("verdict_%s" % outs["metablock"].get("verdict"))
        if not same:
            res.fail("oracle", vcommon.replayable(last, dict(desc, assignment="mixed", seed=seed)),
                     {"why": "the same scenario gives different outcomes under different metadata format assignments",
                      "outcomes": outs})
    finally:
        scen.drop_root(root)


def _same_node(ch, ch2, node):
    for (a, pa), (b, pb) in zip(scen.walk(ch), scen.walk(ch2)):
        if a is node:
            return b
    return ch2


# ------------------------------------------------------------- (b) tools through the library


def lib_roundtrip(rng, res):
    """in_toto_run / record start+stop / sign+verify / match_products in both formats."""
    import tempfile, shutil, contextlib, io, logging
    import attr
    import in_toto.runlib as rl
    from in_toto.models.metadata import Metadata
    logging.getLogger("in_toto").setLevel(logging.CRITICAL)
    k = rng.choice(W.pool())
    d = tempfile.mkdtemp(prefix="verif-c14-")
    cwd = os.getcwd()
    outs = {}
    try:
        os.chdir(d)
        os.makedirs("src")
        open("src/a.txt", "w").write("a %d\n" % rng.randrange(99))
        open("b.txt", "w").write("b\n")
        mode = rng.choice(["run", "record", "record_with_args", "mock"])
        shadow_seed = rng.randrange(10**9)
        # library-only arguments of in_toto_record_stop
        stop_kw = {}
        if mode == "record_with_args":
            stop_kw = {"command": ["tar", "czf", "x.tgz", "src"], "byproducts": {"stdout": "a src\n", "stderr": "", "return-value": 0},
                       "environment": {"variables": ["CI=1"], "workdir": "/build"}}
            for key in rng.sample(sorted(stop_kw), rng.randrange(0, 3)):
                stop_kw.pop(key)
        for dsse in (False, True):
            for f in os.listdir("."):
                if f.endswith(".link") or f.endswith("-unfinished"):
                    os.remove(f)
            if os.path.exists("out.txt"):
                os.remove("out.txt")
            with contextlib.redirect_stdout(io.StringIO()), contextlib.redirect_stderr(io.StringIO()):
                if mode == "mock":
                    # in_toto_mock: unsigned link <name>.link of a run that records the current directory
                    rl.in_toto_mock("st", ["sh", "-c", "echo hi > out.txt; echo text"], use_dsse=dsse)
                    os.rename("st.link", "st.%s.link" % k.keyid[:8])
                    md0 = Metadata.load("st.%s.link" % k.keyid[:8])
                    md0.create_signature(k.signer)      # (signed here only so that the common checks below apply)
                    md0.dump("st.%s.link" % k.keyid[:8])
                elif mode == "run":
                    md = rl.in_toto_run("st", ["."], ["."], ["sh", "-c", "echo hi > out.txt; echo text"],
                                        record_streams=True, signer=k.signer, use_dsse=dsse)
                else:
                    rl.in_toto_record_start("st", ["."], signer=k.signer, use_dsse=dsse)
                    open("out.txt", "w").write("hi\n")
                    rl.in_toto_record_stop("st", ["."], signer=k.signer, **stop_kw)
                    md = Metadata.load("st.%s.link" % k.keyid[:8])
            loaded = Metadata.load("st.%s.link" % k.keyid[:8])
            payload = W.canon(attr.asdict(loaded.get_payload()))
            try:
                loaded.verify_signature(k.pub); sig = "ok"
            except Exception as e:  # pylint: disable=broad-except
                sig = type(e).__name__
            other = [x for x in W.pool() if x is not k][0]
            try:
                loaded.verify_signature(other.pub); sig2 = "ok"
            except Exception as e:  # pylint: disable=broad-except
                sig2 = type(e).__name__
            from harness import cli
            fn = "st.%s.link" % k.keyid[:8]
            # the same file with one more signature entry before the genuine one: a key id that is a fragment of the
            # signer's (or empty) and a value that verifies for nobody. Signatures are found by exact key id in either format.
            import json as _j, random as _r
            sh = scen.shadow_signature(_j.load(open(fn, encoding="utf8")), _r.Random(shadow_seed))
            _j.dump(sh[0], open("shadow.link", "w", encoding="utf8"))
            try:
                Metadata.load("shadow.link").verify_signature(k.pub); sig_sh = "ok"
            except Exception as e:  # pylint: disable=broad-except
                sig_sh = type(e).__name__
            cli_equal = cli.run_main("in_toto_match_products", ["--link", fn, "--exclude", "*.link"])[0]
            open("b.txt", "a").write("changed\n")
            rep = rl.in_toto_match_products(loaded.get_payload())
            cli_differ = cli.run_main("in_toto_match_products", ["--link", fn, "--exclude", "*.link"])[0]
            open("b.txt", "w").write("b\n")
            outs[dsse] = {"payload": payload, "sig": sig, "sig_other_key": sig2, "sig_with_shadow_entry": sig_sh,
                          "match": [sorted(x) for x in rep], "is_envelope": type(loaded).__name__,
                          "cli_match_products_equal_tree": cli_equal, "cli_match_products_changed_tree": cli_differ}
        import json as _json
        for dsse in (False, True):
            pl = _json.loads(outs[dsse]["payload"], strict=False)
            for key, val in stop_kw.items():
                if pl.get(key) != val:
                    res.fail("oracle", {"op": "lib_roundtrip", "tool": mode, "key": k.kind, "dsse": dsse},
                             {"why": "in_toto_record_stop(%s=...) was not recorded in the link" % key, "recorded": pl.get(key), "passed": val})
        same = {k2: v for k2, v in outs[False].items() if k2 != "is_envelope"} == \
               {k2: v for k2, v in outs[True].items() if k2 != "is_envelope"}
        ok_kinds = outs[False]["is_envelope"] == "Metablock" and outs[True]["is_envelope"] == "Envelope"
        res.case({"tool": mode, "key": k.kind, "traditional": {a: b for a, b in outs[False].items() if a != "payload"},
                  "dsse": {a: b for a, b in outs[True].items() if a != "payload"}}, True, True)
        res.count("lib_" + mode)
        if not same or not ok_kinds or outs[False]["sig"] != "ok" or outs[False]["sig_other_key"] == "ok":
            res.fail("oracle", {"op": "lib_roundtrip", "tool": mode, "key": k.kind},
                     {"why": "library tool outcome differs between traditional and DSSE metadata", "outcomes": {
                         "traditional": outs[False], "dsse": outs[True]}})
    finally:
        os.chdir(cwd)
        shutil.rmtree(d, ignore_errors=True)


def foreign_link_case(rng, res):
    """A link as another tool might write it (product names that are not in normalised spelling, hash records with other
    algorithms), stored in both formats: in-toto-match-products and the library give the same report and status for both."""
    import hashlib, tempfile, shutil, logging
    import in_toto.runlib as rl
    from in_toto.models.link import Link
    from in_toto.models.metadata import Metablock, Envelope, Metadata
    from harness import cli
    logging.getLogger("in_toto").setLevel(logging.CRITICAL)
    d = tempfile.mkdtemp(prefix="verif-c14f-")
    cwd = os.getcwd()
    try:
        os.chdir(d)
        os.makedirs("src"); os.makedirs("meta")
        open("src/a.txt", "w").write("a\n"); open("b.txt", "w").write("b\n")
        ha, hb = hashlib.sha256(b"a\n").hexdigest(), hashlib.sha256(b"b\n").hexdigest()
        names = rng.choice([("./b.txt", "src//a.txt"), ("b.txt", "src/./a.txt"), ("zz/../b.txt", "src/a.txt"), ("b.txt", "src/a.txt"), ("b.txt", "src\\a.txt")])
        rec_b = rng.choice([{"sha256": hb}, {"sha256": hb, "sha512": "00" * 64}])
        lk = Link(name="s", products={names[0]: rec_b, names[1]: {"sha256": ha}})
        outs = {}
        for fmt in ("traditional", "dsse"):
            fn = os.path.join("meta", "s.%s.json" % fmt)
            (Envelope.from_signable(lk) if fmt == "dsse" else Metablock(signed=lk)).dump(fn)
            rep = rl.in_toto_match_products(Metadata.load(fn).get_payload(), paths=["b.txt", "src"])
            st, out, _e = cli.run_main("in_toto_match_products", ["--link", fn, "--paths", "b.txt", "src", "-v"])
            st2 = cli.run_main("in_toto_match_products", ["--link", fn, "--exclude", "meta"])[0]
            outs[fmt] = {"library": [sorted(x) for x in rep], "status": st, "status_default_paths": st2, "report_lines": sorted(out.splitlines())}
        same = outs["traditional"] == outs["dsse"]
        case = {"op": "foreign_link", "product_names": list(names), "record_b": sorted(rec_b)}
        res.case(dict(case, traditional=outs["traditional"]["status"], dsse=outs["dsse"]["status"]), True, same, sample_cap=1)
        res.count("foreign_link")
        if not same:
            res.fail("oracle", case, {"why": "match-products gives another outcome for the DSSE copy of a link than for the traditional one", "outcomes": outs})
    finally:
        os.chdir(cwd)
        shutil.rmtree(d, ignore_errors=True)


def alias_dump_case(rng, res):
    """Metadata written through another name of the file (a symbolic link into a shared store, a hard link): in-toto-sign
    in place, a step run again. Whatever the format, the same thing must happen to the file behind the name."""
    import tempfile, shutil, contextlib, io, logging
    import in_toto.runlib as rl
    from in_toto.models.layout import Layout
    from in_toto.models.metadata import Metadata, Metablock, Envelope
    logging.getLogger("in_toto").setLevel(logging.CRITICAL)
    k = rng.choice(W.pool())
    kind = rng.choice(["symlink", "symlink", "hardlink"])
    how = rng.choice(["sign_in_place", "run_again"])
    outs = {}
    for dsse in (False, True):
        d = tempfile.mkdtemp(prefix="verif-c14a-")
        cwd = os.getcwd()
        try:
            os.chdir(d)
            os.makedirs("store"); os.makedirs("work")
            if how == "sign_in_place":
                lay = Layout(expires="2031-01-01T00:00:00Z")
                (Envelope.from_signable(lay) if dsse else Metablock(signed=lay)).dump("store/root.layout")
                name = "work/root.layout"
            else:
                name = "work/st.%s.link" % k.keyid[:8]
                open("store/st.link", "w").write("{}")
            real = "store/root.layout" if how == "sign_in_place" else "store/st.link"
            if kind == "symlink":
                os.symlink(os.path.join("..", real), name)
            else:
                os.link(real, name)
            try:
                with contextlib.redirect_stdout(io.StringIO()), contextlib.redirect_stderr(io.StringIO()):
                    if how == "sign_in_place":
                        md = Metadata.load(name)
                        md.create_signature(k.signer)
                        md.dump(name)
                    else:
                        os.chdir("work")
                        open("a.txt", "w").write("a\n")
                        rl.in_toto_run("st", ["a.txt"], ["a.txt"], [], signer=k.signer, use_dsse=dsse)
                        os.chdir(d)
                behind = Metadata.load(real)
                outs[dsse] = {"name_still_an_alias": os.path.islink(name) if kind == "symlink" else os.path.samefile(name, real),
                              "file_behind_the_name_signed_by": [getattr(s_, "keyid", None) or s_.get("keyid") for s_ in behind.signatures],
                              "left_over": sorted(f for f in os.listdir("work") if f.endswith(".tmp"))}
            except Exception as e:  # pylint: disable=broad-except
                outs[dsse] = {"err": W.exc_class(e)}
        finally:
            os.chdir(cwd)
            shutil.rmtree(d, ignore_errors=True)
    case = {"op": "alias_dump", "alias": kind, "how": how, "key": k.kind}
    same = outs[False] == outs[True]
    res.case(dict(case, outcome=outs[False]), True, same, sample_cap=1)
    res.count("alias_dump")
    if not same:
        res.fail("oracle", case, {"why": "writing metadata through another name of the file has different effects for traditional and DSSE metadata",
                                  "traditional": outs[False], "dsse": outs[True]})


UNENCODABLE = [("float_in_byproducts", {"byproducts": {"return-value": 0, "elapsed": 1.5}}),
               ("float_in_environment", {"environment": {"load": 0.25}}),
               ("name_not_utf8_in_products", {"products": {"caf\udce9.txt": {"sha256": "ab" * 32}}}),
               ("name_not_utf8_in_materials", {"materials": {"r\udce9sum\udce9": {"sha256": "cd" * 32}}}),
               ("float_in_command_list", {"command": ["sleep", 0.5]})]


def unencodable_content_case(res, no):
    """Link content that canonical JSON cannot express (a number that is not an integer, a file name that is not
    UTF-8 and reaches Python as lone surrogates): constructed, wrapped, signed, written, loaded and checked through the
    public classes, once per format. How far it gets, and how it ends, is the same for both formats."""
    import tempfile, shutil
    from in_toto.models.link import Link
    from in_toto.models.metadata import Metadata, Metablock, Envelope
    label, extra = UNENCODABLE[no % len(UNENCODABLE)]
    k = W.pool()[(no // len(UNENCODABLE)) % len(W.pool())]
    outs = {}
    for dsse in (False, True):
        d = tempfile.mkdtemp(prefix="verif-c14u-")
        stage = "construct"
        try:
            kw = dict({"name": "st", "materials": {}, "products": {}, "byproducts": {}, "environment": {}, "command": []}, **extra)
            link = Link(**kw)
            stage = "wrap"
            md = Envelope.from_signable(link) if dsse else Metablock(signed=link)
            stage = "sign"
            md.create_signature(k.signer)
            stage = "dump"
            path = os.path.join(d, "st.%s.link" % k.keyid[:8])
            md.dump(path)
            stage = "load"
            md2 = Metadata.load(path)
            stage = "verify"
            import copy as _copy
            md2.verify_signature(_copy.deepcopy(k.pub))
            outs[dsse] = {"ends": "verified"}
        except Exception as e:  # pylint: disable=broad-except
            # (how far it got - whether such a link can be made, signed, stored and used at all - is part of the outcome;
            #  the class of the error is reported, not compared)
            outs[dsse] = {"ends": "refused", "got_as_far_as": stage if stage in ("construct", "wrap") else "past construction"}
            outs[dsse + 2] = {"stage": stage, "err": W.exc_class(e)}
        finally:
            shutil.rmtree(d, ignore_errors=True)
    case = {"op": "unencodable_content", "content": label, "no": no, "key": k.kind}
    same = outs[False] == outs[True]
    res.case(dict(case, traditional=outs[False], dsse=outs[True], detail={"traditional": outs.get(2), "dsse": outs.get(3)}), True, same, sample_cap=1)
    res.count("unencodable_content")
    if not same:
        res.fail("oracle", case, {"why": "content that canonical JSON cannot express is handled differently by the two formats",
                                  "traditional": outs[False], "dsse": outs[True], "detail": {"traditional": outs.get(2), "dsse": outs.get(3)}})


FAMILIES = ["c02", "c05", "c06", "c07", "c08", "c16"]


def shard(seed, idx, n, tier):
    res = core.Result()
    rng = core.rng_for(seed, "c14", idx)
    for j in range(n):
        one_case(rng, res, FAMILIES[(idx + j) % len(FAMILIES)])
    if idx % 2 == 0:
        one_case(rng, res, "illformed")
    alias_dump_case(rng, res)
    unencodable_content_case(res, idx)
    for _ in range(max(1, n // 4)):
        lib_roundtrip(rng, res)
        foreign_link_case(rng, res)
    from harness.props import c09
    for _ in range(n):
        c09.history_case(rng.randrange(1 << 40), res, "C14")
    return res


def run(tier, seed):
    per = 8 if tier == "quick" else 90
    return core.parallel(core.call, [(shard, (seed, i, per, tier)) for i in range(16)])


def replay(case):
    if case.get("op") == "history":
        from harness.props import c09
        return c09.replay(case)
    if case.get("op") == "unencodable_content":
        res = core.Result()
        unencodable_content_case(res, case["no"])
        return {"failures": res.failures, "samples": res.samples}
    if case.get("op") == "lib_roundtrip":
        res = core.Result()
        lib_roundtrip(random.Random(0), res)
        return {"failures": res.failures}
    return vcommon.replay(case)


search = vcommon.generic_search(shard, per=10)
