"""C05 — artifacts used for a step are attested identically by a threshold of signers."""
import json

from harness import core, scen, vcommon, world as W

RULE = ("layouts of 1-3 steps whose last step has threshold 1-3 and 2-4 validly signing functionaries whose links agree or differ in "
        "one material / product path or hash, mixed with invalid and unauthorised dissenters, every load-order "
        "position of the dissenter; the evaluated artifacts are observed in the returned summary link. Non-trivial: "
        "threshold > 1 or at least one dissenter; distinct by description.")
ASSUMPTIONS = ["signatures present are non-malleable (ground-truth table)"]


VARIANT_KINDS = ["mat_hash", "prod_hash", "mat_extra", "prod_extra", "prod_missing", "prod_rename", "prod_alias", "mat_alias",
                 "prod_other_algorithm", "mat_other_algorithm", "prod_empty_record", "prod_more_algorithms",
                 "prod_ignorable_extra", "mat_ignorable_extra"]


def variant(rng, mats, prods, kind=None, alias_no=None):
    kind = kind or rng.choice(["mat_hash", "prod_hash", "mat_extra", "prod_extra", "prod_missing", "prod_rename", "prod_alias", "prod_alias", "mat_alias",
                       "prod_other_algorithm", "prod_other_algorithm", "mat_other_algorithm", "prod_empty_record", "prod_more_algorithms",
                       "prod_ignorable_extra", "mat_ignorable_extra"])
    m, p = {k: dict(v) for k, v in mats.items()}, {k: dict(v) for k, v in prods.items()}
    if kind == "mat_hash" and m:
        m[rng.choice(sorted(m))] = {"sha256": "ab" * 32}
    elif kind == "prod_hash" and p:
        p[rng.choice(sorted(p))] = {"sha256": "cd" * 32}
    elif kind in ("prod_other_algorithm", "mat_other_algorithm", "prod_empty_record", "prod_more_algorithms") and (m if kind.startswith("mat") else p):
        # the same path with a hash record that shares no algorithm with the others' (another tool, other settings), with no
        # digest at all, or with one digest more: not the identical record - this link reports something else
        d = m if kind.startswith("mat") else p
        k = rng.choice(sorted(d))
        if kind.endswith("other_algorithm"):
            d[k] = {"sha512": "5a" * 64}
        elif kind == "prod_empty_record":
            d[k] = {}
        else:
            d[k] = dict(d[k], md5="0f" * 16)
    elif kind in ("prod_ignorable_extra", "mat_ignorable_extra"):
        # one artifact more, under a name that recording would leave out by default (a byte-code file, an editor backup,
        # something below .git): it IS in this link, so this link reports something else
        (p if kind.startswith("prod") else m)[rng.choice(["app.pyc", "notes.txt~", ".git/HEAD", "old.link"])] = {"sha256": "33" * 32}
    elif kind == "mat_extra":
        m["extra-m"] = {"sha256": "11" * 32}
    elif kind == "prod_missing" and len(p) > 1:
        del p[rng.choice(sorted(p))]
    elif kind == "prod_rename" and p:
        k = rng.choice(sorted(p)); p[k + ".bak"] = p.pop(k)
    elif kind in ("prod_alias", "mat_alias") and (p if kind == "prod_alias" else m):
        # the same record under another spelling of the path (separator, dot segment, doubled slash, letter case,
        # normalisation form, trailing blank) - or that spelling *in addition*, with another hash, listed first.
        # Paths are compared as strings: this link reports something else.
        import unicodedata
        d = p if kind == "prod_alias" else m
        k = rng.choice(sorted(d))
        if alias_no is not None and any("/" in x for x in d):
            k = rng.choice(sorted(x for x in d if "/" in x))      # (a path with a separator, so that every spelling differs)
        spellings = [k.replace("/", "\\") if "/" in k else "./" + k, "./" + k, k.replace("/", "//") if "/" in k else k + "/",
                     k.upper() if k.upper() != k else k.lower(), unicodedata.normalize("NFD", k) if unicodedata.normalize("NFD", k) != k else k + " ",
                     k + " "]
        alias = spellings[alias_no % len(spellings)] if alias_no is not None else rng.choice(spellings)
        if alias == k:
            alias = k + " "
        if rng.random() < 0.5:
            d[alias] = d.pop(k)
        else:
            rest = dict(d); d.clear(); d[alias] = {"sha256": "ef" * 32}; d.update(rest)
    else:
        p["extra-p"] = {"sha256": "22" * 32}
        kind = "prod_extra"
    return kind, m, p


def gen_case(rng, root, case_no=None):
    # the focus step is the last of 1-3 steps; the earlier ones are ordinary single-functionary steps
    ch = scen.gen_chain(rng, root, n_steps=rng.choice([1, 1, 2, 3]), n_insp=0, thresholds=(1,), max_funcs=1)
    ch.closed = False
    step = ch.steps[-1]
    for st_ in ch.steps:
        st_["rules"] = ([["ALLOW", "*"]], [["ALLOW", "*"]])
    used_before = {k.keyid for st_ in ch.steps[:-1] for k in st_["keys"]}
    pool = [k for k in W.pool() if k not in ch.owners and k.keyid not in used_before]
    nf = rng.randrange(2, 5)
    funcs = rng.sample(pool, nf)
    stranger = rng.choice([k for k in pool if k not in funcs] or pool)
    thr = rng.choice([1, 2, 2, 3])
    base = (step["materials"], step["products"])
    ndiss = rng.choice([0, 0, 1, 1, 2])
    if case_no is not None and case_no % 2 == 0:
        ndiss = max(ndiss, 1)      # (every kind of dissent occurs in every run: cycled through, not drawn)
    diss_idx = set(rng.sample(range(nf), min(ndiss, nf)))
    links, files = [], []
    for j, k in enumerate(funcs):
        if j in diss_idx:
            if case_no is not None and case_no % 2 == 0:
                kind, m, p = variant(rng, *base, kind=VARIANT_KINDS[(case_no // 2) % len(VARIANT_KINDS)],
                                     alias_no=case_no // 2 // len(VARIANT_KINDS))
            else:
                kind, m, p = variant(rng, *base)
        else:
            kind, (m, p) = None, base
        tamper = rng.choice([None] * 6 + ["sig", "unsigned"])
        links.append(scen.link_spec(k, rng.choice(["metablock", "dsse"]), step["name"], m, p, tamper=tamper))
        files.append({"kid": k.keyid[:8], "differs": kind, "tamper": tamper,
                      "arts": W.canon({"m": m, "p": p}), "good": tamper is None})
    if rng.random() < 0.4:      # unauthorised dissenter
        kind, m, p = variant(rng, *base)
        links.append(scen.link_spec(stranger, "metablock", step["name"], m, p))
        files.append({"kid": stranger.keyid[:8], "differs": kind, "tamper": None, "arts": W.canon({"m": m, "p": p}),
                      "good": False, "unauthorised": True})
    order = list(range(nf))
    rng.shuffle(order)
    step["pubkeys"] = [funcs[j].keyid for j in order]
    step["keys"] = funcs
    step["links"] = links
    step["threshold"] = thr
    for k in funcs:
        ch.layout_keys[k.keyid] = k.pub
    good = [f for f in files if f["good"]]
    groups = {}
    for f in good:
        groups.setdefault(f["arts"], []).append(f["kid"])
    desc = {"threshold": thr, "files": files, "load_order": [funcs[j].keyid[:8] for j in order],
            "agreeing_groups": sorted(len(v) for v in groups.values()),
            "attested": {a: len(v) for a, v in groups.items()}}
    return ch, desc


def summary_arts(i, base_materials=None):
    """Artifacts evaluated for the focus (= last) step as the summary link shows them: its products; its materials only
    when it is also the first step."""
    s = json.loads(i["result"]["ok"])
    return s["materials"], s["products"]


def one_case(rng, res, case_no=None):
    root = scen.new_root()
    try:
        ch, desc = gen_case(rng, root, case_no)
        scn = scen.build(ch, root, rng)
        scn.params = vcommon.pick_params(rng, desc)
        nontrivial = desc["threshold"] > 1 or any(f["differs"] for f in desc["files"])
        att = desc.pop("attested")
        i, m, _ = vcommon.run_case(scn, desc, res, nontrivial)
        res.count("threshold_%d" % desc["threshold"])
        res.count("groups_%s" % desc["agreeing_groups"])
        if vcommon.accepted(i):
            sm, sp = summary_arts(i)
            need = max(desc["threshold"], 1)
            single = len(ch.steps) == 1
            # how many good functionaries attested exactly the artifacts that were evaluated
            n_att = sum(n for arts, n in att.items()
                        if json.loads(arts)["p"] == sp and (not single or json.loads(arts)["m"] == sm))
            if n_att < need:
                vcommon.oracle_fail(res, scn, desc, "accepted, but the artifacts evaluated (summary link) are not attested "
                                    "identically by at least `threshold` distinct authorised functionaries with valid signatures", i)
    finally:
        scen.drop_root(root)


def shard(seed, idx, n, tier):
    res = core.Result()
    rng = core.rng_for(seed, "c05", idx)
    for j in range(n):
        one_case(rng, res, case_no=idx * n + j)
    if idx < 6 and W.gpg_available():
        # a step that asks for two functionaries and gets: two agreeing links of ONE gpg functionary (two of its subkeys)
        # and a link another functionary recorded for another step (family shared with C08) - one functionary, not two
        from harness.props import c08
        c08.one_case(core.rng_for(seed, "c08-shared", idx), res, force=["replay_plus_two_subkey_links", "double_replay", "failing_sublayout_plus_two_subkey_links"][idx % 3])
        res.count("family_replay_and_subkeys")
    if W.gpg_available():
        # families of C02 and C06 that are about who stands behind the artifacts of a step that asks for more than one
        # functionary: two authorised subkeys of ONE gpg key (one functionary); two functionaries each delegating to the
        # same layout content, the second delegation's links differing or missing
        from harness.props import c02, c06
        grid = c02.gpg_pair_grid()
        c02.one_case(core.rng_for(seed, "c05-pair", idx), res, True, combo=grid[idx % len(grid)])
        c06.one_case(core.rng_for(seed, "c05-shared", idx), res, defect="shared")
        res.count("family_subkey_pairs_and_shared_delegations")
    return res


def run(tier, seed):
    per = 25 if tier == "quick" else 375
    return core.parallel(core.call, [(shard, (seed, i, per, tier)) for i in range(16)])


replay = vcommon.replay
search = vcommon.generic_search(shard)
