"""C03 — artifact rules act as the documented ordered filter.

Correspondence: (A) Lean `Glob.parse/matchToks` vs `fnmatch.fnmatchcase`,
exhaustive over short patterns x short names plus random longer ones;
(B) Lean `verifyItemRules` vs `in_toto.verifylib.verify_item_rules` on random
rule lists x artifact worlds, the remaining queue observed black-box through
REQUIRE probes.  Oracle: an independent set-based re-statement of the
documented rule semantics.
"""
import fnmatch
import itertools
import re

from harness import core

RULE = ("(A) all glob patterns up to a length over {a,b,/,*,?,[,],!,-} x all names up to length 3 over "
        "{a,b,/,!,-,],[} plus random longer patterns over a richer alphabet; (B) random rule lists (1-8 rules, "
        "all seven types, four MATCH forms, mixed keyword case) over artifact worlds with nested paths, equal / "
        "different / multi-algorithm hash records, missing and self-referencing links, for materials and "
        "products. A rule case is non-trivial when it has >= 2 rules, at least one artifact was consumed and at "
        "least one remained (or a rule failed after something was consumed); a glob case when the pattern has a "
        "metacharacter and both outcomes occur among the names; distinct by content.")
ASSUMPTIONS = [
    "fnmatch.translate of CPython 3.12 (the Lean Glob model mirrors it; exhaustively compared at small scope)",
    "paths containing a backslash or producing '//' after prefix stripping are compared with the model but not judged by the oracle",
]

PSYM = "ab/*?[]!-"
NSYM = "ab/!-]["
RICH_P = list("abcxyz/*?[]!-^\\&~|.") + ["é", "\n", " "]
RICH_N = list("abcxyz/!-][^\\&~|.") + ["é", "\n", " "]

# ---------------------------------------------------------------- glob


def glob_batch(pats, names, res, label):
    d = core.driver()
    model = d.batch({"op": "glob", "pat": p, "names": names} for p in pats)
    for p, m in zip(pats, model):
        try:
            rx = re.compile(fnmatch.translate(p))
            impl = [rx.match(n) is not None for n in names]
        except re.error as e:
            impl = ["re.error " + str(e)]
        agreed = impl == m["ok"]
        meta = any(c in p for c in "*?[")
        res.case({"pat": p, "names": names[:8], "impl": impl[:8]},
                 meta and True in impl and False in impl, agreed, sample_cap=2)
        res.evaluations += len(names) - 1
        res.count("glob_" + label)
        if not agreed:
            bad = [n for n, a, b in zip(names, impl, m["ok"]) if a != b][:5] if len(impl) == len(names) else names[:1]
            res.fail("disagree", {"op": "glob", "pat": p, "names": bad},
                     {"op": "glob", "impl": impl if len(impl) < 9 else None, "model_differs_on": bad})


def all_names(sym, maxlen):
    return ["".join(t) for n in range(maxlen + 1) for t in itertools.product(sym, repeat=n)]


def shard_glob_exhaustive(length, firsts):
    res = core.Result()
    names = all_names(NSYM, 3)
    pats = []
    for f in firsts:
        if length == 0:
            pats.append("")
            break
        for rest in itertools.product(PSYM, repeat=length - 1):
            pats.append(f + "".join(rest))
            if len(pats) >= 1500:
                glob_batch(pats, names, res, "exhaustive")
                pats = []
    if pats:
        glob_batch(pats, names, res, "exhaustive")
    return res


def shard_glob_random(seed, idx, n):
    res = core.Result()
    rng = core.rng_for(seed, "c03", "glob", idx)
    names = ["".join(rng.choice(RICH_N) for _ in range(rng.randrange(0, 5))) for _ in range(60)]
    names += ["", "a", "b", "c", "-", "!", "]", "[", "^", "\\", "x", "é"]
    pats = []
    for _ in range(n):
        L = rng.randrange(1, 10)
        if rng.random() < 0.6:  # bracket-heavy
            body = "".join(rng.choice(list("abcxyz-!]^\\&~|[é")) for _ in range(rng.randrange(0, 6)))
            p = "".join(rng.choice(RICH_P) for _ in range(rng.randrange(0, 3))) + "[" + body + "]" + \
                "".join(rng.choice(RICH_P) for _ in range(rng.randrange(0, 3)))
        else:
            p = "".join(rng.choice(RICH_P) for _ in range(L))
        pats.append(p)
    glob_batch(pats, names, res, "random")
    return res


# ---------------------------------------------------------------- rules

PATHS = ["foo", "Foo", "bar", "baz.py", "SRC/a.py", "src/a.py", "src/b.py", "src/sub/c.py", "dst/a.py", "dst/b.py",
         "build/out", "a b", "ünï/ç", "x[1]", "src/foo", "dst/foo", "sub/dir/foo",
         # look-alikes: start with the characters of a prefix without lying below it
         "srcfoo", "srca.py", "dstfoo", "sub/dirfoo", "buildout",
         # names that spell a rule word in another case: patterns, prefixes and step names are data, only the
         # keywords are case insensitive
         "Products", "Materials", "From", "Products/a.py", "In/foo", "Create"]
ODD_PATHS = ["src//q", "src\\w", "/abs"]
HASHES = ["aa11", "bb22", "cc33"]
PATTERNS = ["*", "foo", "Foo", "FOO", "SRC/*", "src/*", "*.py", "[sd]*", "?oo", "nomatch", "src/a.py", "*/a.py", "b*",
            "*[!y]", "sub/*/foo", "dst/*", "a b", "x[[]1]", "ünï/*", "{x}", "Products", "Materials", "From", "Create", "With"]
PREFIXES = ["src", "SRC", "src/", "dst", "dst/", "sub/dir", "build", "", "nope", "Products", "In"]
GENERIC = ["CREATE", "DELETE", "MODIFY", "ALLOW", "DISALLOW", "REQUIRE"]


def rand_case(kw, rng):
    return "".join(c.upper() if rng.random() < 0.5 else c.lower() for c in kw) if rng.random() < 0.3 else kw


def gen_hashrec(rng):
    h = rng.choice(HASHES)
    r = rng.random()
    if r < 0.75:
        return [["sha256", h]]
    if r < 0.9:
        rec = [["sha256", h], ["md5", rng.choice(HASHES)]]
        if rng.random() < 0.5:
            rec.reverse()
        return rec
    return [["sha512", h]]


def gen_arts(rng, odd):
    pool = PATHS + (ODD_PATHS if odd else [])
    n = rng.randrange(0, 8)
    paths = rng.sample(pool, min(n, len(pool)))
    return [[p, gen_hashrec(rng)] for p in paths]


def gen_link(rng, base=None, odd=False):
    """A link; if base is given, derive materials/products from it so that
    MATCH has something to agree with."""
    mats = gen_arts(rng, odd)
    if base is not None and rng.random() < 0.7:
        src = base["products"] if rng.random() < 0.6 else base["materials"]
        mats = []
        for p, h in src:
            r = rng.random()
            if r < 0.6:
                mats.append([p, [list(x) for x in h]])
            elif r < 0.75:
                mats.append([p, gen_hashrec(rng)])
            if r > 0.9:  # re-prefixed copy
                q = p.split("/", 1)[-1]
                mats.append([rng.choice(["src/", "dst/", "sub/dir/"]) + q, [list(x) for x in h]])
        seen = set()
        mats = [m for m in mats if not (m[0] in seen or seen.add(m[0]))]
    prods = []
    for p, h in mats:
        r = rng.random()
        if r < 0.5:
            prods.append([p, [list(x) for x in h]])
        elif r < 0.7:
            prods.append([p, gen_hashrec(rng)])
    for p, h in gen_arts(rng, odd):
        if p not in [x[0] for x in prods] and rng.random() < 0.5:
            prods.append([p, h])
    if rng.random() < 0.3:
        rng.shuffle(prods)
    return {"materials": mats, "products": prods}


def gen_rule(rng, names, present=(), last=False):
    r = rng.random()
    if r < 0.55:
        kw = rng.choices(GENERIC, weights=[4, 3, 3, 3, 4 if last else 1, 2])[0]
        pat = rng.choice(PATTERNS + PATHS[:6])
        if kw == "REQUIRE" and present and rng.random() < 0.7:
            pat = rng.choice(present)
        if kw == "DISALLOW" and not last and rng.random() < 0.7:
            pat = rng.choice(["nomatch", "*.c", "zzz*", "build/*"])
        return [rand_case(kw, rng), pat]
    pat = rng.choice(PATTERNS)
    rule = [rand_case("MATCH", rng), pat]
    form = rng.randrange(4)
    if form in (1, 3):
        # (sometimes a prefix spelled with the other separator, as a layout written on Windows has it: prefixes are
        #  normalised, `sub\dir` means `sub/dir/`)
        rule += [rand_case("IN", rng), rng.choice(PREFIXES) if rng.random() > 0.08 else rng.choice(["src\\", "sub\\dir", "dst\\"])]
    rule += [rand_case("WITH", rng), rand_case(rng.choice(["MATERIALS", "PRODUCTS"]), rng)]
    if form in (2, 3):
        rule += [rand_case("IN", rng), rng.choice(PREFIXES) if rng.random() > 0.08 else rng.choice(["dst\\", "sub\\dir", "src\\"])]
    rule += [rand_case("FROM", rng), rng.choice(names + ["missing"])]
    return rule


def gen_world(rng):
    odd = rng.random() < 0.08
    names = ["item", "s1", "s2"][: rng.randrange(1, 4)]
    if rng.random() < 0.15:
        names = ["item"] + [x for x in names[1:2] and ["From"]] + [x for x in names[2:3] and ["Products"]]
    links = []
    base = None
    for n in names:
        l = gen_link(rng, base, odd)
        links.append([n, l])
        base = l
    if rng.random() < 0.5:
        links.reverse()
    nrules = rng.randrange(1, 9)
    present = [p for p, _h in dict((n, l) for n, l in links)["item"]["materials"]]
    rules = [gen_rule(rng, names, present, k == nrules - 1) for k in range(nrules)]
    if rng.random() < 0.03:
        rules[rng.randrange(nrules)] = ["MATCH", "x", "WITH", "NOTHING", "FROM", "s1"]  # malformed
    return {"name": "item", "type": rng.choice(["materials", "products"]), "rules": rules,
            "links": links, "odd": odd}


def impl_item_rules(case, extra=None):
    import in_toto.verifylib as vl
    from in_toto.models.link import Link
    from in_toto.exceptions import RuleVerificationError
    links = {}
    for n, l in case["links"]:
        links[n] = Link(name=n, materials={p: dict(h) for p, h in l["materials"]},
                        products={p: dict(h) for p, h in l["products"]})
    rules = [list(r) for r in case["rules"]] + (extra or [])
    try:
        vl.verify_item_rules(case["name"], case["type"], rules, links)
        return "pass"
    except RuleVerificationError:
        return "RuleVerificationError"
    except Exception as e:  # pylint: disable=broad-except
        return type(e).__name__


def impl_observe(case):
    """verdict, and on pass the remaining queue observed through REQUIRE probes."""
    v = impl_item_rules(case)
    if v != "pass":
        return {"err": v}
    arts = dict((n, l) for n, l in case["links"])[case["name"]][case["type"]]
    remain = [p for p, _h in arts if impl_item_rules(case, [["REQUIRE", p]]) == "pass"]
    return {"ok": sorted(remain)}


def sort_like_lean(paths):
    return sorted(paths)


def oracle_item_rules(case):
    """Independent re-statement of the documented semantics over sets.
    Returns {"ok": sorted remaining} / {"err": "RuleVerificationError"|"FormatError"} / None (out of scope)."""
    links = {n: {"materials": {p: dict(h) for p, h in l["materials"]},
                 "products": {p: dict(h) for p, h in l["products"]}} for n, l in case["links"]}
    item = links[case["name"]]
    M, P = item["materials"], item["products"]
    arts = item[case["type"]]
    queue = set(arts)
    if any("\\" in p for l in links.values() for k in ("materials", "products") for p in l[k]):
        return None
    for rule in case["rules"]:
        low = [t.lower() for t in rule]
        kw = low[0]
        if kw in ("create", "delete", "modify", "allow", "disallow", "require"):
            if len(rule) != 2:
                return {"err": "FormatError"}
            pat = rule[1]
            hit = {p for p in queue if fnmatch.fnmatchcase(p, pat)}
            if kw == "create":
                queue -= {p for p in hit if p in P and p not in M}
            elif kw == "delete":
                queue -= {p for p in hit if p in M and p not in P}
            elif kw == "modify":
                queue -= {p for p in hit if p in M and p in P and M[p] != P[p]}
            elif kw == "allow":
                queue -= hit
            elif kw == "disallow":
                if hit:
                    return {"err": "RuleVerificationError"}
            elif kw == "require":
                if pat not in queue:
                    return {"err": "RuleVerificationError"}
            continue
        if kw != "match":
            return {"err": "FormatError"}
        n = len(rule)
        sp = dp = ""
        if n == 6 and low[2] == "with" and low[4] == "from":
            dt, dn = low[3], rule[5]
        elif n == 8 and low[2] == "in" and low[4] == "with" and low[6] == "from":
            sp, dt, dn = rule[3], low[5], rule[7]
        elif n == 8 and low[2] == "with" and low[4] == "in" and low[6] == "from":
            dt, dp, dn = low[3], rule[5], rule[7]
        elif n == 10 and low[2] == "in" and low[4] == "with" and low[6] == "in" and low[8] == "from":
            sp, dt, dp, dn = rule[3], low[5], rule[7], rule[9]
        else:
            return {"err": "FormatError"}
        if dt not in ("materials", "products"):
            return {"err": "FormatError"}
        if sp.endswith("\\") or dp.endswith("\\"):
            return None      # (a trailing backslash becomes a doubled slash: a quirk outside the documented behaviour)
        # a prefix written with the other separator means the same directory
        sp, dp = sp.replace("\\", "/"), dp.replace("\\", "/")
        if dn not in links:
            continue
        dest = links[dn][dt]
        spn = sp if (not sp or sp.endswith("/")) else sp + "/"
        dpn = dp if (not dp or dp.endswith("/")) else dp + "/"
        consumed = set()
        for p in queue:
            if not p.startswith(spn):
                continue
            rel = p[len(spn):]
            if rel.startswith("/"):
                return None  # '//' after stripping: os.path.join quirk, out of the documented scope
            if not fnmatch.fnmatchcase(rel, rule[1]):
                continue
            q = dpn + rel
            if q in dest and dest[q] == arts[p]:
                consumed.add(p)
        queue -= consumed
    return {"ok": sorted(queue)}


def norm_model(m):
    if "err" in m:
        return {"err": {"KeyError": "KeyError", "FormatError": "FormatError",
                        "RuleVerificationError": "RuleVerificationError"}.get(m["err"], m["err"])}
    return {"ok": sorted(m["ok"])}


def check_worlds(cases, res, judge=True):
    d = core.driver()
    model = d.batch({"op": "item_rules", "name": c["name"], "type": c["type"], "rules": c["rules"],
                     "links": c["links"]} for c in cases)
    for c, m in zip(cases, model):
        m = norm_model(m)
        i = impl_observe(c)
        agreed = i == m
        arts = dict((n, l) for n, l in c["links"])[c["name"]][c["type"]]
        n_arts = len(arts)
        consumed_some = ("ok" in i and len(i["ok"]) < n_arts)
        nontrivial = len(c["rules"]) >= 2 and n_arts >= 2 and (
            ("ok" in i and 0 < len(i["ok"]) < n_arts) or "err" in i)
        res.case({"world": c, "impl": i, "model": m}, nontrivial, agreed, sample_cap=2)
        res.count("verdict_" + ("pass" if "ok" in i else i["err"]))
        res.count("nrules_%d" % len(c["rules"]))
        for r in c["rules"]:
            res.count("ruletype_" + r[0].lower())
        if consumed_some:
            res.count("consumed_some")
        if not agreed:
            res.fail("disagree", {"op": "item_rules", "world": c}, {"op": "item_rules", "impl": i, "model": m})
        if judge:
            o = oracle_item_rules(c)
            if o is None:
                res.count("oracle_out_of_scope")
            elif o != i:
                res.fail("oracle", {"op": "item_rules", "world": c},
                         {"why": "verify_item_rules differs from the documented rule semantics",
                          "impl": i, "documented": o})


def shard_rules(seed, idx, n):
    res = core.Result()
    rng = core.rng_for(seed, "c03", "rules", idx)
    check_worlds([gen_world(rng) for _ in range(n)], res)
    return res


class _Item:
    """What verify_all_item_rules reads of a step or inspection."""
    def __init__(self, name, rm, rp):
        self.name, self.expected_materials, self.expected_products = name, rm, rp


def gen_all_items(rng):
    """Several items over one dictionary of links, each with a material and a product rule list: the two lists of one
    item, and the lists of different items, are evaluated independently - each starts from all recorded artifacts of its
    kind, whatever an earlier list consumed (paths recorded both as material and as product, CREATE / DELETE / MODIFY
    after a list that consumed them, are drawn on purpose)."""
    w = gen_world(rng)
    names = [n for n, _l in w["links"]]
    items = []
    for n in rng.sample(names, rng.randrange(1, len(names) + 1)):
        link = dict((a, b) for a, b in w["links"])[n]
        both = sorted(set(p for p, _h in link["materials"]) & set(p for p, _h in link["products"]))
        lists = []
        for typ in ("materials", "products"):
            present = [p for p, _h in link[typ]]
            k = rng.randrange(0, 6)
            rules = [gen_rule(rng, names, present, j == k - 1) for j in range(k)]
            if both and rng.random() < 0.6:
                # consume a shared path early in this list ...
                rules.insert(0, [rng.choice(["ALLOW", "MODIFY", "ALLOW"]), rng.choice(both + ["*"])])
            if rng.random() < 0.6:
                # ... and ask in this list about what only a fresh queue still holds
                rules += [[rng.choice(["CREATE", "DELETE", "MODIFY"]), rng.choice(["*"] + present[:2])], ["DISALLOW", rng.choice(["*"] + present[:2])]]
            lists.append(rules)
        items.append({"name": n, "materials": lists[0], "products": lists[1]})
    return {"items": items, "links": w["links"]}


def impl_all_items(case):
    import in_toto.verifylib as vl
    from in_toto.models.link import Link
    from in_toto.exceptions import RuleVerificationError
    links = {}
    for n, l in case["links"]:
        links[n] = Link(name=n, materials={p: dict(h) for p, h in l["materials"]},
                        products={p: dict(h) for p, h in l["products"]})
    items = [_Item(it["name"], [list(r) for r in it["materials"]], [list(r) for r in it["products"]]) for it in case["items"]]
    try:
        vl.verify_all_item_rules(items, links)
        return "pass"
    except RuleVerificationError:
        return "RuleVerificationError"
    except Exception as e:  # pylint: disable=broad-except
        return type(e).__name__


def shard_all_items(seed, idx, n):
    res = core.Result()
    rng = core.rng_for(seed, "c03", "all_items", idx)
    cases = [gen_all_items(rng) for _ in range(n)]
    model = core.driver().batch({"op": "all_item_rules", "items": c["items"], "links": c["links"]} for c in cases)
    for c, m in zip(cases, model):
        m = m.get("ok") or m.get("err")
        i = impl_all_items(c)
        # the documented semantics, list by list, each from a fresh queue
        o, scope = "pass", True
        for it in c["items"]:
            for typ in ("materials", "products"):
                r = oracle_item_rules({"name": it["name"], "type": typ, "rules": it[typ], "links": c["links"]})
                if r is None:
                    scope = False
                elif "err" in r and o == "pass":
                    o = r["err"]
            if o != "pass":
                break
        nlists = sum(1 for it in c["items"] for typ in ("materials", "products") if it[typ])
        res.case({"all_items": c, "impl": i, "model": m}, nlists >= 2, i == m, sample_cap=1)
        res.count("family_all_items"); res.count("all_items_" + i)
        if i != m:
            res.fail("disagree", {"op": "all_item_rules", "world": c}, {"op": "all_item_rules", "impl": i, "model": m})
        if scope and o != i and not (o != "pass" and i != "pass"):
            res.fail("oracle", {"op": "all_item_rules", "world": c},
                     {"why": "verify_all_item_rules differs from the documented rule semantics applied to each rule list on its own",
                      "impl": i, "documented": o})
    return res


def gen_xrules(rng, names, fitting=()):
    """A rule list whose MATCH refers to any item of the layout: itself, an earlier one, a later one. `fitting`: the
    (kind, name) references that record the same artifacts (so that the list passes), chosen most of the time."""
    rules = []
    if rng.random() < 0.2:
        rules.append(["ALLOW", rng.choice(["nothing*", "zzz"])])
    if fitting and rng.random() < 0.85:
        kind, name = rng.choice(list(fitting))
        rules.append(["MATCH", "*", "WITH", kind, "FROM", name])
    elif names:
        rules.append(["MATCH", rng.choice(["*", "*", "sub/*", "foo"]), "WITH", rng.choice(["MATERIALS", "PRODUCTS"]), "FROM", rng.choice(names)])
    rules += rng.choice([[["DISALLOW", "*"]], [["DISALLOW", "*"]], [["DISALLOW", "*"]], [["ALLOW", "*"]], []])
    return rules


def pipeline_case(rng, res):
    """The rules as a whole verification applies them: the rule lists of every step are evaluated against the links of
    *all* steps, those of every inspection against the links of all steps and all inspections - whatever the position
    of the referenced item in the layout (before, after, itself). Honest, correctly signed single-functionary chains;
    the expected verdict is the documented semantics evaluated on the generator's ground truth."""
    from harness import scen, vcommon, world as W
    root = scen.new_root()
    try:
        ch = scen.gen_chain(rng, root, n_steps=rng.choice([1, 2, 3]), n_insp=rng.choice([1, 2, 2, 3]), thresholds=(1,), max_funcs=1)
        step_names = [s_["name"] for s_ in ch.steps]
        insp_names = [x["name"] for x in ch.inspections]
        for k, s_ in enumerate(ch.steps):
            fit_m = [("MATERIALS", s_["name"])] + ([("PRODUCTS", step_names[k - 1])] if k else [])
            fit_p = [("PRODUCTS", s_["name"])] + ([("MATERIALS", step_names[k + 1])] * 3 if k + 1 < len(step_names) else [])
            s_["rules"] = (gen_xrules(rng, step_names + insp_names[:1], fit_m), gen_xrules(rng, step_names, fit_p))
        for k, x in enumerate(ch.inspections):
            # every inspection records the final product; so does the last step as its products
            fit = [(kd, n_) for n_ in insp_names[k + 1:] for kd in ("MATERIALS", "PRODUCTS")] * 3 + \
                  [(kd, n_) for n_ in insp_names[:k + 1] for kd in ("MATERIALS", "PRODUCTS")] + [("PRODUCTS", step_names[-1])]
            x["rules_m"] = gen_xrules(rng, step_names + insp_names, fit)
            x["rules_p"] = gen_xrules(rng, insp_names + step_names[-1:], fit)
        as_list = lambda d: [[p_, sorted(h.items())] for p_, h in sorted(d.items())]
        step_links = [[s_["name"], {"materials": as_list(s_["materials"]), "products": as_list(s_["products"])}] for s_ in ch.steps]
        recording = W.product_recording(ch.final)
        insp_links = [[x["name"], {"materials": recording, "products": recording}] for x in ch.inspections]
        expected = True
        why = None
        for kind, items, links in (("step", ch.steps, step_links), ("inspection", ch.inspections, step_links + insp_links)):
            for it in items:
                rm, rp = it["rules"] if kind == "step" else (it["rules_m"], it["rules_p"])
                for typ, rules in (("materials", rm), ("products", rp)):
                    o = oracle_item_rules({"name": it["name"], "type": typ, "rules": rules, "links": links})
                    if o is not None and "err" in o and expected:
                        expected, why = False, "%s %s: %s rules %r" % (kind, it["name"], typ, rules)
        scn = scen.build(ch, root, rng)
        desc = {"family": "pipeline", "steps": step_names, "inspections": insp_names,
                "rules": {it["name"]: (it.get("rules") or (it["rules_m"], it["rules_p"])) for it in ch.steps + ch.inspections},
                "expected_accept": expected}
        i, _m, _agreed = vcommon.run_case(scn, desc, res, True)
        res.count("family_pipeline")
        res.count("pipeline_expected_%s" % expected)
        acc = vcommon.accepted(i)
        if i.get("load") == "ok" and acc != expected:
            err = (i.get("result") or {}).get("err")
            if acc or err == "RuleVerificationError":
                vcommon.oracle_fail(res, scn, desc, ("verification passed although a rule fails on the recorded artifacts (%s)" % why) if acc else
                                    "verification failed with a rule error although no rule fails on the recorded artifacts of the items the rules refer to", i)
    finally:
        scen.drop_root(root)


def shard_pipeline(seed, idx, n):
    res = core.Result()
    rng = core.rng_for(seed, "c03", "pipeline", idx)
    for _ in range(n):
        pipeline_case(rng, res)
    return res


CORPUS = [
    # '-' binds tighter than '&' in verify_create_rule; MATCH with prefix; KeyError quirk
    {"name": "item", "type": "products", "odd": False,
     "rules": [["CREATE", "*"], ["MATCH", "*", "IN", "src", "WITH", "PRODUCTS", "IN", "dst", "FROM", "s1"],
               ["DISALLOW", "*.py"]],
     "links": [["item", {"materials": [["foo", [["sha256", "aa11"]]]],
                         "products": [["foo", [["sha256", "aa11"]]], ["new", [["sha256", "bb22"]]],
                                      ["src/a.py", [["sha256", "cc33"]]]]}],
               ["s1", {"materials": [], "products": [["dst/a.py", [["sha256", "cc33"]]]]}]]},
    # prefixes spelled with the other separator (a layout written on Windows): they are normalised like any other
    {"name": "item", "type": "materials", "odd": False,
     "rules": [["MATCH", "*", "IN", "sub\\dir", "WITH", "PRODUCTS", "IN", "dst\\x", "FROM", "s1"], ["DISALLOW", "*"]],
     "links": [["item", {"materials": [["sub/dir/foo", [["sha256", "aa11"]]]], "products": []}],
               ["s1", {"materials": [], "products": [["dst/x/foo", [["sha256", "aa11"]]]]}]]},
    {"name": "item", "type": "products", "odd": False,
     "rules": [["MATCH", "foo", "IN", "sub\\dir", "WITH", "MATERIALS", "FROM", "s1"], ["REQUIRE", "sub/dir/foo"]],
     "links": [["item", {"materials": [], "products": [["sub/dir/foo", [["sha256", "aa11"]]], ["bar", [["sha256", "bb22"]]]]}],
               ["s1", {"materials": [["foo", [["sha256", "aa11"]]]], "products": []}]]},
    {"name": "item", "type": "materials", "odd": True,
     "rules": [["MATCH", "*", "IN", "src", "WITH", "PRODUCTS", "FROM", "item"]],
     "links": [["item", {"materials": [["src//q", [["sha256", "aa11"]]]], "products": []}]]},
]


def run(tier, seed):
    shards = []
    maxlen = 4 if tier == "quick" else 5
    for L in range(0, maxlen + 1):
        for f in (PSYM if L else "a"):
            shards.append((shard_glob_exhaustive, (L, [f])))
    ng, nr, ns = (400, 300, 16) if tier == "quick" else (6000, 4500, 16)
    for i in range(ns):
        shards.append((shard_glob_random, (seed, i, ng)))
        shards.append((shard_rules, (seed, i, nr)))
    shards.append((shard_corpus, ()))
    for i in range(8):
        shards.append((shard_all_items, (seed, i, 150 if tier == "quick" else 2500)))
    for i in range(8):
        shards.append((shard_pipeline, (seed, i, 6 if tier == "quick" else 120)))
    res = core.parallel(_dispatch, shards)
    res.notes.append("glob: exhaustive for patterns of length <= %d over %r x names of length <= 3 over %r" % (
        maxlen, PSYM, NSYM))
    return res


def shard_corpus():
    res = core.Result()
    check_worlds([dict(c) for c in CORPUS], res)
    return res


def _dispatch(func, args):
    return func(*args)


def replay(case):
    d = core.driver()
    if case.get("op") == "glob":
        m = d.call({"op": "glob", "pat": case["pat"], "names": case["names"]})
        return {"impl": [fnmatch.fnmatchcase(n, case["pat"]) for n in case["names"]], "model": m}
    if "world" not in case:
        from harness import vcommon
        return vcommon.replay(case)
    c = case["world"]
    m = d.call({"op": "item_rules", "name": c["name"], "type": c["type"], "rules": c["rules"], "links": c["links"]})
    return {"impl": impl_observe(c), "model": norm_model(m), "documented_semantics_oracle": oracle_item_rules(c)}


def search(failure, tier, seed):
    """After a correspondence break: evaluate the oracle on the disagreeing world,
    on every prefix and every single rule of it for both artifact kinds, then on a
    10x budget of fresh random worlds."""
    case = failure["case"]
    res = core.Result()
    if case.get("op") == "item_rules":
        w = case["world"]
        variants = [w]
        for k in range(1, len(w["rules"]) + 1):
            variants.append(dict(w, rules=w["rules"][:k]))
        for r in w["rules"]:
            variants.append(dict(w, rules=[r]))
        variants += [dict(v, type="products" if v["type"] == "materials" else "materials") for v in variants]
        check_worlds(variants, res)
    for f in res.failures:
        if f["kind"] == "oracle":
            return f
    rng = core.rng_for(seed, "c03", "search")
    check_worlds([gen_world(rng) for _ in range(3000)], res)
    for f in res.failures:
        if f["kind"] == "oracle":
            return f
    return None


def shrink(failure):
    """Drop rules / links / artifacts while the oracle still fails."""
    case = failure["case"]
    if case.get("op") != "item_rules":
        return failure
    w = case["world"]

    def fails(x):
        o = oracle_item_rules(x)
        return o is not None and o != impl_observe(x)

    if not fails(w):
        return failure
    changed = True
    while changed:
        changed = False
        for k in range(len(w["rules"])):
            x = dict(w, rules=w["rules"][:k] + w["rules"][k + 1:])
            if x["rules"] and fails(x):
                w, changed = x, True
                break
        if changed:
            continue
        for li, (n, l) in enumerate(w["links"]):
            for kind in ("materials", "products"):
                for k in range(len(l[kind])):
                    l2 = dict(l); l2[kind] = l[kind][:k] + l[kind][k + 1:]
                    links2 = list(w["links"]); links2[li] = [n, l2]
                    x = dict(w, links=links2)
                    if fails(x):
                        w, changed = x, True
                        break
                if changed:
                    break
            if changed:
                break
    return {"kind": "oracle", "case": {"op": "item_rules", "world": w},
            "detail": {"why": "verify_item_rules differs from the documented rule semantics",
                       "impl": impl_observe(w), "documented": oracle_item_rules(w)}}
