"""C15 — library calls leave working directory, settings and temp space unchanged.

For every entry point and argument shape the real call is first traced with an
audit hook, then repeated once per traced operation with an OSError injected at
exactly that operation; plus the input-triggered failures. After each run the
working directory, every attribute of in_toto.settings and the temp directory
are compared with their values before the call.  The trace is turned into a
program of the Lean effect language (brackets recognised from the chdir / mkstemp
pairs) and `exec` under the same fault predicts (raised?, restored?)."""
import contextlib
import io
import json
import logging
import os
import shutil
import sys
import tempfile

from harness import core, inject, world as W

RULE = ("entry points record_artifacts_as_dict, in_toto_run (with / without stream capture), in_toto_record_start / stop, "
        "in_toto_match_products, in_toto_verify (zero, one, two inspections; passing, failing, timed-out; a step delegated to a "
        "sublayout without inspections) x base path by argument / "
        "setting / none x an OSError injected at every audited file-system operation of the call in turn, plus input-triggered "
        "failures (prefix collision, missing base directory, missing ostree ref, bad key, failing inspection). Non-trivial: "
        "the call performs >= 3 audited operations; distinct by (entry point, shape, fault position).")
ASSUMPTIONS = ["faults at the restoring operations themselves (chdir back, removal of a capture file) are enumerated and reported "
               "but not judged: no implementation can restore the state through a failing restore",
               "os.walk swallows scandir errors: the recording silently gets smaller (observed, not judged; DESIGN 4.3)",
               "the sandbox runs as root, so permission faults are injected rather than provoked"]


SNAP_ROOT = [None]
# the directory the calls are made from: a name with a backslash (a separator elsewhere, an ordinary character here), a
# blank and a non-ASCII letter; a directory "wo/r kö" exists beside it
WORK = "wo\\r k\u00f6"
# names a call is documented to write: <step>.<keyid8>.link, .<step>.<keyid8>.link-unfinished, <inspection>.link
OUTPUT_NAME = __import__("re").compile(r"^\.?[^/]*\.link(-unfinished)?$")


def snapshot():
    import in_toto.settings as st
    files = []
    root = SNAP_ROOT[0]
    if root:
        for sub in (WORK, "base", "wo"):
            for base, dirs, names in os.walk(os.path.join(root, sub)):
                for n in dirs + names:
                    files.append(os.path.relpath(os.path.join(base, n), root))
    return {"cwd": os.getcwd(),
            "settings": {k: repr(getattr(st, k)) for k in dir(st) if k.isupper()},
            "temp": sorted(os.listdir(tempfile.gettempdir())),
            "files": sorted(files)}


def setup_tree(root):
    os.makedirs(os.path.join(root, "base", "sub"))
    for p, c in (("base/x", "x\n"), ("base/sub/y", "y\n"), ("base/z", "z\n")):
        with open(os.path.join(root, p), "w") as f:
            f.write(c)
    os.makedirs(os.path.join(root, WORK))
    os.makedirs(os.path.join(root, WORK.replace("\\", "/")), exist_ok=True)
    os.makedirs(os.path.join(root, "tmp"))
    # a minimal OSTree-style repository
    commit = "ab" * 32
    os.makedirs(os.path.join(root, "ostree", "refs", "heads"))
    os.makedirs(os.path.join(root, "ostree", "objects", commit[:2]))
    with open(os.path.join(root, "ostree", "refs", "heads", "main"), "w") as f:
        f.write(commit + "\n")
    with open(os.path.join(root, "ostree", "objects", commit[:2], commit[2:] + ".commit"), "wb") as f:
        f.write(b"commit object")


def dir_naming_patterns(root):
    d = os.path.join(root, "base", "sub")
    return [d + "/y", d + "/cache", "*.pyc", "*.link*", "sub/y"]


def make_calls(root):
    """name -> zero-argument callable performing the library call (cwd = root/work
    unless the shape has no base path, then root/base)."""
    import in_toto.runlib as rl
    import in_toto.settings as st
    k = W.pool()[0]
    base = os.path.join(root, "base")
    calls = {}
    calls["record/base_arg"] = lambda: rl.record_artifacts_as_dict(["."], base_path=base)
    calls["record/base_arg_two_paths"] = lambda: rl.record_artifacts_as_dict(["x", "sub"], base_path=base)
    calls["record/no_base"] = lambda: rl.record_artifacts_as_dict([base])
    calls["record/collision"] = lambda: rl.record_artifacts_as_dict(["x", "sub/y"], base_path=base, lstrip_paths=["x", "sub/y"])
    calls["record/missing_base"] = lambda: rl.record_artifacts_as_dict(["."], base_path=os.path.join(root, "nope"))
    calls["record/ostree_missing_ref"] = lambda: rl.record_artifacts_as_dict(["ostree:main"], base_path=base)
    calls["record/dir"] = lambda: rl.record_artifacts_as_dict(["dir:" + base])

    def with_setting(fn):
        def run():
            st.ARTIFACT_BASE_PATH = base
            return fn()
        return run
    calls["record/base_setting"] = with_setting(lambda: rl.record_artifacts_as_dict(["."]))

    def with_patterns(fn):
        def run():
            st.ARTIFACT_EXCLUDE_PATTERNS = ["*.link*", ".git", "*~", "#*#", "!scratch", "\\#keep"]
            return fn()
        return run
    calls["record/exclude_setting_special"] = with_patterns(lambda: rl.record_artifacts_as_dict(["."], base_path=base))
    calls["run/exclude_setting_special"] = with_patterns(lambda: rl.in_toto_run("st7", ["."], ["."], [sys.executable, "-c", "pass"],
                                                                                 base_path=base, signer=k.signer))
    # the global exclude setting spells out the very directory that is recorded as one `dir:` artifact ("sub/y" for dir:sub)

    def with_dir_patterns(fn):
        def run():
            st.ARTIFACT_EXCLUDE_PATTERNS = dir_naming_patterns(root)
            return fn()
        return run
    calls["record/dir_exclude_setting_naming_dir"] = with_dir_patterns(lambda: rl.record_artifacts_as_dict(["dir:" + os.path.join(base, "sub")]))
    calls["run/dir_exclude_setting_naming_dir"] = with_dir_patterns(lambda: rl.in_toto_run(
        "st8", ["dir:" + os.path.join(base, "sub")], ["dir:" + os.path.join(base, "sub"), "x"], [sys.executable, "-c", "pass"], base_path=base, signer=k.signer))
    # (thorough tier) more combinations of entry point x base path x failure
    calls["record/ostree_ok"] = lambda: rl.record_artifacts_as_dict(["ostree:main"], base_path=os.path.join(root, "ostree"))
    calls["match_products/base_setting_collision"] = with_setting(lambda: rl.in_toto_match_products(
        __import__("in_toto.models.link", fromlist=["Link"]).Link(name="l", products={}), paths=["x", "sub/y"], lstrip_paths=["x", "sub/y"]))
    calls["match_products/base_setting"] = with_setting(lambda: rl.in_toto_match_products(
        __import__("in_toto.models.link", fromlist=["Link"]).Link(name="l", products={"x": {"sha256": "00"}}), paths=["."]))
    calls["match_products/base_setting_no_such_dir"] = with_setting(lambda: rl.in_toto_match_products(
        __import__("in_toto.models.link", fromlist=["Link"]).Link(name="l", products={}), paths=["dir:no-such-directory"]))
    calls["record_start/collision"] = lambda: rl.in_toto_record_start("st3", ["x", "sub/y"], base_path=base, signer=k.signer,
                                                                     lstrip_paths=["x", "sub/y"])
    calls["run/collision_products"] = lambda: rl.in_toto_run("st4", ["."], ["x", "sub/y"], [sys.executable, "-c", "pass"], base_path=base,
                                                            signer=k.signer, lstrip_paths=["x", "sub/y"])
    calls["run/base_setting"] = with_setting(lambda: rl.in_toto_run("st5", ["."], ["."], [sys.executable, "-c", "pass"], signer=k.signer,
                                                                    metadata_directory=os.path.join(root, WORK)))
    calls["run/timeout"] = lambda: rl.in_toto_run("st6", ["."], ["."], [sys.executable, "-c", "import time; time.sleep(20)"],
                                                  record_streams=True, base_path=base, signer=k.signer, timeout=1)
    cmd_ok = [sys.executable, "-c", "print('out'); import sys; print('err', file=sys.stderr)"]
    calls["run/streams"] = lambda: rl.in_toto_run("st", ["."], ["."], cmd_ok, record_streams=True, base_path=base, signer=k.signer,
                                                  metadata_directory=os.path.join(root, WORK))
    calls["run/no_streams"] = lambda: rl.in_toto_run("st", ["."], ["."], cmd_ok, base_path=base, signer=k.signer)
    calls["run/failing_command"] = lambda: rl.in_toto_run("st", ["."], ["."], [sys.executable, "-c", "raise SystemExit(3)"],
                                                          record_streams=True, base_path=base, signer=k.signer)
    calls["run/no_such_command"] = lambda: rl.in_toto_run("st", ["."], ["."], ["/no/such/command"], record_streams=True,
                                                          base_path=base, signer=k.signer)
    calls["run/unwritable_metadata_dir"] = lambda: rl.in_toto_run("st", ["."], ["."], cmd_ok, base_path=base, signer=k.signer,
                                                                  metadata_directory=os.path.join(root, "nope"))
    calls["record_start"] = lambda: rl.in_toto_record_start("st", ["."], base_path=base, signer=k.signer)

    def start_stop():
        rl.in_toto_record_start("st2", ["."], base_path=base, signer=k.signer)
        return rl.in_toto_record_stop("st2", ["."], base_path=base, signer=k.signer)
    calls["record_start_stop"] = start_stop
    calls["record_stop/no_preliminary"] = lambda: rl.in_toto_record_stop("absent", ["."], base_path=base, signer=k.signer)

    def match():
        from in_toto.models.link import Link
        return rl.in_toto_match_products(Link(name="l", products={"x": {"sha256": "00"}}), paths=[base])
    calls["match_products"] = match
    for label, (actions, sub) in VERIFY_SHAPES.items():
        calls[label] = _verify_call(root, label.split("/", 1)[1], actions, sub)
    return calls


# label -> (action of each inspection of the verified layout, delegate the step to a sublayout without inspections?)
VERIFY_SHAPES = {
    "verify/inspection_ok": (["exit0"], False),
    "verify/inspection_fails": (["exit1"], False),
    "verify/inspection_times_out": (["sleep"], False),
    "verify/no_inspections": ([], False),
    "verify/two_inspections": (["exit0", "exit0"], False),
    "verify/second_inspection_fails": (["exit0", "exit1"], False),
    "verify/sublayout_no_inspections": ([], True),
    "verify/sublayout_then_inspection_ok": (["exit0"], True),
    "verify/sublayout_then_inspection_fails": (["exit1"], True),
}


def _verify_call(root, tag, actions, sub):
    def run():
        import in_toto.verifylib as vl
        import in_toto.settings as st
        from in_toto.models.metadata import Metadata
        import json
        from harness import scen
        import random
        rng = random.Random(3)
        vroot = os.path.join(root, "v-" + tag)
        if not os.path.exists(vroot):
            ch = scen.gen_chain(rng, vroot, n_steps=1, n_insp=len(actions), thresholds=(1,), max_funcs=1, fmt_mode="metablock",
                                depth=1 if sub else 0, sub_prob=1.0 if sub else 0.0)
            for insp, action in zip(ch.inspections, actions):
                insp["action"] = action
            for node, _path in scen.walk(ch):
                if node is not ch:
                    node.inspections = []
            scn = scen.build(ch, vroot, rng)
            scn.materialise(vroot)
            json.dump(scn.keys, open(os.path.join(vroot, "keys.json"), "w"))
        st.ARTIFACT_BASE_PATH = os.path.join(vroot, "unused-setting")
        os.chdir(os.path.join(vroot, "product"))
        md = Metadata.load(os.path.join(vroot, "root.layout"))
        keys = json.load(open(os.path.join(vroot, "keys.json")))
        return vl.in_toto_verify(md, keys, link_dir_path=os.path.join(vroot, "links"), persist_inspection_links=False,
                                 inspect_timeout=2 if "sleep" in actions else 30)
    return run


def run_once(name, root, fault_at=None):
    """Fresh scratch state, then the call under the hook. Returns
    (raised class or None, before, after, trace)."""
    import in_toto.settings as st
    logging.getLogger("in_toto").setLevel(logging.CRITICAL)
    for f in os.listdir(os.path.join(root, WORK)):
        os.remove(os.path.join(root, WORK, f))
    for f in os.listdir(os.path.join(root, "tmp")):
        p = os.path.join(root, "tmp", f)
        shutil.rmtree(p, ignore_errors=True) if os.path.isdir(p) else os.remove(p)
    saved = {k: getattr(st, k) for k in dir(st) if k.isupper()}
    SNAP_ROOT[0] = root
    cwd0 = os.getcwd()
    old_tmp = tempfile.tempdir
    tempfile.tempdir = os.path.join(root, "tmp")
    os.chdir(os.path.join(root, WORK))
    call = make_calls(root)[name]
    raised = None
    try:
        # shapes that set a setting do so inside the call wrapper: take the snapshot after a dry assignment
        if name.split("/")[-1].startswith("base_setting"):      # (incl. base_setting_collision, base_setting_no_such_dir)
            st.ARTIFACT_BASE_PATH = os.path.join(root, "base")
        if name.endswith("exclude_setting_special"):
            st.ARTIFACT_EXCLUDE_PATTERNS = ["*.link*", ".git", "*~", "#*#", "!scratch", "\\#keep"]
        if name.endswith("dir_exclude_setting_naming_dir"):
            st.ARTIFACT_EXCLUDE_PATTERNS = dir_naming_patterns(root)
        before = None
        with contextlib.redirect_stdout(io.StringIO()), contextlib.redirect_stderr(io.StringIO()):
            if name.startswith("verify/"):
                # prepare (materialise, chdir, settings) outside the watched region
                pass
            with inject.watching([root], fault_at=fault_at) as stt:
                stt.active = False
                # run the wrapper's preparation, then snapshot, then activate the hook for the library call only
                try:
                    before, after, raised, trace = _guarded(call, stt)
                finally:
                    stt.active = False
        return raised, before, after, trace
    finally:
        for k_, v in saved.items():
            setattr(st, k_, v)
        tempfile.tempdir = old_tmp
        os.chdir(cwd0)


def _guarded(call, stt):
    """Activates the hook around the call; the snapshot 'before' is taken at the
    first audited event or library entry (settings / cwd prepared by the wrapper)."""
    import in_toto.runlib as rl
    import in_toto.verifylib as vl
    marks = {}
    originals = {}

    def wrap(mod, fname):
        orig = getattr(mod, fname)
        originals[(mod, fname)] = orig

        def wrapped(*a, **kw):
            if "before" not in marks:
                marks["before"] = snapshot()
                stt.trace.clear()
                stt.active = True
                try:
                    return orig(*a, **kw)
                finally:
                    stt.active = False
                    marks["after"] = snapshot()
            return orig(*a, **kw)
        setattr(mod, fname, wrapped)
    for mod, fname in ((rl, "record_artifacts_as_dict"), (rl, "in_toto_run"), (rl, "in_toto_record_start"),
                       (rl, "in_toto_record_stop"), (rl, "in_toto_match_products"), (vl, "in_toto_verify")):
        wrap(mod, fname)
    raised = None
    try:
        try:
            call()
        except BaseException as e:  # pylint: disable=broad-except
            if isinstance(e, (KeyboardInterrupt, SystemExit)):
                raise
            raised = type(e).__name__
    finally:
        for (mod, fname), orig in originals.items():
            setattr(mod, fname, orig)
    return marks.get("before"), marks.get("after"), raised, list(stt.trace)


def to_program(trace, inspection=False):
    """Audit trace -> program of the effect language; returns (program JSON,
    kinds per operation index: 'restore' marks restoring operations)."""
    kinds = []
    i = 0

    def block(j, end_pred):
        items = []
        while j < len(trace) and not end_pred(j):
            kind, path = trace[j]
            if kind == "os.chdir":
                # bracket: find the matching chdir back (next chdir at this nesting level)
                kinds.append("chdir")
                body, j2 = block(j + 1, lambda x: trace[x][0] == "os.chdir")
                if j2 < len(trace):
                    kinds.append("restore")
                    j2 += 1
                    items.append({"withCwd": [path, {"seq": body}]})
                elif not body:
                    items.append("io")          # the chdir itself failed (e.g. missing base directory)
                else:
                    items.append({"withCwd": [path, {"seq": body}]})
                j = j2
            elif kind == "tempfile.mkstemp":
                # mkstemp audits itself and then the os.open it performs: the open is modelled as an
                # ordinary operation right after the creation (a fault there is a failed mkstemp)
                pre = []
                for _n in range(2):
                    if j < len(trace) and trace[j][0] == "tempfile.mkstemp":
                        kinds.append("mkstemp")
                        j += 1
                        if j < len(trace) and trace[j][0].startswith("open") and "/tmp/" in trace[j][1]:
                            kinds.append("io")
                            pre.append("io")
                            j += 1
                body, j2 = block(j, lambda x: trace[x][0] == "os.remove" and "/tmp/" in trace[x][1])
                body = pre + body
                while j2 < len(trace) and trace[j2][0] == "os.remove" and "/tmp/" in trace[j2][1]:
                    kinds.append("restore")
                    j2 += 1
                items.append({"withCaptureFiles": {"seq": body}})
                j = j2
            elif inspection and kind.startswith("open") and path.endswith(".link") and "/links/" in path:
                # load_links_for_layout treats a link file that cannot be opened as absent; whether the
                # verification then fails is a matter of thresholds (C01/C05), not of the effect language
                kinds.append("tolerated")
                items.append("ioQuiet")
                j += 1
            else:
                kinds.append("quiet" if kind in ("os.scandir", "os.listdir") else "io")
                items.append("ioQuiet" if kind in ("os.scandir", "os.listdir") else "io")
                j += 1
        return items, j
    items, _ = block(0, lambda x: False)
    prog = {"seq": items}
    if inspection:
        prog = {"withBaseNone": prog}
    return prog, kinds


def leftovers(before, after):
    """Files that exist after the call, did not exist before, and are not one of the call's documented outputs."""
    return [f for f in after.get("files", []) if f not in set(before.get("files", []))
            and not OUTPUT_NAME.match(os.path.basename(f))]


def restored(before, after):
    return {"cwd": before["cwd"] == after["cwd"], "settings": before["settings"] == after["settings"],
            "temp": before["temp"] == after["temp"], "no_leftover_files": not leftovers(before, after)}


def run_shape(name):
    res = core.Result()
    root = tempfile.mkdtemp(prefix="verif-c15-")
    try:
        setup_tree(root)
        raised, before, after, trace = run_once(name, root)
        if before is None:
            raise core.Infra("entry point was not reached for shape %s" % name)
        prog, kinds = to_program(trace, inspection=name.startswith("verify/"))
        n = len(trace)
        m = core.driver().call({"op": "effects", "prog": prog, "faults": list(range(n))})
        base_case = {"shape": name, "ops": n, "trace": [k for k, _p in trace][:40], "raised": raised}
        r = restored(before, after)
        res.case(dict(base_case, fault=None, restored=r), n >= 3, m["ops"] == n)
        res.count("shape_" + name.split("/")[0])
        if m["ops"] != n:
            res.fail("disagree", {"op": "effects", "shape": name, "fault": None},
                     {"op": "effects-trace", "impl_ops": n, "model_ops": m["ops"], "trace": [k for k, _p in trace]})
        if not all(r.values()):
            res.fail("oracle", {"op": "effects", "shape": name, "fault": None},
                     {"why": "process state not restored after the call %s" % ("raised " + raised if raised else "returned"),
                      "restored": r, "before": before, "after": after})
        for k in range(n):
            raised_k, b, a, tr_k = run_once(name, root, fault_at=k)
            if b is None or a is None:
                continue
            rk = restored(b, a)
            mk = m["results"][k] if k < len(m["results"]) else None
            kind = kinds[k] if k < len(kinds) else "io"
            agreed = True
            if kind == "restore":
                res.count("restore_op_fault_not_judged")
            else:
                if mk is not None and kind != "tolerated":
                    # a shape that fails for input reasons raises anyway
                    exp_raised = mk["raised"] or raised is not None
                    agreed = (raised_k is not None) == exp_raised
                if not all(rk.values()):
                    res.fail("oracle", {"op": "effects", "shape": name, "fault": k, "at": trace[k][0]},
                             {"why": "process state not restored after a fault at operation %d (%s): the call %s" % (
                                 k, trace[k][0], "raised " + raised_k if raised_k else "returned"),
                              "restored": rk, "cwd_after": a["cwd"], "temp_after": a["temp"], "leftover_files": leftovers(b, a),
                              "settings_changed": {x: (b["settings"][x], a["settings"][x]) for x in b["settings"]
                                                   if b["settings"][x] != a["settings"][x]}})
                if not agreed:
                    res.fail("disagree", {"op": "effects", "shape": name, "fault": k, "at": trace[k][0]},
                             {"op": "effects", "impl_raised": raised_k, "model": mk, "kind": kind})
            res.case({"shape": name, "fault": k, "at": trace[k][0], "raised": raised_k, "restored": rk}, True, agreed, sample_cap=1)
            res.count("fault_at_" + trace[k][0].split(":")[0])
    finally:
        shutil.rmtree(root, ignore_errors=True)
    return res


SHAPES_QUICK = ["record/base_arg", "record/base_arg_two_paths", "record/no_base", "record/collision", "record/missing_base",
                "record/ostree_missing_ref", "record/dir", "record/base_setting", "run/streams", "run/no_streams",
                "run/failing_command", "run/no_such_command", "run/unwritable_metadata_dir", "record_start",
                "record_start_stop", "record_stop/no_preliminary", "match_products", "record/exclude_setting_special",
                "run/exclude_setting_special", "match_products/base_setting_collision", "match_products/base_setting",
                "match_products/base_setting_no_such_dir", "record/dir_exclude_setting_naming_dir",
                "run/dir_exclude_setting_naming_dir", "run/timeout"] + list(VERIFY_SHAPES)


SHAPES_THOROUGH = SHAPES_QUICK + ["record/ostree_ok",
                                  "record_start/collision", "run/collision_products", "run/base_setting"]


def sequence_cases():
    """The same library call made twice in one process from two DIFFERENT working directories (same base path, same
    options): after each call the process is where it was before THAT call - not where an earlier call was made from."""
    import in_toto.runlib as rl
    import in_toto.settings as st
    from in_toto.models.link import Link
    logging.getLogger("in_toto").setLevel(logging.CRITICAL)
    res = core.Result()
    root = tempfile.mkdtemp(prefix="verif-c15q-")
    cwd0 = os.getcwd()
    saved = {k: getattr(st, k) for k in dir(st) if k.isupper()}
    k = W.pool()[0]
    try:
        setup_tree(root)
        base = os.path.join(root, "base")
        dirs = [os.path.join(root, "from-a"), os.path.join(root, "from-b")]
        for d_ in dirs:
            os.makedirs(d_)
        calls = {
            "record/base_arg": lambda: rl.record_artifacts_as_dict(["."], base_path=base),
            "record/collision": lambda: rl.record_artifacts_as_dict(["x", "sub/y"], base_path=base, lstrip_paths=["x", "sub/y"]),
            "record/ostree_missing_ref": lambda: rl.record_artifacts_as_dict(["ostree:main"], base_path=base),
            "run": lambda: rl.in_toto_run("sq", ["."], ["."], [sys.executable, "-c", "pass"], base_path=base, signer=k.signer),
            "record_start": lambda: rl.in_toto_record_start("sq2", ["."], base_path=base, signer=k.signer),
            "match_products": lambda: rl.in_toto_match_products(Link(name="l", products={}), paths=["."]),
        }
        for name, call in sorted(calls.items()):
            for rnd, d_ in enumerate(dirs + dirs[:1]):
                os.chdir(d_)
                if name == "match_products":
                    st.ARTIFACT_BASE_PATH = base
                raised = None
                try:
                    with contextlib.redirect_stdout(io.StringIO()), contextlib.redirect_stderr(io.StringIO()):
                        call()
                except Exception as e:  # pylint: disable=broad-except
                    raised = type(e).__name__
                here = os.getcwd()
                st.ARTIFACT_BASE_PATH = saved.get("ARTIFACT_BASE_PATH")
                ok = os.path.realpath(here) == os.path.realpath(d_)
                case = {"op": "call_sequence", "call": name, "round": rnd, "called_from": os.path.basename(d_), "raised": raised}
                res.case(dict(case, cwd_after=os.path.basename(here)), True, ok, sample_cap=1)
                res.count("sequence_" + name.split("/")[0])
                if not ok:
                    res.fail("oracle", case, {"why": "after the call the working directory is %s, the call was made from %s" % (here, d_)})
                for f_ in os.listdir(d_):
                    if f_.endswith(".link") or f_.endswith("-unfinished"):
                        os.remove(os.path.join(d_, f_))
    finally:
        for k_, v in saved.items():
            setattr(st, k_, v)
        os.chdir(cwd0)
        shutil.rmtree(root, ignore_errors=True)
    return res


def cli_state_cases():
    """Every command-line front end, called in-process through its main() with ordinary and with slightly unusual
    arguments (a link file whose name the default exclude patterns do not cover, no --exclude, a failing command, a
    missing file): afterwards the working directory, the settings - compared by value, not by identity - and the temp
    space are what they were."""
    import copy
    import in_toto.settings as st
    from in_toto.models.link import Link
    from in_toto.models.layout import Layout
    from in_toto.models.metadata import Metablock, Envelope
    from harness import cli, cliequiv, world as W
    res = core.Result()
    k = W.pool()[0]
    key = cliequiv.priv_path(k)
    root = tempfile.mkdtemp(prefix="verif-c15c-")
    cwd0 = os.getcwd()
    old_tmp = tempfile.tempdir
    try:
        os.makedirs(os.path.join(root, "tmp")); os.makedirs(os.path.join(root, "w", "src"))
        tempfile.tempdir = os.path.join(root, "tmp")
        os.chdir(os.path.join(root, "w"))
        open("src/a.c", "w").write("int a;\n"); open("b.txt", "w").write("b\n")
        import hashlib
        prods = {"b.txt": {"sha256": hashlib.sha256(b"b\n").hexdigest()}, "src/a.c": {"sha256": hashlib.sha256(b"int a;\n").hexdigest()}}
        for name, env in (("build.json", False), ("attestation.dsse", True), ("s.ab12cd34.link", False)):
            lk = Link(name="s", products=prods)
            (Envelope.from_signable(lk) if env else Metablock(signed=lk)).dump(os.path.join(root, name))
        Metablock(signed=Layout(expires="2031-01-01T00:00:00Z")).dump(os.path.join(root, "root.layout"))
        calls = [("in_toto_match_products", ["--link", os.path.join(root, "build.json")]),
                 ("in_toto_match_products", ["--link", os.path.join(root, "attestation.dsse"), "--paths", "."]),
                 ("in_toto_match_products", ["--link", os.path.join(root, "s.ab12cd34.link"), "--exclude", "*.o"]),
                 ("in_toto_match_products", ["--link", os.path.join(root, "nope.link")]),
                 ("in_toto_run", ["-n", "st", "--signing-key", key, "-m", ".", "-p", ".", "-d", root, "--", sys.executable, "-c", "print(1)"]),
                 ("in_toto_run", ["-n", "st", "--signing-key", key, "-m", "src", "--base-path", ".", "-s", "-d", root, "--", sys.executable, "-c", "raise SystemExit(3)"]),
                 ("in_toto_run", ["-n", "st", "--signing-key", key, "-d", root, "--", "/no/such/command"]),
                 ("in_toto_record", ["start", "-n", "rec", "--signing-key", key, "-m", "src", "--exclude", "*.txt"]),
                 ("in_toto_record", ["stop", "-n", "rec", "--signing-key", key, "-p", ".", "-d", root]),
                 ("in_toto_record", ["stop", "-n", "never-started", "--signing-key", key, "-p", "."]),
                 ("in_toto_mock", ["-n", "mock", "--", sys.executable, "-c", "print(2)"]),
                 ("in_toto_sign", ["-f", os.path.join(root, "root.layout"), "-k", key, "-o", os.path.join(root, "signed.layout")]),
                 ("in_toto_sign", ["-f", os.path.join(root, "signed.layout"), "-k", c18_pub(k, root), "--verify"]),
                 ("in_toto_verify", ["-l", os.path.join(root, "signed.layout"), "--verification-keys", c18_pub(k, root), "--link-dir", root])]
        for tool, argv in calls:
            before = {"cwd": os.getcwd(), "settings": copy.deepcopy({a: getattr(st, a) for a in dir(st) if a.isupper()}),
                      "temp": sorted(os.listdir(tempfile.gettempdir()))}
            status = cli.run_main(tool, argv)[0]
            after = {"cwd": os.getcwd(), "settings": {a: getattr(st, a) for a in dir(st) if a.isupper()},
                     "temp": sorted(os.listdir(tempfile.gettempdir()))}
            changed = {a: [before[a], after[a]] for a in ("cwd", "temp") if before[a] != after[a]}
            changed.update({"settings." + a: [before["settings"][a], after["settings"].get(a)] for a in before["settings"]
                            if before["settings"][a] != after["settings"].get(a)})
            case = {"op": "cli_state", "tool": tool, "argv": [x.replace(root, "<root>") for x in argv], "status": status}
            res.case(case, True, not changed, sample_cap=2)
            res.count("cli_state_" + tool)
            if changed:
                res.fail("oracle", case, {"why": "process state not restored after %s returned" % tool.replace("_", "-"),
                                          "changed": json.loads(json.dumps(changed, default=repr))})
                for a, v in before["settings"].items():      # (do not let one finding cascade into the next call)
                    setattr(st, a, v)
                os.chdir(before["cwd"])
            for f in os.listdir("."):
                if f.endswith((".link", ".link-unfinished")):
                    os.remove(f)
    finally:
        os.chdir(cwd0)
        tempfile.tempdir = old_tmp
        shutil.rmtree(root, ignore_errors=True)
    return res


def c18_pub(k, d):
    from harness.props import c18
    return c18.write_pub_pem(k, d)


def run(tier, seed):
    shards = [(run_shape, (s,)) for s in (SHAPES_QUICK if tier == "quick" else SHAPES_THOROUGH)]
    shards.append((cli_state_cases, ()))
    shards.append((sequence_cases, ()))
    return core.parallel(core.call, shards)


def replay(case):
    res = run_shape(case["shape"])
    return {"shape": case["shape"], "failures": [f for f in res.failures if f["case"].get("fault") == case.get("fault")][:3]}


def search(failure, tier, seed):
    res = run(tier, seed)
    for f in res.failures:
        if f["kind"] == "oracle":
            return f
    return None
