"""C02 — each step needs a threshold of distinct, authorised, validly signed links.

A focus step of an otherwise honest chain gets an explicit link directory:
files described by (key id in the file name, key that actually signed, tamper
kind, format), for authorised and unauthorised keys, masters and subkeys.
Oracle: number of distinct functionaries with a genuinely good link, computed
from generator ground truth; bad files must neither count nor break."""
import copy

from harness import core, scen, vcommon, world as W

RULE = ("focus step with authorised ids drawn from plain keys / gpg masters with 0-2 signing subkeys / subkeys on "
        "their own (present or absent in the key store), threshold 1-3, and 1-6 link files each described by "
        "(file-name key id, actual signer, tamper in {none, content edit, signature edit, unsigned, other key "
        "family, float}, format); bad files carry different artifacts than good ones. Non-trivial: at least one "
        "good and one bad or unauthorised file, or a subkey relation is exercised; distinct by description.")
ASSUMPTIONS = [
    "signatures present are non-malleable (ground-truth table)",
    "gpg cases are bounded by the key bundles of the repository's test keyring; OpenPGP parsing is trusted",
    "files that are not loadable metadata abort verification (DESIGN 4.3) and are not generated here",
]
TAMPERS = [None] * 9 + ["content", "sig", "unsigned", "other_family", "float", "illformed_signed", "unloadable_text"]


def authorised_main(step_pubkeys, keystore, kid_name, signer, link_fmt):
    """Ground truth (independent re-statement of the property): the main key id
    this file counts for, or None. `signer` is a K or None."""
    if signer is None:
        return None
    sub_to_main = {}
    for mid, mk in keystore.items():
        for sid in (mk.get("subkeys") or {}):
            sub_to_main[sid] = mid
    for a in step_pubkeys:
        ak = keystore.get(a)
        if ak is not None:
            bundle = {a} | set(ak.get("subkeys") or {})
            if kid_name in bundle and signer.keyid in bundle:
                return ak["keyid"]
        elif a in sub_to_main:
            if kid_name == a and signer.keyid == a:
                return keystore[sub_to_main[a]]["keyid"]
    return None


def loaded_names(step_pubkeys, keystore):
    out = []
    for a in step_pubkeys:
        out.append(a)
        out += list((keystore.get(a) or {}).get("subkeys") or {})
    return out


def gen_case(rng, root, gpg, case_no=None):
    ch = scen.gen_chain(rng, root, n_steps=rng.choice([1, 2]), n_insp=rng.choice([0, 1]),
                        thresholds=(1,), max_funcs=1, fmt_mode="mixed")
    fi = rng.randrange(len(ch.steps))
    step = ch.steps[fi]
    others_used = {k.keyid for j, st in enumerate(ch.steps) if j != fi for k in st["keys"]}
    pool = [k for k in W.pool() if k not in ch.owners and k.keyid not in others_used]
    for k in step["keys"]:
        if k.keyid not in others_used:
            ch.layout_keys.pop(k.keyid, None)
    cand = []     # (K functionary, how it is authorised)
    desc = {"gpg": gpg, "files": []}
    keystore = {}
    pubkeys = []
    plain = rng.sample(pool, rng.randrange(1, 4))
    for k in plain:
        pubkeys.append(k.keyid)
        if rng.random() < 0.9:
            keystore[k.keyid] = k.pub
    signers = list(plain)
    # an authorised id WITHOUT a key in the layout's key store, and (below) a file under that id signed by another
    # authorised functionary whose key is there: nobody's signature can be checked for that id - the file cannot count
    orphan = None
    if case_no is not None and case_no % 5 == 3 and len(plain) >= 2:
        orphan, _b = plain[-1], plain[0]
        keystore.pop(orphan.keyid, None)
        keystore[_b.keyid] = _b.pub
    if gpg:
        modes = ["master2", "master1", "master0", "subonly", "subonly_plus_master_elsewhere", "expired"]
        mode = rng.choice(modes)
        if case_no is not None:
            mode = modes[(case_no * 7 + case_no // 16) % len(modes)]       # (every way of authorising a gpg functionary, every run)
        desc["gpg_mode"] = mode
        if mode in ("master2", "subonly", "subonly_plus_master_elsewhere"):
            mname = "two_subs"
        elif mode == "master1":
            mname = "one_sub"
        elif mode == "expired":
            mname = "expired"
        else:
            mname = "no_sub"
        m = W.gpg_key(mname)
        subs = [s for s in (m.pub.get("subkeys") or {}) if s in W.SIGNING_SUBKEYS]
        keystore[m.keyid] = m.pub
        gk = [m] + [W.gpg_key(mname, s) for s in subs]
        if mode.startswith("subonly"):
            pubkeys.append(rng.choice(subs))
            if mode == "subonly_plus_master_elsewhere":
                pass
        else:
            pubkeys.append(m.keyid)
        signers += gk
    rng.shuffle(pubkeys)
    stranger = rng.choice([k for k in pool if k not in plain])
    signers_all = signers + [stranger]
    thr = rng.choice([1, 1, 1, 2, 2, 3])
    good_arts = (step["materials"], step["products"])
    bad_products = dict(step["products"]); bad_products["evil"] = {"sha256": "ee" * 32}
    links = []
    names = loaded_names(pubkeys, keystore) + [stranger.keyid]
    nfiles = rng.randrange(1, 7)
    expired_master_signs = bool(gpg and case_no is not None and desc.get("gpg_mode") == "expired")
    if expired_master_signs:
        nfiles = max(nfiles, 2)      # (an untouched link signed by the key that is past its validity period itself: it is stepped over)
    used_names = set()
    for fno in range(nfiles):
        signer = rng.choice(signers_all if rng.random() < 0.25 else signers)
        if gpg and case_no is not None and fno == 0:
            signer = gk[case_no % len(gk)]        # (every run has gpg-signed links that were altered after signing)
        r = rng.random()
        if r < 0.8:
            kid = signer.keyid
        else:
            kid = rng.choice(names)
        if expired_master_signs and fno == 1:
            signer, kid = m, m.keyid
        if kid[:8] in used_names:
            continue
        used_names.add(kid[:8])
        tamper = rng.choice(TAMPERS)
        if gpg and case_no is not None and fno == 0:
            tamper = ["content", "sig", "unsigned"][(case_no // len(gk)) % 3]
        if expired_master_signs and fno == 1 and signer is m and kid == m.keyid:
            tamper = None
        fmt = "metablock" if signer.kind == "gpg" else rng.choice(["metablock", "dsse"])
        if tamper == "other_family" and fmt == "dsse":
            tamper = "sig"
        if tamper == "float" and fmt == "metablock":
            tamper = "content"   # a float makes a Metablock unloadable (DESIGN 4.3), not generated here
        wrong_name = rng.random() < 0.08
        main = authorised_main(pubkeys, keystore, kid, signer, fmt)
        # expired = the signing key's own validity period has passed (a subkey of an expired
        # master carries no period of its own in the exported bundle: DESIGN 4.3)
        expired = bool(signer.kind == "gpg" and signer.pub.get("validity_period"))
        good = tamper is None and main is not None and not expired and not wrong_name
        if good and fmt == "dsse" and keystore.get(main, {}).get("type") is not None:
            good = False   # gpg key with an envelope: unsupported
        # good files carry the honest artifacts, all others a distinguishable product set
        mats, prods = good_arts if good else (step["materials"], bad_products)
        links.append(scen.link_spec(signer, fmt, "other" if wrong_name else step["name"], mats, prods,
                                    signer=signer, kid=kid, tamper=tamper))
        desc["files"].append({"name_kid": kid[:8], "signer": signer.keyid[:8], "signer_kind": signer.kind,
                              "tamper": tamper, "fmt": fmt, "wrong_name": wrong_name, "counts_for": main if good else None})
    if orphan is not None and orphan.keyid[:8] not in used_names:
        used_names.add(orphan.keyid[:8])
        fmt = rng.choice(["metablock", "dsse"])
        links.append(scen.link_spec(plain[0], fmt, step["name"], step["materials"], bad_products, signer=plain[0], kid=orphan.keyid, tamper=None))
        desc["files"].append({"name_kid": orphan.keyid[:8], "signer": plain[0].keyid[:8], "signer_kind": plain[0].kind, "tamper": None,
                              "fmt": fmt, "wrong_name": False, "counts_for": None, "authorised_id_without_key": True})
    if gpg and rng.random() < 0.6:
        # an ENVELOPE lying under the id of an authorised gpg key (or of one of its subkeys): gpg keys cannot check
        # envelopes, the file cannot count - and, like any file that does not count, it decides nothing
        gids = [a for a in loaded_names(pubkeys, keystore) if a == m.keyid or a in (m.pub.get("subkeys") or {})]
        gids = [a for a in gids if a[:8] not in used_names]
        if gids:
            kid = rng.choice(gids)
            used_names.add(kid[:8])
            sg = rng.choice(plain + [stranger])
            links.append(scen.link_spec(sg, "dsse", step["name"], step["materials"], bad_products, signer=sg, kid=kid))
            desc["files"].append({"name_kid": kid[:8], "signer": sg.keyid[:8], "signer_kind": sg.kind, "tamper": None, "fmt": "dsse",
                                  "wrong_name": False, "counts_for": None, "envelope_under_gpg_id": True})
    step["links"] = links
    step["pubkeys"] = pubkeys
    step["threshold"] = thr
    for k, v in keystore.items():
        ch.layout_keys[k] = v
    for k in plain:
        if k.keyid not in keystore:
            ch.layout_keys.pop(k.keyid, None)
    good_mains = {f["counts_for"] for f in desc["files"] if f["counts_for"]}
    desc["threshold"] = thr
    desc["good_functionaries"] = len(good_mains)
    desc["expected_accept"] = len(good_mains) >= thr
    desc["focus"] = step["name"]
    return ch, desc


def gpg_grid():
    """Every (authorised id, file-name id, signer) over a master and its signing subkeys."""
    out = []
    for mname in ("two_subs", "one_sub"):
        m = W.gpg_key(mname)
        ids = [m.keyid] + [s for s in (m.pub.get("subkeys") or {}) if s in W.SIGNING_SUBKEYS]
        for a in ids:
            for kid in ids:
                for signer in ids:
                    out.append((mname, a, kid, signer))
    return out


def gpg_pair_grid():
    """Threshold 2 over two authorised ids of ONE master (master / subkeys in any combination), with a link
    by each signing subkey (and the master): one functionary, must be rejected; with an extra plain
    functionary: accepted."""
    out = []
    m = W.gpg_key("two_subs")
    ids = [m.keyid] + [s for s in (m.pub.get("subkeys") or {}) if s in W.SIGNING_SUBKEYS]
    for a1 in ids:
        for a2 in ids:
            if a1 != a2:
                for extra in (False, True):
                    for alias in (False, True):
                        out.append(("pair", a1, a2, extra, alias))
    return out


def gen_pair_case(rng, root, combo):
    _tag, a1, a2, extra = combo[:4]
    alias_flag = combo[4] if len(combo) > 4 else None
    # the focus step is the last of 1-3 steps: the earlier ones are carried out by other functionaries, who must
    # not count towards the focus step's threshold
    ch = scen.gen_chain(rng, root, n_steps=rng.choice([1, 2, 3]), n_insp=0, thresholds=(1,), max_funcs=2, fmt_mode="mixed")
    step = ch.steps[-1]
    others_used = {k.keyid for st in ch.steps[:-1] for k in st["keys"]}
    for k in step["keys"]:
        if k.keyid not in others_used:
            ch.layout_keys.pop(k.keyid, None)
    m = W.gpg_key("two_subs")
    ch.layout_keys[m.keyid] = m.pub
    keystore = {m.keyid: m.pub}
    subs = [s for s in (m.pub.get("subkeys") or {}) if s in W.SIGNING_SUBKEYS]
    signers = [m] + [W.gpg_key("two_subs", s) for s in subs]
    pubkeys = [a1, a2]
    links, files, mains = [], [], set()
    for sg in signers:
        main = authorised_main(pubkeys, keystore, sg.keyid, sg, "metablock")
        links.append(scen.link_spec(sg, "metablock", step["name"], step["materials"], step["products"], signer=sg, kid=sg.keyid))
        files.append({"name_kid": sg.keyid[:8], "signer": sg.keyid[:8], "signer_kind": "gpg", "tamper": None, "fmt": "metablock",
                      "wrong_name": False, "counts_for": main})
        if main:
            mains.add(main)
    if extra:
        pk = [k for k in W.pool() if k not in ch.owners and k.keyid not in others_used][0]
        ch.layout_keys[pk.keyid] = pk.pub
        pubkeys = pubkeys + [pk.keyid]
        links.append(scen.link_spec(pk, "metablock", step["name"], step["materials"], step["products"]))
        files.append({"name_kid": pk.keyid[:8], "signer": pk.keyid[:8], "signer_kind": pk.kind, "tamper": None, "fmt": "metablock",
                      "wrong_name": False, "counts_for": pk.keyid})
        mains.add(pk.keyid)
    alias_store = alias_flag if alias_flag is not None else rng.random() < 0.35
    if alias_store:
        # the key store lists the master under another spelling of its id (upper case, as gpg prints fingerprints); the
        # step authorises it in that spelling and its link lies under that spelling: still ONE functionary
        up = m.keyid.upper()
        ch.layout_keys = {(up if kk == m.keyid else kk): vv for kk, vv in ch.layout_keys.items()}
        pubkeys = [up if a_ == m.keyid else a_ for a_ in pubkeys]
        for ls in links:
            if ls["kid"] == m.keyid:
                ls["kid"] = up
    step["pubkeys"], step["threshold"], step["links"] = pubkeys, 2, links
    desc = {"gpg": True, "gpg_mode": "pair_grid", "master_listed_in_upper_case": alias_store, "grid": {"authorised": [a1[:8], a2[:8]], "extra_plain_functionary": extra},
            "files": files, "threshold": 2, "good_functionaries": len(mains), "expected_accept": len(mains) >= 2,
            "focus": step["name"], "steps_before_focus": len(ch.steps) - 1}
    return ch, desc


def gen_grid_case(rng, root, combo):
    if combo[0] == "pair":
        return gen_pair_case(rng, root, combo)
    mname, a, kid, sid = combo
    ch = scen.gen_chain(rng, root, n_steps=1, n_insp=0, thresholds=(1,), max_funcs=1, fmt_mode="mixed")
    step = ch.steps[0]
    for k in step["keys"]:
        ch.layout_keys.pop(k.keyid, None)
    m = W.gpg_key(mname)
    signer = m if sid == m.keyid else W.gpg_key(mname, sid)
    keystore = {m.keyid: m.pub}
    ch.layout_keys[m.keyid] = m.pub
    step["pubkeys"] = [a]
    step["threshold"] = 1
    main = authorised_main([a], keystore, kid, signer, "metablock")
    step["links"] = [scen.link_spec(signer, "metablock", step["name"], step["materials"], step["products"],
                                    signer=signer, kid=kid)]
    desc = {"gpg": True, "gpg_mode": "grid", "grid": {"master": mname, "authorised": a[:8], "file": kid[:8], "signer": sid[:8]},
            "files": [{"name_kid": kid[:8], "signer": sid[:8], "signer_kind": "gpg", "tamper": None, "fmt": "metablock",
                       "wrong_name": False, "counts_for": main}],
            "threshold": 1, "good_functionaries": 1 if main else 0, "expected_accept": main is not None,
            "focus": step["name"]}
    return ch, desc


def strip_bad(ch, desc):
    """The same world without its bad files."""
    ch2 = copy.copy(ch)
    ch2.steps = [dict(s) for s in ch.steps]
    for s in ch2.steps:
        if s["name"] == desc["focus"]:
            keep = []
            for ls, f in zip(s["links"], desc["files"]):
                if f["counts_for"]:
                    keep.append(ls)
            s["links"] = keep
    return ch2


def one_case(rng, res, gpg, combo=None, case_no=None):
    root = scen.new_root()
    try:
        ch, desc = gen_grid_case(rng, root, combo) if combo else gen_case(rng, root, gpg, case_no)
        scn = scen.build(ch, root, rng)
        scn.params = vcommon.pick_params(rng, desc)
        nbad = sum(1 for f in desc["files"] if not f["counts_for"])
        nontrivial = (desc["good_functionaries"] >= 1 and nbad >= 1) or gpg
        i, m, _ = vcommon.run_case(scn, desc, res, nontrivial)
        res.count("gpg" if gpg else "plain")
        res.count("expected_" + ("accept" if desc["expected_accept"] else "reject"))
        for f in desc["files"]:
            res.count("tamper_%s" % f["tamper"])
        acc = vcommon.accepted(i)
        if acc and not desc["expected_accept"]:
            vcommon.oracle_fail(res, scn, desc, "accepted although fewer than threshold distinct functionaries have an "
                                "authorised, untampered, validly signed link for the focus step", i)
        if acc and "evil" in i["result"]["ok"]:
            vcommon.oracle_fail(res, scn, desc, "artifacts of a link that must not count reached the summary link", i)
        unloadable = any(f["tamper"] in ("illformed_signed", "unloadable_text") for f in desc["files"])      # (validly signed but not link metadata; text that does not load)
        for path, content in scn.files.items():
            if isinstance(content, dict) and "signed" in content:
                _c, err = scen.payload_canon_by_model(content)
                if err:
                    unloadable = True
        if unloadable:
            res.count("unloadable_file_not_judged")
        if not acc and desc["expected_accept"] and not unloadable:
            # being ignored, bad metadata must not turn acceptance into rejection
            root2 = scen.new_root()
            try:
                scn2 = scen.build(strip_bad(ch, desc), root2, rng)
                # same layout bytes are not needed; the cleaned world is verified on its own
                i2 = scn2.run_impl(root=root2)
            finally:
                scen.drop_root(root2)
            if vcommon.accepted(i2):
                vcommon.oracle_fail(res, scn, desc, "rejected, but the same world without its bad link files is accepted: "
                                    "ignored metadata turned an acceptable supply chain into a rejected one", i)
            else:
                res.fail("disagree", vcommon.replayable(scn, desc),
                         {"op": "verify", "why": "threshold met by good links but rejected, also without the bad files",
                          "impl": vcommon.short(i), "impl_clean": vcommon.short(i2)})
    finally:
        scen.drop_root(root)


def shard(seed, idx, n, tier):
    res = core.Result()
    rng = core.rng_for(seed, "c02", idx)
    ngpg = (n // 8) if W.gpg_available() else 0
    for j in range(n):
        one_case(rng, res, gpg=j < ngpg, case_no=idx * n + j)
    if W.gpg_available():
        grid = gpg_grid() + gpg_pair_grid()
        for g in range(idx, len(grid), 16):
            one_case(rng, res, True, combo=grid[g])
            res.count("gpg_grid")
    if idx < 6 and W.gpg_available():
        # a step that asks for two functionaries and gets: two agreeing links of ONE gpg functionary (two of its subkeys)
        # and a link another functionary recorded for another step (family shared with C08) - one functionary, not two
        from harness.props import c08
        c08.one_case(core.rng_for(seed, "c08-shared", idx), res, force=["replay_plus_two_subkey_links", "double_replay", "failing_sublayout_plus_two_subkey_links"][idx % 3])
        res.count("family_replay_and_subkeys")
    if not W.gpg_available():
        res.notes.append("gpg not available: gpg families skipped")
    return res


def run(tier, seed):
    per = 20 if tier == "quick" else 320
    return core.parallel(core.call, [(shard, (seed, i, per, tier)) for i in range(16)])


replay = vcommon.replay
search = vcommon.generic_search(shard)
