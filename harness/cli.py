"""Run an in-toto command line front end in-process: sys.argv patched,
SystemExit caught, output swallowed. Returns the exit status (None = returned
without exiting, which the console-script wrapper turns into status 0)."""
import contextlib
import importlib
import io
import logging
import sys


def run_main(tool, argv):
    mod = importlib.import_module("in_toto." + tool)
    old = sys.argv
    sys.argv = [tool.replace("_", "-")] + list(argv)
    out, err = io.StringIO(), io.StringIO()
    level = logging.getLogger("in_toto").level
    logging.disable(logging.CRITICAL)
    try:
        with contextlib.redirect_stdout(out), contextlib.redirect_stderr(err):
            try:
                mod.main()
                status = None
            except SystemExit as e:
                status = e.code
            except BaseException as e:  # pylint: disable=broad-except
                if isinstance(e, KeyboardInterrupt):
                    raise
                status = "uncaught " + type(e).__name__
    finally:
        logging.disable(logging.NOTSET)
        sys.argv = old
        logging.getLogger("in_toto").setLevel(level)
    if status is None:
        status = 0
    return status, out.getvalue(), err.getvalue()
