"""Run an in-toto command line front end in-process: sys.argv patched,
SystemExit caught, output swallowed. Returns the exit status (None = returned
without exiting, which the console-script wrapper turns into status 0)."""
import contextlib
import importlib
import io
import logging
import os
import re
import subprocess
import sys

# How run_main runs a front end: "inproc" (main() in this process), "script" (a child process running the console-script
# wrapper pip generates from [project.scripts] of the current pyproject.toml: `sys.exit(main())`), or "module" (a child
# process running `python -m in_toto.<tool>`, i.e. the `if __name__ == "__main__": main()` at the end of each front end).
MODE = "inproc"


@contextlib.contextmanager
def mode(m):
    global MODE  # pylint: disable=global-statement
    old, MODE = MODE, m
    try:
        yield
    finally:
        MODE = old


_SCRIPTS = None


def console_scripts():
    """{module name: (script name, 'pkg.mod', 'func')} from [project.scripts] of the tree under test."""
    global _SCRIPTS  # pylint: disable=global-statement
    if _SCRIPTS is None:
        from harness import core
        _SCRIPTS = {}
        try:
            text = open(os.path.join(core.REPO, "pyproject.toml"), encoding="utf8").read()
            m = re.search(r"^\[project\.scripts\]\s*$(.*?)(?=^\[|\Z)", text, re.S | re.M)
            for name, target in re.findall(r'^\s*([\w-]+)\s*=\s*"([\w.]+:[\w.]+)"', m.group(1) if m else "", re.M):
                mod, func = target.split(":")
                _SCRIPTS[mod.rsplit(".", 1)[-1]] = (name, mod, func)
        except OSError:
            pass
    return _SCRIPTS


def run_process(tool, argv, spelling, timeout=120):
    """The front end as a child process; returns (exit status, stdout, stderr). Negative status = killed by a signal."""
    if spelling == "script":
        name, mod, func = console_scripts().get(tool, (tool.replace("_", "-"), "in_toto." + tool, "main"))
        code = "import sys\nfrom %s import %s\nsys.argv[0] = %r\nsys.exit(%s())\n" % (mod, func, name, func)
        cmd = [sys.executable, "-c", code] + [str(a) for a in argv]
    else:
        cmd = [sys.executable, "-m", "in_toto." + tool] + [str(a) for a in argv]
    p = subprocess.run(cmd, stdin=subprocess.DEVNULL, stdout=subprocess.PIPE, stderr=subprocess.PIPE, text=True,
                       errors="replace", timeout=timeout, check=False)
    return p.returncode, p.stdout, p.stderr


def run_main(tool, argv):
    if MODE != "inproc":
        return run_process(tool, argv, MODE)
    mod = importlib.import_module("in_toto." + tool)
    old = sys.argv
    sys.argv = [tool.replace("_", "-")] + list(argv)
    out, err = io.StringIO(), io.StringIO()
    level = logging.getLogger("in_toto").level
    logging.disable(logging.CRITICAL)
    try:
        with contextlib.redirect_stdout(out), contextlib.redirect_stderr(err):
            try:
                # a value main() returns is ignored by `python -m in_toto.<tool>` (status 0) and handed to sys.exit by the
                # console script; the two spellings are compared in child processes (MODE), here the first one is taken
                mod.main()
                status = None
            except SystemExit as e:
                status = e.code
            except BaseException as e:  # pylint: disable=broad-except
                if isinstance(e, KeyboardInterrupt):
                    raise
                status = "uncaught " + type(e).__name__
    finally:
        logging.disable(logging.NOTSET)
        sys.argv = old
        logging.getLogger("in_toto").setLevel(level)
    if status is None:
        status = 0
    return status, out.getvalue(), err.getvalue()
