"""The command line is the library with another way of passing arguments.

`in-toto-run`, `in-toto-record start / stop` and `in-toto-mock` are called through their `main()` with a random set of
options, and the library entry point they stand for is called with the corresponding arguments, on two copies of the
same tree. What is written must be the same: the same files under the same names, the same format, the same payload
(materials, products, command, by-products, environment apart from the directory name), validly signed by the key.

A front end that translates an option into the wrong library argument (dropped for one sub-command, applied to the
materials but not the products, another default, a list that keeps its last value only, ...) shows here."""
import contextlib
import io
import json
import logging
import os
import shutil
import sys
import tempfile

from harness import cli, core, world as W

TREE = {"src/a.c": "int a;\n", "src/sub/b.c": "int b;\n", "src/sub/skip.o": "o\n", "docs/r e.md": "# r\n", "docs/guide.md": "g\n",
        "build/x.o": "x\n", "we ird/ü.txt": "u\n", "junk.pyc": "j\n", "README": "hi\n", "src2/c.c": "int c;\n",
        "tools/build": "#!/bin/sh\n", "src/keep.o": "k\n", "backup~": "b\n"}
SCRIPT = "import sys; open('build/out.bin','w').write('out'); open('src/a.c','a').write('//edit\\n'); print('line 1'); sys.stderr.write('warn\\n')"


def priv_path(k):
    return os.path.join(W.HERE, "keydata", sorted(os.listdir(os.path.join(W.HERE, "keydata")))[W.pool().index(k)])


def lay_out(root, base):
    top = os.path.join(root, base) if base else root
    for p, c in TREE.items():
        path = os.path.join(top, p)
        os.makedirs(os.path.dirname(path), exist_ok=True)
        with open(path, "w", encoding="utf8") as f:
            f.write(c)
    return top


def gen_options(rng):
    o = {"materials": rng.choice([["."], ["src"], ["src", "docs"], ["src", "src2", "README"], None, ["dir:src", "README"]]),
         "products": rng.choice([["."], ["build"], ["src", "build"], ["build", "src"], None, ["dir:src", "dir:build"]]),
         # (patterns are gitignore-style: order matters - the last matching one decides, "!" re-includes -, a trailing slash
         #  means directories only, given patterns replace the default ones)
         "exclude": rng.choice([None, None, ["*.o"], ["docs", "*.pyc"], ["src/sub", "*.md"], ["/build", "we ird"], ["*.o", "!keep.o"],
                                ["build/", "*.link*"], ["*.link*"], ["./docs", "src//sub"], ["zz*", "*.o", "!keep.o", "aa*"]]),
         "exclude_repeated": rng.random() < 0.15,
         "verbosity": rng.choice([None, None, "-v", "-q", "-q"]),
         "base": rng.choice([None, None, "proj"]),
         "lstrip": rng.choice([None, None, ["src/"], ["src/", "build/"], ["docs/", "src/sub/"]]),
         "metadata_directory": rng.choice([None, None, "meta"]),
         "dsse": rng.random() < 0.5,
         "streams": rng.random() < 0.5,
         "timeout": rng.choice([None, None, 30, 0, 0])}        # (0: a limit like any other, shorter than every run)
    return o


def common_argv(o, which):
    """Options shared by the front ends; `which`: materials / products / both."""
    av = []
    if which in ("materials", "both") and o["materials"] is not None:
        av += ["-m"] + o["materials"]
    if which in ("products", "both") and o["products"] is not None:
        av += ["-p"] + o["products"]
    if o["exclude"]:
        if o.get("exclude_repeated"):
            av += ["--exclude", "never-matches-anything"]          # an option given twice: the last occurrence counts
        av += ["--exclude"] + o["exclude"]
    if o.get("verbosity"):
        av += [o["verbosity"]]
    if o["base"]:
        av += ["--base-path", o["base"]]
    if o["lstrip"]:
        av += ["--lstrip-paths"] + o["lstrip"]
    return av


def lib_kwargs(o):
    kw = {}
    if o["exclude"]:
        kw["exclude_patterns"] = list(o["exclude"])
    if o["base"]:
        kw["base_path"] = o["base"]
    if o["lstrip"]:
        kw["lstrip_paths"] = list(o["lstrip"])
    return kw


def observe(root, k):
    """Everything the call left behind apart from the tree itself: link files (relative name -> payload etc.)."""
    import attr
    from in_toto.models.metadata import Metadata
    out = {}
    for dp, _dn, fn in os.walk(root):
        for f in fn:
            if f.endswith(".link") or f.endswith(".link-unfinished"):
                path = os.path.join(dp, f)
                rel = os.path.relpath(path, root)
                try:
                    md = Metadata.load(path)
                    pl = attr.asdict(md.get_payload())
                    for kind in ("materials", "products"):
                        # (a link file recorded as an artifact - custom exclude patterns replace the default "*.link*" -
                        # carries a signature, which differs from run to run: compare its name only)
                        for name in pl.get(kind) or {}:
                            if name.endswith((".link", ".link-unfinished")):
                                pl[kind][name] = "<a link file>"
                    env = pl.get("environment") or {}
                    if "workdir" in env:
                        env["workdir"] = env["workdir"].replace(root.replace("\\", "/"), "<root>")
                    try:
                        md.verify_signature(k.pub)
                        sig = "ok"
                    except Exception as e:  # pylint: disable=broad-except
                        sig = type(e).__name__
                    out[rel] = {"format": type(md).__name__, "payload": json.loads(W.canon(pl)), "signed_by_key": sig,
                                "signatures": len(md.signatures)}
                except Exception as e:  # pylint: disable=broad-except
                    out[rel] = {"unloadable": type(e).__name__}
    return out


def _quiet():
    logging.getLogger("in_toto").setLevel(logging.CRITICAL)
    return contextlib.redirect_stdout(io.StringIO())


def equiv_case(rng, res, tool, fixed=None):
    """tool: run / record / mock."""
    import in_toto.runlib as rl
    k = rng.choice(W.pool())
    o = gen_options(rng)
    no_command = tool == "run" and rng.random() < 0.15
    if fixed:
        full = gen_options(rng)
        o = {a: fixed["options"].get(a, None if not isinstance(full[a], bool) else False) for a in full}
        no_command = bool(fixed.get("no_command"))
        k = next((x for x in W.pool() if x.keyid == fixed.get("keyid")), k)
    cmd = [sys.executable, "-c", SCRIPT]
    roots = [tempfile.mkdtemp(prefix="verif-eq-cli-"), tempfile.mkdtemp(prefix="verif-eq-lib-")]
    cwd = os.getcwd()
    outcomes = []
    try:
        for side, root in zip(("cli", "lib"), roots):
            lay_out(root, o["base"])
            if o["metadata_directory"]:
                os.makedirs(os.path.join(root, o["metadata_directory"]))
            os.chdir(root)
            top = os.path.join(root, o["base"]) if o["base"] else root
            run_cmd = [sys.executable, "-c", "import os; os.chdir(%r); exec(%r)" % (o["base"], SCRIPT)] if o["base"] else cmd
            status = None
            try:
                with _quiet(), contextlib.redirect_stderr(io.StringIO()):
                    if tool == "run":
                        if side == "cli":
                            av = ["-n", "st", "--signing-key", priv_path(k)] + common_argv(o, "both")
                            av += (["-d", o["metadata_directory"]] if o["metadata_directory"] else []) + (["--use-dsse"] if o["dsse"] else [])
                            av += (["-s"] if o["streams"] else []) + (["--run-timeout", str(o["timeout"])] if o["timeout"] is not None else [])
                            av += ["-x"] if no_command else ["--"] + run_cmd
                            status = cli.run_main("in_toto_run", av)[0]
                        else:
                            kw = lib_kwargs(o)
                            if o["timeout"] is not None:
                                kw["timeout"] = o["timeout"]
                            rl.in_toto_run("st", o["materials"] or [], o["products"] or [], [] if no_command else run_cmd,
                                           record_streams=o["streams"], signer=k.signer, use_dsse=o["dsse"],
                                           metadata_directory=o["metadata_directory"], **kw)
                            status = 0
                    elif tool == "record":
                        if side == "cli":
                            av = ["start", "-n", "st", "--signing-key", priv_path(k)] + common_argv(o, "materials") + (["--use-dsse"] if o["dsse"] else [])
                            status = cli.run_main("in_toto_record", av)[0]
                            _do_step(top)
                            av = ["stop", "-n", "st", "--signing-key", priv_path(k)] + common_argv(o, "products")
                            av += ["-d", o["metadata_directory"]] if o["metadata_directory"] else []
                            status = (status, cli.run_main("in_toto_record", av)[0])
                        else:
                            rl.in_toto_record_start("st", o["materials"] or [], signer=k.signer, use_dsse=o["dsse"], **lib_kwargs(o))
                            _do_step(top)
                            rl.in_toto_record_stop("st", o["products"] or [], signer=k.signer, metadata_directory=o["metadata_directory"], **lib_kwargs(o))
                            status = (0, 0)
                    else:
                        if side == "cli":
                            status = cli.run_main("in_toto_mock", ["-n", "st"] + (["--use-dsse"] if o["dsse"] else []) + ["--"] + run_cmd)[0]
                        else:
                            rl.in_toto_mock("st", run_cmd, use_dsse=o["dsse"])
                            status = 0
            except Exception as e:  # pylint: disable=broad-except
                status = "raised " + type(e).__name__
            finally:
                os.chdir(cwd)
            outcomes.append({"status": status, "files": observe(root, k)})
    finally:
        os.chdir(cwd)
        for r in roots:
            shutil.rmtree(r, ignore_errors=True)
    c, l = outcomes
    # a library call that raises corresponds to status 1 of the front end
    lib_status = l["status"]
    if isinstance(lib_status, str):
        lib_status = 1 if tool != "record" else None
    same_status = c["status"] == lib_status or (tool == "record" and isinstance(l["status"], str) and c["status"] != (0, 0))
    if tool == "mock":
        for side in (c, l):
            for v in side["files"].values():
                v.pop("signed_by_key", None)        # mock links are unsigned
    same = same_status and c["files"] == l["files"]
    desc = {"tool": tool, "options": {a: b for a, b in o.items() if b is not None and b is not False}, "no_command": no_command, "key": k.kind,
            "keyid": k.keyid}
    res.case({"desc": desc, "status": c["status"], "links": sorted(c["files"])}, True, same, sample_cap=1)
    res.count("cli_equiv_" + tool)
    if not same:
        diff = {}
        for name in sorted(set(c["files"]) | set(l["files"])):
            a, b = c["files"].get(name), l["files"].get(name)
            if a != b:
                if a and b and "payload" in a and "payload" in b:
                    diff[name] = {f: {"command_line": a["payload"].get(f), "library": b["payload"].get(f)}
                                  for f in set(a["payload"]) | set(b["payload"]) if a["payload"].get(f) != b["payload"].get(f)}
                    diff[name].update({f: {"command_line": a.get(f), "library": b.get(f)} for f in ("format", "signed_by_key", "signatures")
                                       if a.get(f) != b.get(f)})
                else:
                    diff[name] = {"command_line": "absent" if a is None else a.get("unloadable", "present"),
                                  "library": "absent" if b is None else b.get("unloadable", "present")}
        res.fail("oracle", {"op": "cli_equiv", "desc": desc},
                 {"why": "the command line gives another result than the library call it stands for",
                  "status": {"command_line": c["status"], "library": l["status"]}, "differences": json.loads(json.dumps(diff, default=str))})


def _do_step(top):
    os.makedirs(os.path.join(top, "build"), exist_ok=True)
    with open(os.path.join(top, "build", "out.bin"), "w") as f:
        f.write("out")
    with open(os.path.join(top, "src", "a.c"), "a") as f:
        f.write("//edit\n")


def replay(case):
    """Re-runs one front-end-against-library comparison with the recorded options."""
    import random
    res = core.Result()
    equiv_case(random.Random(0), res, case["desc"]["tool"], fixed=case["desc"])
    return {"agreed": not res.failures, "failures": res.failures}
