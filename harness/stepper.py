"""Scripted step command: applies file operations to the current directory.
argv: ops like create:path:text  modify:path:text  delete:path  rename:a:b  stamp:path  mkdir:path  cd:dir  echo:text  progress:text  accent:text  exit:n"""
import os
import sys

def _log_failure(exc_type, exc, tb):
    import traceback
    log = os.environ.get("VERIF_STEPPER_LOG")
    if log:
        with open(log, "a", encoding="utf8") as f_:
            f_.write("argv: %r\ncwd: %s\n%s\n" % (sys.argv[1:], os.getcwd(), "".join(traceback.format_exception(exc_type, exc, tb))))
    sys.__excepthook__(exc_type, exc, tb)


sys.excepthook = _log_failure
code = 0
for op in sys.argv[1:]:
    kind, _, rest = op.partition(":")
    if kind == "create" or kind == "modify":
        path, _, text = rest.partition(":")
        d = os.path.dirname(path)
        if d:
            os.makedirs(d, exist_ok=True)
        with open(path, "w", encoding="utf8") as f:
            f.write(text)
    elif kind == "delete":
        os.remove(rest)
    elif kind == "rename":
        a, _, b = rest.partition(":")
        os.rename(a, b)
    elif kind == "stamp":
        # change the content but neither the size nor the time stamps (a fixed-width build id patched in place and the
        # mtime clamped, `cp -p`, `touch -r`, ...): only reading the file again shows the change
        st = os.stat(rest)
        with open(rest, "rb") as f:
            data = f.read()
        if data:
            with open(rest, "r+b") as f:
                f.write(bytes([data[0] ^ 1]) + data[1:])
            os.utime(rest, ns=(st.st_atime_ns, st.st_mtime_ns))
    elif kind == "cd":
        os.chdir(rest)
    elif kind == "mkdir":
        os.makedirs(rest, exist_ok=True)
    elif kind == "echo":
        sys.stdout.write(rest + "\n")
        sys.stderr.write("err:" + rest + "\n")
    elif kind == "progress":
        # a progress line redrawn with carriage returns, the last one not followed by a line feed
        sys.stdout.write("%s  50%%\r%s 100%%\r" % (rest, rest))
        sys.stderr.write("%s...\r" % rest)
    elif kind == "accent":
        # both streams at once, each interrupted in the middle of a two-byte character: "café <text>" on standard output,
        # "wärme <text>" on standard error
        import time
        o, e = ("caf\u00e9 %s\n" % rest).encode("utf8"), ("w\u00e4rme %s\n" % rest).encode("utf8")
        sys.stdout.flush(); sys.stderr.flush()
        sys.stdout.buffer.write(o[:4]); sys.stdout.buffer.flush()
        sys.stderr.buffer.write(e[:2]); sys.stderr.buffer.flush()
        time.sleep(0.2)
        sys.stdout.buffer.write(o[4:]); sys.stdout.buffer.flush()
        sys.stderr.buffer.write(e[2:]); sys.stderr.buffer.flush()
    elif kind == "exit":
        code = int(rest)
sys.exit(code)
