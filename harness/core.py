"""Shared machinery of the checks: Lean build + audit, driver protocol,
parallel case running, evidence writing, exit protocol."""
import hashlib
import json
import multiprocessing
import os
import random
import re
import subprocess
import sys
import time
import traceback

HERE = os.path.dirname(os.path.dirname(os.path.abspath(__file__)))
LEAN_DIR = os.path.join(HERE, "lean")
DRIVER = os.path.join(LEAN_DIR, ".lake", "build", "bin", "driver")
EVIDENCE_DIR = os.environ.get("VERIF_EVIDENCE") or os.path.join(HERE, "evidence")
REPLAY_DIR = os.path.join(EVIDENCE_DIR, "replay")
REPO = os.environ.get("VERIF_REPO", "/repo")
ALLOWED_AXIOMS = {"propext", "Classical.choice", "Quot.sound"}
FORBIDDEN = re.compile(
    r"\bsorry\b|\badmit\b|^\s*axiom\s|native_decide|bv_decide|implemented_by|\bunsafe\s|maxHeartbeats\s+0"
)


class Infra(Exception):
    """Infrastructure failure: exit 2, never a VIOLATION."""


# --------------------------------------------------------------------------
# Lean build and audit


def lean_env():
    env = dict(os.environ)
    env.setdefault("LEAN_NUM_THREADS", "8")
    return env


def ensure_built():
    """`lake build` (no-op when up to date). A failure here is infrastructure:
    the model and proofs are hand-written and do not depend on /repo."""
    t0 = time.time()
    import fcntl
    os.makedirs(os.path.join(LEAN_DIR, ".lake"), exist_ok=True)
    with open(os.path.join(LEAN_DIR, ".lake", "verif-build.lock"), "w") as lock:
        fcntl.flock(lock, fcntl.LOCK_EX)      # checks started side by side build one after the other
        p = subprocess.run(
            ["lake", "build"], cwd=LEAN_DIR, env=lean_env(), stdout=subprocess.PIPE,
            stderr=subprocess.STDOUT, text=True,
        )
    if p.returncode != 0 or not os.path.exists(DRIVER):
        raise Infra("lake build failed:\n" + p.stdout[-4000:])
    return time.time() - t0


def assert_repo():
    """The implementation under test must be the tree at REPO (default /repo; VERIF_REPO names a scratch copy)."""
    import in_toto
    got = os.path.realpath(os.path.dirname(os.path.dirname(in_toto.__file__)))
    if got != os.path.realpath(REPO):
        raise Infra("in_toto is imported from %s, not from %s" % (got, REPO))


def _strip_comments(text):
    # remove /- ... -/ (nested not needed for our files) and -- comments
    text = re.sub(r"/-.*?-/", "", text, flags=re.S)
    text = re.sub(r"--.*", "", text)
    return text


def grep_forbidden():
    hits = []
    for root, _dirs, files in os.walk(LEAN_DIR):
        if ".lake" in root:
            continue
        for f in files:
            if not f.endswith(".lean"):
                continue
            path = os.path.join(root, f)
            body = _strip_comments(open(path, encoding="utf8").read())
            for i, line in enumerate(body.splitlines(), 1):
                if FORBIDDEN.search(line):
                    hits.append("%s: %s" % (os.path.relpath(path, HERE), line.strip()))
    return hits


def theorem_registry():
    """property id -> list of theorem names, from lean/Audit.lean lines
    `#print axioms InToto.C17_roundtrip  -- C17`."""
    reg = {}
    for line in open(os.path.join(LEAN_DIR, "Audit.lean"), encoding="utf8"):
        m = re.match(r"#print axioms\s+(\S+)\s+--\s+(C\d+)", line)
        if m:
            reg.setdefault(m.group(2), []).append(m.group(1))
    return reg


def _lean_sources_hash():
    h = hashlib.sha256()
    for root, dirs, files in os.walk(LEAN_DIR):
        dirs[:] = sorted(d for d in dirs if d != ".lake")
        for f in sorted(files):
            if f.endswith(".lean") or f == "lakefile.toml":
                p = os.path.join(root, f)
                h.update(p.encode())
                h.update(open(p, "rb").read())
    return h.hexdigest()


def run_audit(prop):
    """Returns dict(obligations, discharged, theorems={name: [axioms]}, problems=[...]).
    The `#print axioms` output is cached under lean/.lake keyed by a hash of all
    Lean sources (so an unchanged model is not re-elaborated on every check)."""
    reg = theorem_registry()
    names = reg.get(prop, [])
    cache = os.path.join(LEAN_DIR, ".lake", "audit-%s.json" % _lean_sources_hash()[:24])
    if os.path.exists(cache):
        axioms = json.load(open(cache))
    else:
        p = subprocess.run(
            ["lake", "env", "lean", "Audit.lean"], cwd=LEAN_DIR, env=lean_env(),
            stdout=subprocess.PIPE, stderr=subprocess.STDOUT, text=True,
        )
        if p.returncode != 0:
            raise Infra("Audit.lean failed:\n" + p.stdout[-4000:])
        axioms = {}
        out = p.stdout.replace("\n  ", " ")
        for m in re.finditer(r"'([^']+)' depends on axioms: \[([^\]]*)\]", out):
            axioms[m.group(1)] = [a.strip() for a in m.group(2).split(",") if a.strip()]
        for m in re.finditer(r"'([^']+)' does not depend on any axioms", out):
            axioms[m.group(1)] = []
        axioms["__forbidden__"] = grep_forbidden()
        json.dump(axioms, open(cache, "w"))
    problems = list(axioms.get("__forbidden__", []))
    theorems = {}
    discharged = 0
    for n in names:
        if n not in axioms:
            problems.append("theorem %s not found by Audit.lean" % n)
            continue
        theorems[n] = axioms[n]
        extra = set(axioms[n]) - ALLOWED_AXIOMS
        if extra:
            problems.append("theorem %s depends on %s" % (n, sorted(extra)))
        else:
            discharged += 1
    if not names:
        problems.append("no theorems registered for %s" % prop)
    return {"obligations": len(names), "discharged": discharged, "theorems": theorems,
            "problems": problems}


def run_leanchecker():
    """Thorough tier: re-check every compiled module of the model and the proofs with leanchecker (the toolchain's
    independent re-checker of .olean files). Cached under lean/.lake by the hash of the Lean sources."""
    cache = os.path.join(LEAN_DIR, ".lake", "leanchecker-%s.json" % _lean_sources_hash()[:24])
    if os.path.exists(cache):
        return json.load(open(cache))
    mods = []
    for top in ("InToto", "Proofs"):
        mods.append(top)
        for base, _dirs, files in os.walk(os.path.join(LEAN_DIR, top)):
            for f in sorted(files):
                if f.endswith(".lean"):
                    rel = os.path.relpath(os.path.join(base, f), LEAN_DIR)[:-5]
                    mods.append(rel.replace(os.sep, "."))
    t0 = time.time()
    p = subprocess.run(["lake", "env", "leanchecker"] + sorted(set(mods)), cwd=LEAN_DIR, env=lean_env(),
                       stdout=subprocess.PIPE, stderr=subprocess.STDOUT, text=True)
    out = {"modules": len(set(mods)), "returncode": p.returncode, "output_tail": p.stdout[-1500:], "seconds": round(time.time() - t0, 1)}
    if p.returncode == 0 and "uncaught exception" not in p.stdout:
        json.dump(out, open(cache, "w"))
    return out


# --------------------------------------------------------------------------
# Driver protocol


class Driver:
    """Talks to the compiled Lean driver: one JSON request per line."""

    def __init__(self):
        if not os.path.exists(DRIVER):
            raise Infra("driver not built")
        self.p = subprocess.Popen([DRIVER], stdin=subprocess.PIPE, stdout=subprocess.PIPE,
                                  text=True, encoding="utf8", bufsize=1)

    def call(self, req):
        self.p.stdin.write(json.dumps(req, ensure_ascii=True) + "\n")
        self.p.stdin.flush()
        line = self.p.stdout.readline()
        if not line:
            raise Infra("driver died on request %r" % (req,))
        resp = json.loads(line)
        if "fail" in resp:
            raise Infra("driver rejected request: %s: %r" % (resp["fail"], req))
        return resp

    def batch(self, reqs):
        """Many independent requests: write all, then read all (fast)."""
        reqs = list(reqs)
        out = []
        CH = 2000
        for i in range(0, len(reqs), CH):
            chunk = reqs[i:i + CH]
            data = "".join(json.dumps(r, ensure_ascii=True) + "\n" for r in chunk)
            # write in a thread-less way: chunk small enough for pipe buffering on output side
            import threading
            t = threading.Thread(target=lambda d=data: (self.p.stdin.write(d), self.p.stdin.flush()))
            t.start()
            for r in chunk:
                line = self.p.stdout.readline()
                if not line:
                    raise Infra("driver died")
                resp = json.loads(line)
                if "fail" in resp:
                    raise Infra("driver rejected request: %s: %r" % (resp["fail"], r))
                out.append(resp)
            t.join()
        return out

    def close(self):
        try:
            self.p.stdin.close()
            self.p.wait(timeout=5)
        except Exception:  # pylint: disable=broad-except
            self.p.kill()


_DRIVER = None


def driver():
    global _DRIVER  # pylint: disable=global-statement
    if _DRIVER is None or _DRIVER.p.poll() is not None:
        _DRIVER = Driver()
    return _DRIVER


# --------------------------------------------------------------------------
# Results


class Result:
    """Accumulates what a run covered. Mergeable across worker shards."""

    def __init__(self):
        self.evaluations = 0
        self.agreed = 0            # cases where implementation and model agreed
        self.nontrivial = set()    # hashes of distinct non-trivial cases
        self.samples = []
        self.dist = {}             # distribution counters
        self.failures = []         # dicts: kind ('oracle' | 'disagree'), case, detail
        self.notes = []
        self.exhaustive = False
        self.lines = set()         # (file under in_toto/, line) executed in the worker processes (harness.cover)

    def count(self, key, n=1):
        self.dist[key] = self.dist.get(key, 0) + n

    def case(self, case, nontrivial, agreed=True, sample_cap=3):
        self.evaluations += 1
        if agreed:
            self.agreed += 1
        if nontrivial:
            self.nontrivial.add(hashlib.sha1(
                json.dumps(case, sort_keys=True, default=str).encode()).hexdigest()[:16])
            if len(self.samples) < sample_cap:
                self.samples.append(case)

    def fail(self, kind, case, detail):
        if len(self.failures) < 50:
            self.failures.append({"kind": kind, "case": case, "detail": detail})
        self.count("failures_" + kind)

    def merge(self, other):
        self.evaluations += other.evaluations
        self.agreed += other.agreed
        self.nontrivial |= other.nontrivial
        for s in other.samples:
            if len(self.samples) < 6:
                self.samples.append(s)
        for k, v in other.dist.items():
            self.dist[k] = self.dist.get(k, 0) + v
        self.failures += other.failures
        self.notes += other.notes
        self.lines |= getattr(other, "lines", set())
        return self


def _shard_entry(args):
    func, shard_args = args
    global _DRIVER  # pylint: disable=global-statement
    _DRIVER = None
    try:
        out = func(*shard_args)
        if isinstance(out, Result):
            from harness import cover
            out.lines |= cover.snapshot()
        return ("ok", out)
    except Infra as e:
        return ("infra", str(e))
    except Exception as e:  # pylint: disable=broad-except
        tb = traceback.format_exc()
        if _data_dependent(e):
            # The harness could not digest what the implementation produced or raised (a file it wrote does not parse, a
            # result has another shape, an in-toto exception in a place where none is raised on the pinned tree). That is a
            # break of the correspondence, not of the infrastructure: report it as one, so that the search for a failing
            # input runs and the run ends with a VIOLATION line rather than with exit status 2.
            res = Result()
            res.evaluations += 1
            res.fail("disagree", {"op": "harness", "shard": getattr(func, "__name__", str(func)),
                                  "args": [a for a in shard_args if isinstance(a, (int, str, float, bool, type(None)))]},
                     {"op": "harness could not process what the implementation produced",
                      "exception": type(e).__name__, "traceback_tail": tb[-1500:]})
            return ("ok", res)
        return ("infra", tb)


def _raised_in_repo(e):
    tb = e.__traceback__
    last = None
    while tb is not None:
        last = tb.tb_frame.f_code.co_filename
        tb = tb.tb_next
    try:
        return bool(last) and os.path.realpath(last).startswith(os.path.realpath(REPO) + os.sep)
    except OSError:
        return False


def _data_dependent(e):
    """Exceptions that stem from the data the implementation handed back, as opposed to the machine the check runs on."""
    if isinstance(e, (FileNotFoundError, FileExistsError, IsADirectoryError, NotADirectoryError)) and _raised_in_repo(e):
        # a file in-toto itself expected (or did not expect) to be there, raised from in-toto's own code in the middle of a
        # scripted history that runs through on the pinned tree: the history went another way - not the machine's doing
        # (full disks, descriptor limits and the like are other OSError classes and stay infrastructure failures)
        return True
    if isinstance(e, (OSError, MemoryError, subprocess.TimeoutExpired, EOFError, ImportError, RecursionError)):
        return False
    mod = type(e).__module__ or ""
    if mod.startswith(("in_toto", "securesystemslib")):
        return True
    return isinstance(e, (ValueError, KeyError, TypeError, AttributeError, IndexError, AssertionError, StopIteration))


def parallel(func, shard_args_list, workers=None):
    """Run func(*args) for each args tuple in a pool of forked worker processes
    (in-toto changes process-global state, so cases never share a process with
    the orchestrator). Returns merged Result."""
    workers = workers or min(16, os.cpu_count() or 4, max(1, len(shard_args_list)))
    ctx = multiprocessing.get_context("fork")
    total = Result()
    with ctx.Pool(workers, maxtasksperchild=None) as pool:
        for status, val in pool.imap_unordered(_shard_entry, [(func, a) for a in shard_args_list]):
            if status == "infra":
                raise Infra(val)
            total.merge(val)
    return total


def rng_for(seed, *tags):
    h = hashlib.sha256(("%d|" % seed + "|".join(str(t) for t in tags)).encode()).digest()
    return random.Random(int.from_bytes(h[:8], "big"))


# --------------------------------------------------------------------------
# Evidence and exit protocol

TRUSTED_BASE = [
    "Lean 4.33.0 kernel; axioms used are listed per theorem in coverage.theorems (subset of propext, Classical.choice, Quot.sound)",
    "hand-written Lean model of the anchored in-toto functions (modelled, not verified); tied to /repo by the differential correspondence run reported in this file (sampled / small-scope exhaustive, not a proof)",
    "the Python harness: generators, canonicalisation, oracles, JSON transport to the Lean driver",
    "third-party code exercised but not verified: securesystemslib, cryptography, GnuPG, pathspec, iso8601, dateutil, attrs, CPython",
]


def write_evidence(prop, tier, seed, audit, res, wall, extra_cov=None, assumptions=None,
                   violations=0):
    os.makedirs(EVIDENCE_DIR, exist_ok=True)
    cov = {
        "obligations": audit["obligations"],
        "discharged": audit["discharged"],
        "checker_cmd": "cd lean && lake build && lake env lean Audit.lean   # kernel-checks every theorem and prints its axioms",
        "trusted_base": TRUSTED_BASE,
        "theorems": audit["theorems"],
        "audit_problems": audit["problems"],
        "leanchecker": audit.get("leanchecker", "not run (quick tier)"),
        "evaluations": res.evaluations,
        "distinct_nontrivial": len(res.nontrivial),
        "traces_validated_against_impl": res.agreed,
        "samples": res.samples[:6] or ["(no case recorded)"],
        "distribution": dict(sorted(res.dist.items())),
        "exhaustive": bool(res.exhaustive),
        "notes": res.notes[:20],
    }
    if extra_cov:
        cov.update(extra_cov)
    try:
        from harness import cover
        cov["code_executed"] = cover.report(REPO, cover.load_property(HERE, prop), res.lines | cover.snapshot())
    except Exception as e:  # pylint: disable=broad-except
        cov["code_executed"] = {"note": "not measured: %s" % (e,)}
    ev = {
        "property_id": prop,
        "tier": tier,
        "seed": seed,
        "level": "proof",
        "coverage": cov,
        "assumptions": assumptions or [],
        "wall_s": round(wall, 2),
        "violations": violations,
    }
    path = os.path.join(EVIDENCE_DIR, prop + ".json")
    tmp = path + ".tmp"
    with open(tmp, "w", encoding="utf8") as f:
        json.dump(ev, f, indent=1, ensure_ascii=True, default=str)
    os.replace(tmp, path)
    return path


def write_replay(prop, seed, n, payload):
    os.makedirs(REPLAY_DIR, exist_ok=True)
    path = os.path.join(REPLAY_DIR, "%s-%d-%d.json" % (prop, seed, n))
    with open(path, "w", encoding="utf8") as f:
        json.dump(payload, f, indent=1, ensure_ascii=True, default=str)
    return os.path.relpath(path, HERE)


def known_findings():
    return json.load(open(os.path.join(HERE, "known_findings.json"), encoding="utf8"))["findings"]


def call(func, args):
    """Picklable dispatcher for `parallel`: shards are (function, args) pairs."""
    return func(*args)
