"""Which library call a front end makes (model: `InToto/CliCall.lean`, theorems `cli_*_options_reach`).

The harness writes down a command line from an option description, states itself what that command line means (the
namespace a user expects - not what in-toto's parser makes of it, so a change of the option tables shows too), asks the
model which library call follows, and runs the real `main()` with the library entry point replaced by a recorder that
binds the arguments it receives to the real function's signature (so positional / keyword / omitted-default spellings
are all the same call). Parameters of the library the front ends have no option for must arrive at their defaults."""
import contextlib
import importlib
import inspect
import io
import os
import shutil
import tempfile

from harness import cli, cliequiv, core, world as W

ENTRY = {"run": ("in_toto_run", "in_toto_run"), "record_start": ("in_toto_record", "in_toto_record_start"),
         "record_stop": ("in_toto_record", "in_toto_record_stop"), "match_products": ("in_toto_match_products", "in_toto_match_products"),
         "verify": ("in_toto_verify", "in_toto_verify")}


class _Recorder:
    def __init__(self, real):
        self.real, self.calls = real, []
        self.__name__ = getattr(real, "__name__", "recorder")

    def __call__(self, *a, **kw):
        b = inspect.signature(self.real).bind(*a, **kw)
        b.apply_defaults()
        self.calls.append(dict(b.arguments))
        return ([], [], []) if self.real.__name__ == "in_toto_match_products" else None


@contextlib.contextmanager
def recording(tool):
    """Replaces the library entry point wherever the front end can reach it (attribute of the library module and any
    alias of the same function object in the front end's module)."""
    import in_toto.runlib, in_toto.verifylib
    modname, fn = ENTRY[tool]
    lib = in_toto.verifylib if tool == "verify" else in_toto.runlib
    real = getattr(lib, fn)
    rec = _Recorder(real)
    front = importlib.import_module("in_toto." + modname)
    patched = [(lib, fn, real)]
    setattr(lib, fn, rec)
    for name, val in list(vars(front).items()):
        if val is real:
            patched.append((front, name, real))
            setattr(front, name, rec)
    try:
        yield rec
    finally:
        for obj, name, val in patched:
            setattr(obj, name, val)


def _keyid_of(x):
    if x is None:
        return None
    if isinstance(x, dict):
        return "legacy key loaded"          # (the legacy loader derives its own id: presence is what is compared)
    pk = getattr(x, "public_key", None)
    return getattr(pk, "keyid", None) or "signer loaded"


def gen_case(rng, tool):
    """-> (argv, expected namespace as the model reads it, key used)"""
    o = cliequiv.gen_options(rng)
    k = rng.choice([x for x in W.pool() if x.kind == "rsa"] if rng.random() < 0.25 else W.pool())
    how = rng.choice(["signing_key", "signing_key", "gpg_id", "gpg_flag", "key"] if k.kind == "rsa" else ["signing_key", "signing_key", "gpg_id", "gpg_flag"])
    bad = rng.random() < 0.12
    ns = {"step_name": "st", "key": None, "gpg": None, "signing_key": None, "gpg_home": None}
    av = ["-n", "st"]
    if how == "signing_key":
        av += ["--signing-key", cliequiv.priv_path(k)]; ns["signing_key"] = cliequiv.priv_path(k)
    elif how == "key":
        av += ["--key", cliequiv.priv_path(k)]; ns["key"] = cliequiv.priv_path(k)
    elif how == "gpg_id":
        kid = rng.choice(["8465a1e2e0fb2b40adb2478e18fb3f537e0c8a17", "c5a0abe6ec19d0d65f85e2c39be9df5131d924e9", "7b3abb26b97b655ab9296bd15b0bd02e1c768c43"])
        av += ["--gpg", kid]; ns["gpg"] = kid
    else:
        av += ["--gpg"]; ns["gpg"] = True
    if how.startswith("gpg") and rng.random() < 0.5:
        av += ["--gpg-home", "gh"]; ns["gpg_home"] = "gh"
    if bad:                                           # two ways of naming the key: a usage error, no library call
        other = rng.choice(["--signing-key", "--gpg"])
        if other == "--signing-key" and ns["signing_key"] is None:
            av += ["--signing-key", cliequiv.priv_path(k)]; ns["signing_key"] = cliequiv.priv_path(k)
        elif other == "--gpg" and ns["gpg"] is None:
            av += ["--gpg", "abcd"]; ns["gpg"] = "abcd"
        else:
            bad = False
    which = {"run": "both", "record_start": "materials", "record_stop": "products"}[tool]
    av += cliequiv.common_argv(o, which)
    if which in ("materials", "both"):
        ns["materials"] = o["materials"]
    if which in ("products", "both"):
        ns["products"] = o["products"]
    ns["exclude_patterns"] = list(o["exclude"]) if o["exclude"] else None
    ns["base_path"] = o["base"]
    ns["lstrip_paths"] = list(o["lstrip"]) if o["lstrip"] else None
    if tool in ("run", "record_stop") and o["metadata_directory"]:
        av += ["-d", o["metadata_directory"]]; ns["metadata_directory"] = o["metadata_directory"]
    if tool in ("run", "record_start") and o["dsse"]:
        av += ["--use-dsse"]; ns["use_dsse"] = True
    if tool == "run":
        import in_toto.settings
        ns["record_streams"] = bool(o["streams"])
        av += ["-s"] if o["streams"] else []
        ns["run_timeout"] = o["timeout"] if o["timeout"] is not None else in_toto.settings.LINK_CMD_EXEC_TIMEOUT
        av += ["--run-timeout", str(o["timeout"])] if o["timeout"] is not None else []
        shape = rng.choice(["command", "command", "command", "no_command", "no_command_with_command", "neither"])
        cmd = ["sh", "-c", "echo {x}; exit 0"]
        ns["no_command"] = shape.startswith("no_command")
        ns["link_cmd"] = cmd if shape in ("command", "no_command_with_command") else []
        av += ["-x"] if ns["no_command"] else []
        av += ["--"] + cmd if ns["link_cmd"] else []
    if tool != "run":
        av = [tool.split("_")[1]] + av
    return av, ns, {"key_option": how, "two_key_options": bad, "options": {a: b for a, b in o.items() if b is not None and b is not False}}


def gen_match(rng, d):
    """in-toto-match-products: every subset of its three list options."""
    from in_toto.models.link import Link
    from in_toto.models.metadata import Metablock, Envelope
    token = "nm-%06x" % rng.randrange(1 << 24)
    lk = Link(name=token, products={"a": {"sha256": "00" * 32}})
    path = os.path.join(d, rng.choice(["x.link", "sub dir/y.link"]))
    os.makedirs(os.path.dirname(path), exist_ok=True)
    (Envelope.from_signable(lk) if rng.random() < 0.5 else Metablock(signed=lk)).dump(path)
    ns = {"link": token, "paths": rng.choice([None, ["."], ["a", "src"]]), "exclude": rng.choice([None, ["*.o"], ["b/", "!c"]]),
          "lstrip_paths": rng.choice([None, None, ["src/"], ["./src/", "b/"]])}
    av = ["--link", path]
    opts = [("--paths", ns["paths"]), ("--exclude", ns["exclude"]), ("--lstrip-paths", ns["lstrip_paths"])]
    rng.shuffle(opts)
    for flag, v in opts:
        if v is not None:
            av += [flag] + v
    av += rng.choice([[], ["-v"]])
    return av, ns, {"options": {a: b for a, b in ns.items() if b is not None and a != "link"}}


def gen_verify(rng, d):
    """in-toto-verify: every combination of the three key options, link directory and time limit given or not."""
    import in_toto.settings
    from in_toto.models.layout import Layout
    from in_toto.models.metadata import Metablock, Envelope
    from harness.props import c18
    token = "lay-%06x" % rng.randrange(1 << 24)
    lay = Layout(readme=token)
    path = os.path.join(d, "root.layout")
    (Envelope.from_signable(lay) if rng.random() < 0.5 else Metablock(signed=lay)).dump(path)
    rsa = [k for k in W.pool() if k.kind == "rsa"]
    others = [k for k in W.pool() if k.kind != "rsa"]
    ns = {"layout": token, "layout_keys": None, "gpg": None, "verification_keys": None, "link_dir": ".",
          "inspect_timeout": in_toto.settings.LINK_CMD_EXEC_TIMEOUT}
    expect = {}
    av = ["--layout", path]
    groups = []
    if rng.random() < 0.5:
        ks = rng.sample(rsa, rng.choice([1, len(rsa)]))
        ns["layout_keys"] = [c18.write_pub_pem(k, d) for k in ks]
        groups.append(["--layout-keys"] + ns["layout_keys"])
    if rng.random() < 0.6:
        ks = rng.sample(others + rsa, rng.choice([1, 2, 3]))
        ns["verification_keys"] = [c18.write_pub_pem(k, d) for k in ks]
        groups.append(["--verification-keys"] + ns["verification_keys"])
    if W.gpg_available() and rng.random() < 0.4:
        gs = [W.gpg_key(n) for n in rng.sample(["no_sub", "one_sub", "two_subs"], rng.choice([1, 2]))]
        ns["gpg"] = [g.keyid for g in gs]
        groups.append(["--gpg"] + ns["gpg"] + ["--gpg-home", gs[0].gpg_home])
    rng.shuffle(groups)
    for g in groups:
        av += g
    if rng.random() < 0.5:
        ns["link_dir"] = rng.choice(["links", "a/b", "."]); av += ["--link-dir", ns["link_dir"]]
    if rng.random() < 0.5:
        ns["inspect_timeout"] = rng.choice([0, 1, 30, 600]); av += ["--inspection-timeout", str(ns["inspect_timeout"])]
    return av, ns, {"options": {a: (len(b) if isinstance(b, list) else b) for a, b in ns.items() if b is not None and a != "layout"},
                    "order": [g[0] for g in groups]}


def keyids_for(option, values):
    """The key ids an option's values stand for, computed without in-toto (securesystemslib's loaders)."""
    from securesystemslib import interface
    if option == "gpg":
        return set(values)
    out = set()
    for p in values:
        if option == "layout_keys":
            out |= set(interface.import_publickeys_from_file([p], ["rsa"]))
        else:
            from securesystemslib.signer import SSlibKey
            from cryptography.hazmat.primitives.serialization import load_pem_public_key
            with open(p, "rb") as f:
                out.add(SSlibKey.from_crypto(load_pem_public_key(f.read())).keyid)
    return out


def one_other(rng, res, tool):
    import in_toto.runlib, in_toto.verifylib
    d = tempfile.mkdtemp(prefix="verif-clicall-")
    cwd = os.getcwd()
    try:
        av, ns, desc = (gen_match if tool == "match_products" else gen_verify)(rng, d)
        r = core.driver().call({"op": "cli_call", "tool": tool, "args": ns})
        if "ok" not in r:
            raise core.Infra("cli_call: %r" % (r,))
        model = r["ok"]
        os.chdir(d)
        with recording(tool) as rec:
            status = cli.run_main(ENTRY[tool][0], av)[0]
        impl = dict(rec.calls[0]) if len(rec.calls) == 1 else (None if not rec.calls else "several calls")
        real = getattr(in_toto.verifylib if tool == "verify" else in_toto.runlib, ENTRY[tool][1])
        m = None
        if model is not None:
            m = dict(model)
            for n, p in inspect.signature(real).parameters.items():
                if p.default is not inspect.Parameter.empty:
                    m.setdefault(n, p.default)
        if isinstance(impl, dict):
            if tool == "match_products":
                impl["link"] = getattr(impl.get("link"), "name", "<not a link>")
                for f in ("paths", "exclude_patterns", "lstrip_paths"):
                    impl[f] = list(impl[f]) if impl.get(f) is not None else None
            else:
                pl = impl.pop("metadata").get_payload()
                impl["layout"] = getattr(pl, "readme", "<not a layout>")
                impl["keys"] = sorted(impl.pop("layout_key_dict"))
        if m is not None and tool == "verify":
            want = set()
            for opt, vals in m.pop("key_options"):
                want |= keyids_for(opt, vals)
            m["keys"] = sorted(want)
            m.pop("metadata", None); m.pop("layout_key_dict", None)
    finally:
        os.chdir(cwd)
        shutil.rmtree(d, ignore_errors=True)
    same = impl == m and (status == 2) == (m is None)
    res.case({"tool": tool, "desc": desc, "call_made": m is not None}, True, same, sample_cap=1)
    res.count("cli_call_" + tool)
    if not same:
        diff = None
        if isinstance(impl, dict) and isinstance(m, dict):
            diff = {f: {"front_end_passes": impl.get(f, "<no such parameter>"), "model": m.get(f, "<no such parameter>")}
                    for f in sorted(set(impl) | set(m)) if impl.get(f, "<absent>") != m.get(f, "<absent>")}
        res.fail("disagree", {"op": "cli_call", "tool": tool, "argv": av, "desc": desc},
                 {"op": "cli_call", "status": status, "impl": impl if not isinstance(impl, dict) else "a call",
                  "model": "no call (usage error)" if m is None else "a call", "differences": core_json(diff)})


def normalise(call, tool):
    """The recorded call in the model's vocabulary."""
    c = dict(call)
    if "step_name" in c:
        c["name"] = c.pop("step_name")
    c["signing_key"] = _keyid_of(c.get("signing_key"))
    c["signer"] = _keyid_of(c.get("signer"))
    for f in ("material_list", "product_list", "link_cmd_args", "exclude_patterns", "lstrip_paths"):
        if c.get(f) is not None:
            c[f] = list(c[f])
    return c


def one_case(rng, res, tool):
    import in_toto.runlib
    av, ns, desc = gen_case(rng, tool)
    r = core.driver().call({"op": "cli_call", "tool": tool, "args": ns})
    if "ok" not in r:
        raise core.Infra("cli_call: %r" % (r,))
    model = r["ok"]
    d = tempfile.mkdtemp(prefix="verif-clicall-")
    cwd = os.getcwd()
    try:
        os.chdir(d)
        with recording(tool) as rec:
            status = cli.run_main(ENTRY[tool][0], av)[0]
    finally:
        os.chdir(cwd)
        shutil.rmtree(d, ignore_errors=True)
    impl = normalise(rec.calls[0], tool) if len(rec.calls) == 1 else (None if not rec.calls else "several calls")
    real = getattr(in_toto.runlib, ENTRY[tool][1])
    defaults = {n: p.default for n, p in inspect.signature(real).parameters.items() if p.default is not inspect.Parameter.empty}
    if model is not None:
        m = dict(model)
        for f in ("signing_key", "signer"):
            if m.get(f) is not None:
                m[f] = "legacy key loaded" if f == "signing_key" else next(x.keyid for x in W.pool() if cliequiv.priv_path(x) == m[f])
        # parameters the front end has no option for arrive at the library's defaults
        for n, dv in defaults.items():
            m.setdefault(n, dv)
    else:
        m = None
    same = impl == m and (status == 2) == (m is None)
    res.case({"tool": tool, "desc": desc, "call_made": m is not None}, True, same, sample_cap=1)
    res.count("cli_call_" + tool); res.count("cli_call_key_" + desc["key_option"])
    if not same:
        diff = None
        if isinstance(impl, dict) and isinstance(m, dict):
            diff = {f: {"front_end_passes": impl.get(f, "<no such parameter>"), "model": m.get(f, "<no such parameter>")}
                    for f in sorted(set(impl) | set(m)) if impl.get(f, "<absent>") != m.get(f, "<absent>")}
        res.fail("disagree", {"op": "cli_call", "tool": tool, "argv": av, "desc": desc, "namespace": ns},
                 {"op": "cli_call", "status": status, "impl": impl if not isinstance(impl, dict) else "a call", "model": "no call (usage error)" if m is None else "a call",
                  "differences": core_json(diff)})


def core_json(x):
    import json
    return json.loads(json.dumps(x, default=str))


def shard(seed, idx, n, tools=("run", "record_start", "record_stop")):
    res = core.Result()
    rng = core.rng_for(seed, "clicall", idx)
    for _ in range(n):
        for t in tools:
            (one_other if t in ("match_products", "verify") else one_case)(rng, res, t)
    return res


def replay(case):
    """Runs the recorded command line again (library entry point replaced by the recorder) and shows the call beside the model's."""
    tool = case["tool"]
    d = tempfile.mkdtemp(prefix="verif-clicall-")
    cwd = os.getcwd()
    try:
        os.chdir(d)
        with recording(tool) as rec:
            status = cli.run_main(ENTRY[tool][0], case["argv"])[0]
    finally:
        os.chdir(cwd)
        shutil.rmtree(d, ignore_errors=True)
    out = {"status": status, "calls": core_json([normalise(c, tool) if tool in ("run", "record_start", "record_stop") else {a: str(b)[:200] for a, b in c.items()} for c in rec.calls])}
    if "namespace" in case:
        out["model"] = core.driver().call({"op": "cli_call", "tool": tool, "args": case["namespace"]})
    else:
        out["note"] = "files named on this command line were temporary; the differences recorded in the replay file stand"
    return out
