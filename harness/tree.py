"""Random file trees: a description (python dict), its materialisation on disk,
its transport form for the Lean model (symbolic links resolved to what they
point at), an exclusion table computed with pathspec, and an independent
reference recorder (the oracle of C10)."""
import hashlib
import os
import posixpath

# ("é.c" precomposed and "e\u0301.c" decomposed are two different names on disk and in a recording)
NAMES = ["a", "b", "foo", "bar.txt", "x y", "ünï", "c.py", "sub", "deep", "lib", ".hidden", "z~", "m.pyc", "k.link", "[q]", "é.c",
         "e\u0301.c", "u\u0308ni\u0308"]
CONTENTS = [b"", b"hello\n", b"a\r\nb\r\n", b"\x00\x01\xff binary", b"x" * 3000, b"line\rmac\r", b"same\n", b"same\n"]


def _straddle(boundaries, size, pair=b"\r\n"):
    b = bytearray(b"a" * size)
    for k in boundaries:
        b[k - 1:k - 1 + len(pair)] = pair
    return bytes(b)


# line endings that straddle the block boundaries a chunked reader may use (1 KiB ... 128 KiB), a lone CR at a
# boundary, CR CR LF around it
BIG_CONTENTS = [_straddle([4096], 4103), _straddle([4096, 8192], 8198), _straddle([1024, 2048, 16384, 32768, 65536, 131072], 131080),
                _straddle([4096, 8192], 9000, b"\r"), _straddle([4096], 5000, b"\r\r\n"), b"l\r\n" * 2731]


def sha(data):
    return hashlib.sha256(data).hexdigest()


def norm_eol(data):
    return data.replace(b"\r\n", b"\n").replace(b"\r", b"\n")


def gen_tree(rng, depth=0, max_depth=4):
    """dict name -> node; node = ("f", bytes) | ("d", dict) | ("l", target relative path)"""
    entries = {}
    n = rng.randrange(0, 6 if depth else 7)
    for name in rng.sample(NAMES, min(n, len(NAMES))):
        r = rng.random()
        if r < 0.55 or depth >= max_depth:
            content = rng.choice(BIG_CONTENTS) if rng.random() < 0.04 else rng.choice(CONTENTS)
            entries[name] = ("f", content + (b"%d" % rng.randrange(5) if rng.random() < 0.5 else b""))
        else:
            entries[name] = ("d", gen_tree(rng, depth + 1, max_depth))
    return entries


BELOW_SLASH = " !#$%&'()+,-."


def add_order_siblings(rng, tree, n=2):
    """Next to a non-empty directory D adds an entry named D + <character sorting below '/'> + suffix, so that the
    byte order of the relative paths differs from a component-wise (or otherwise path-aware) order."""
    for _ in range(n):
        dirs = [("", ("d", tree))] + [(p, nd) for p, nd in all_paths(tree) if nd[0] == "d"]
        _hp, host = rng.choice(dirs)
        inner = [nm for nm, nd in host[1].items() if nd[0] == "d" and nd[1]]
        if not inner:
            if len(host[1]) > 12:
                continue
            nm = rng.choice(["lib", "app", "src"])
            if nm in host[1]:
                continue
            host[1][nm] = ("d", {"util.py": ("f", b"u%d" % rng.randrange(9))})
            inner = [nm]
        d = rng.choice(inner)
        sib = d + rng.choice(BELOW_SLASH) + rng.choice(["", "x", "py", "extra"])
        if sib in host[1]:
            continue
        if rng.random() < 0.6:
            host[1][sib] = ("f", b"s%d" % rng.randrange(9))
        else:
            inner_sib = {"data.bin": ("f", b"d%d" % rng.randrange(9))}
            if rng.random() < 0.5 and not contains_link(("d", host[1][d][1])):
                # a link to the directory whose name the sibling's name extends ("lib-x/ln -> ../lib"): not a loop
                inner_sib["ln"] = ("l", "../" + d)
            host[1][sib] = ("d", inner_sib)
    return tree


def to_jsonable(tree):
    """Replayable description of a tree (file contents as hex)."""
    return {n: (["f", nd[1].hex()] if nd[0] == "f" else ["l", nd[1]] if nd[0] == "l" else ["d", to_jsonable(nd[1])])
            for n, nd in tree.items()}


def from_jsonable(j):
    return {n: (("f", bytes.fromhex(nd[1])) if nd[0] == "f" else ("l", nd[1]) if nd[0] == "l" else ("d", from_jsonable(nd[1])))
            for n, nd in j.items()}


def all_paths(tree, prefix=""):
    for name, node in tree.items():
        p = prefix + name
        yield p, node
        if node[0] == "d":
            yield from all_paths(node[1], p + "/")


def add_symlinks(rng, tree, n):
    """Adds symlinks whose targets are existing files / directories (never an
    ancestor or itself, so the followed walk terminates) or nothing."""
    for _ in range(n):
        paths = list(all_paths(tree))
        dirs = [("", ("d", tree))] + [(p, nd) for p, nd in paths if nd[0] == "d"]
        host_path, host = rng.choice(dirs)
        name = rng.choice(["ln1", "ln2", "lnk", "ln.d"])
        if name in host[1]:
            continue
        kind = rng.choice(["file", "dir", "dangling"])
        if kind == "dangling":
            target = "nowhere/at/all"
        else:
            cands = [p for p, nd in paths if nd[0] == ("f" if kind == "file" else "d")
                     and not (host_path + "/").startswith(p + "/") and p != host_path
                     and not contains_link(nd)]
            if not cands:
                continue
            tp = rng.choice(cands)
            depth = host_path.count("/") + (1 if host_path else 0)
            target = "../" * depth + tp
        host[1][name] = ("l", target)
    return tree


def contains_link(node):
    if node[0] == "l":
        return True
    if node[0] == "d":
        return any(contains_link(n) for n in node[1].values())
    return False


def materialise(tree, root):
    os.makedirs(root, exist_ok=True)
    for name, node in tree.items():
        p = os.path.join(root, name)
        if node[0] == "f":
            with open(p, "wb") as f:
                f.write(node[1])
        elif node[0] == "d":
            materialise(node[1], p)
        else:
            os.symlink(node[1], p)


def lookup(tree, path):
    """Node at a normalised relative path (following links), or None."""
    comps = [c for c in path.split("/") if c not in ("", ".")]
    return _lookup(tree, tree, [], comps, 0)


def _lookup(top, cur, cur_path, comps, hops):
    if hops > 40:
        return None
    node = ("d", cur)
    for i, c in enumerate(comps):
        if node[0] != "d":
            return None
        if c == "..":
            cur_path = cur_path[:-1]
            node = ("d", _dir_at(top, cur_path))
            continue
        nxt = node[1].get(c)
        if nxt is None:
            return None
        if nxt[0] == "l":
            tgt = posixpath.normpath("/".join(cur_path + [nxt[1]]))
            if tgt.startswith(".."):
                return None
            res = _lookup(top, top, [], [x for x in tgt.split("/") if x not in ("", ".")], hops + 1)
            if res is None:
                return ("x",) if i == len(comps) - 1 else None
            node = ("L",) + res if res[0] in ("f", "d") else res
            if node[0] == "L":
                node = (node[1], node[2], True)
            # for traversal purposes treat as target; remember the path of the target
            cur_path = [x for x in tgt.split("/") if x not in ("", ".")]
            node = (node[0], node[1]) if len(node) >= 2 else node
            is_link = True
        else:
            node = nxt
            cur_path = cur_path + [c]
    return node


def _dir_at(top, comps):
    cur = top
    for c in comps:
        cur = cur[c][1]
    return cur


def resolve_link(top, host_path, target):
    tgt = posixpath.normpath("/".join(host_path + [target]))
    if tgt.startswith(".."):
        return None
    return _lookup(top, top, [], [x for x in tgt.split("/") if x not in ("", ".")], 0)


def model_node(top, tree, host_path=None):
    """Transport form: links resolved to what they point at."""
    host_path = host_path or []
    out = []
    for name, node in tree.items():
        if node[0] == "f":
            out.append([name, {"f": file_parts(node[1])}])
        elif node[0] == "d":
            out.append([name, model_node(top, node[1], host_path + [name])])
        else:
            res = resolve_link(top, host_path, node[1])
            if res is None or res[0] == "x":
                out.append([name, "x"])
            elif res[0] == "f":
                out.append([name, {"lf": file_parts(res[1])}])
            else:
                # the target directory, expanded in place (targets contain no links)
                tgt = posixpath.normpath("/".join(host_path + [node[1]]))
                sub = model_node(top, res[1], [x for x in tgt.split("/") if x not in ("", ".")])
                out.append([name, {"ld": sub["d"]}])
    return {"d": out}


def file_parts(data):
    try:
        text = data.decode("utf8") if len(data) < 200 else None
    except UnicodeDecodeError:
        text = None
    return [sha(data), sha(norm_eol(data)), text]


def candidate_paths(tree, starts):
    """Every path string the exclusion filter may be asked about."""
    out = {".", ""}
    dirs = [("", tree)]
    flat = model_node(tree, tree)

    def rec(node, prefix, acc):
        for name, n in node["d"] if "d" in node else node["ld"]:
            p = prefix + name
            acc.append(p)
            if isinstance(n, dict) and ("d" in n or "ld" in n):
                rec(n, p + "/", acc)
    def origins(node, acc):
        acc.append(node)
        for _name, n in node["d"] if "d" in node else node["ld"]:
            if isinstance(n, dict) and ("d" in n or "ld" in n):
                origins(n, acc)
    org = []
    origins(flat, org)
    for o in org:
        acc = []
        rec(o, "", acc)
        out.update(acc)
    for s in starts:
        body = s.split(":", 1)[1] if s.split(":", 1)[0] in ("file", "dir", "ostree") and ":" in s else s
        nb = posixpath.normpath(body) if body else "."
        out.add(nb)
        acc = []
        n = flat
        # paths below a start path are formed as normpath(join(start, rel))
        for rel in list(out):
            out.add(posixpath.normpath(posixpath.join(nb, rel)))
    return sorted(out)


def exclusion_table(patterns, cands):
    from pathspec import GitIgnoreSpec
    spec = GitIgnoreSpec.from_lines("gitwildmatch", patterns)
    return [p for p in cands if spec.match_file(p)]


# ---------------------------------------------------------------- reference recorder (oracle)


def reference_record(tree, starts, patterns, follow, normalize, lstrip):
    """Independent statement of C10 on the tree description: returns
    ("ok", dict) | ("collision", name) | ("reached_twice", name).  Uses pathspec for
    exclusion and posixpath for normalisation; walks the description, not the disk."""
    from pathspec import GitIgnoreSpec
    spec = GitIgnoreSpec.from_lines("gitwildmatch", patterns)
    result = {}
    origin = {}

    def emit(path, data, scheme, ident):
        key = path.replace("\\", "/")
        for pre in lstrip:
            if key.startswith(pre):
                key = key[len(pre):]
                break
        key = scheme + key
        if lstrip and key in result:
            return ("collision" if origin[key] != ident else "reached_twice", key)
        result[key] = sha(norm_eol(data) if normalize else data)
        origin[key] = ident
        return None

    def walk(path, node, host, scheme, via):
        """node is a directory description located (after resolving links) at host path list"""
        for name, n in node.items():
            p = posixpath.normpath(posixpath.join(path, name))
            if n[0] == "l":
                res = resolve_link(tree, host, n[1])
                if res is None or res[0] == "x":
                    continue
                if res[0] == "f":
                    if not spec.match_file(p):
                        err = emit(p, res[1], scheme, ("f", id(res[1]), p))
                        if err:
                            return err
                elif follow and not spec.match_file(p):
                    tgt = posixpath.normpath("/".join(host + [n[1]]))
                    err = walk(p, res[1], [x for x in tgt.split("/") if x not in ("", ".")], scheme, via)
                    if err:
                        return err
            elif n[0] == "f":
                if not spec.match_file(p):
                    err = emit(p, n[1], scheme, ("f", id(n[1]), p))
                    if err:
                        return err
            else:
                if not spec.match_file(p):
                    err = walk(p, n[1], host + [name], scheme, via)
                    if err:
                        return err
        return None

    for s in starts:
        scheme = "file:" if s.startswith("file:") else ""
        body = s[len(scheme):]
        p = posixpath.normpath(body) if body else "."
        if spec.match_file(p):
            continue
        node = lookup_full(tree, p)
        if node is None:
            continue
        kind, payload, host = node
        if kind == "f":
            err = emit(p, payload, scheme, ("f", id(payload), p))
            if err:
                return err
        elif kind == "d":
            err = walk(p, payload, host, scheme, s)
            if err:
                return err
    return ("ok", result)


def lookup_full(tree, path):
    """(kind, payload, host path list of the resolved location) following links."""
    comps = [c for c in path.split("/") if c not in ("", ".")]
    cur, host = tree, []
    node = ("d", tree)
    for c in comps:
        if node[0] != "d":
            return None
        nxt = node[1].get(c)
        if nxt is None:
            return None
        if nxt[0] == "l":
            res = resolve_link(tree, host, nxt[1])
            if res is None or res[0] == "x":
                return None
            tgt = posixpath.normpath("/".join(host + [nxt[1]]))
            host = [x for x in tgt.split("/") if x not in ("", ".")]
            node = res
            if node[0] == "f":
                host = host[:-1]
        else:
            node = nxt
            if node[0] == "d":
                host = host + [c]
    return (node[0], node[1], host)
