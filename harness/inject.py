"""Fault and crash injection from the harness process: one global audit hook
(audit hooks cannot be removed) controlled by module state. While `active`, every
audited file-system event whose path lies inside the scratch area is recorded;
the event number `fault_at` raises OSError (fault) or kills the process (crash)."""
import os
import sys

EVENTS = {"open", "os.chdir", "os.remove", "os.scandir", "os.listdir", "tempfile.mkstemp", "subprocess.Popen",
          "os.mkdir", "os.rename", "os.symlink", "glob.glob"}


class State:
    installed = False
    active = False
    scope = ()          # path prefixes that are "ours"
    trace = []
    fault_at = None
    crash_at = None
    fired = False


def _path_of(event, args):
    try:
        if event == "subprocess.Popen":
            return "<popen>"
        if event == "glob.glob":
            return "<glob>"
        a = args[0]
        if isinstance(a, bytes):
            a = a.decode("utf8", "replace")
        if isinstance(a, int):
            return None
        return os.path.abspath(a) if isinstance(a, str) else None
    except Exception:  # pylint: disable=broad-except
        return None


def _hook(event, args):
    st = State
    if not st.active or event not in EVENTS:
        return
    p = _path_of(event, args)
    if p is None:
        return
    if not (p.startswith("<") or any(p.startswith(s) for s in st.scope)):
        return
    if event == "open":
        mode = args[1] if len(args) > 1 else None
        kind = "open:%s" % (mode or "r")
    else:
        kind = event
    idx = len(st.trace)
    st.trace.append((kind, p))
    if st.crash_at is not None and idx == st.crash_at:
        os._exit(77)  # pylint: disable=protected-access
    if st.fault_at is not None and idx == st.fault_at:
        st.fired = True
        raise OSError(5, "injected fault at event %d (%s)" % (idx, kind))


def install():
    if not State.installed:
        sys.addaudithook(_hook)
        State.installed = True


class watching:
    """Context manager: record (and possibly fault) the audited events."""

    def __init__(self, scope, fault_at=None, crash_at=None):
        self.scope, self.fault_at, self.crash_at = tuple(scope), fault_at, crash_at

    def __enter__(self):
        install()
        State.scope, State.trace, State.fault_at, State.crash_at, State.fired = self.scope, [], self.fault_at, self.crash_at, False
        State.active = True
        return State

    def __exit__(self, *exc):
        State.active = False
        return False
