"""Honest supply chains carried out with in-toto's own tooling (in_toto_run,
in_toto_record_start/stop), a closed chain layout derived from the honest run,
one optional tamper event, and verification by the real in_toto_verify and by
the Lean model on the very files produced."""
import base64
import contextlib
import copy
import datetime
import io
import json
import logging
import os
import shutil
import subprocess
import sys
import tempfile

from harness import core, scen, tree as T, world as W
from harness.props import c09

STEPPER = os.path.join(os.path.dirname(os.path.abspath(__file__)), "stepper.py")
NAMES = [".env", "conf/.hidden", "a.txt", "src/b.c", "ünï.txt", "docs/r e.md", "empty", "lib/deep/x.py", "docs/cafe\u0301.txt", "src2/c.c", "lib.tar"]


def snapshot(d):
    """path -> bytes of every regular file (following file links), the harness's own walker."""
    out = {}
    for base, dirs, files in os.walk(d, followlinks=True):
        for f in files:
            p = os.path.join(base, f)
            if os.path.isfile(p):
                try:
                    out[os.path.relpath(p, d)] = open(p, "rb").read()
                except OSError:
                    pass        # (a file that cannot be read: tamper kind "unreadable")
    return out


# (exclude patterns given to the recording calls, rule pattern that allows the excluded files in the final
#  inspection (which records with the default patterns), a path that the patterns exclude)
EXCLUDE_SETS = [(["docs", "*.link*"], "docs/*", "docs/junk.md"), (["*.c*", "*.link*"], "*.c*", "junk.c"),
                (["lib/deep", "*.link*"], "lib/deep/*", "lib/deep/junk"),
                # root-anchored: only ./deep and ./src/.. are excluded, lib/deep/x.py must still be recorded
                (["/deep", "*.link*"], "deep/*", "deep/junk"), (["/b.c0", "/lib/x.py0", "*.link*"], "b.c0", "b.c0"),
                # directory-only (trailing slash): the directory docs/ is left out, the regular file tools/docs (created at
                # the start of such a history) is covered
                (["docs/", "*.link*"], "docs/*", "docs/junk.md"), (["docs/", "*.link*"], "docs/*", "docs/junk.md")]
LSTRIP_SETS = [["src/"], ["lib/"], ["lib/deep/"], ["src/", "docs/"], ["lib/", "deep/"], ["deep/", "lib/"], ["docs/", "r e"],
               ["nothing/", "src/"]]


def gen_opts(rng, allow_paths=False, case_no=None):
    """Recording options of one history (the same for all its steps, so that the chain rules line up). With a case
    number every exclude set and every prefix list occurs in every run (cycled through), alone and combined at random."""
    opts = {"exclude": None, "lstrip": None, "base": False, "paths": None}
    if allow_paths and rng.random() < 0.3:
        opts["paths"] = "top-level"      # the material / product lists name the top-level entries one by one (filled in later)
    if rng.random() < 0.3:
        opts["exclude"] = rng.choice(EXCLUDE_SETS)
    if rng.random() < 0.4:
        opts["lstrip"] = rng.choice(LSTRIP_SETS)
    if case_no is not None and case_no % 3 == 0:
        opts["exclude"] = EXCLUDE_SETS[(case_no // 3) % len(EXCLUDE_SETS)]
    if case_no is not None and case_no % 3 == 1:
        opts["lstrip"] = LSTRIP_SETS[(case_no // 3) % len(LSTRIP_SETS)]
    if case_no is not None and case_no % 6 == 5 and allow_paths:
        opts["paths"] = "top-level"      # (explicit path lists in every run)
    if case_no is not None and case_no % 6 == 2:
        # plain options, and the tree gets its directory links (an alias of a directory; a link whose target's path is a
        # string prefix of its host's) - in every run
        opts.update(exclude=None, lstrip=None, paths=None, dir_links=True)
    if rng.random() < 0.3:
        opts["base"] = True
    return opts


def rec_name(p, lstrip):
    """Name under which a file is recorded: the first matching prefix is stripped, once."""
    for pre in lstrip or []:
        if p.startswith(pre):
            return p[len(pre):]
    return p


def under(p, paths):
    return paths is None or any(p == x or p.startswith(x + "/") for x in paths)


def covered(snap, opts=None):
    """What a recording of '.' covers: default exclude patterns unless the history's options give others; names with
    the first matching prefix stripped.  None if two files would get the same name."""
    from pathspec import GitIgnoreSpec
    import in_toto.settings as st
    opts = opts or {}
    patterns = opts["exclude"][0] if opts.get("exclude") else st.ARTIFACT_EXCLUDE_PATTERNS
    spec = GitIgnoreSpec.from_lines("gitwildmatch", patterns)
    out = {}
    for p, c in snap.items():
        if spec.match_file(p) or any(spec.match_file(x) for x in parents(p)):
            continue
        if not under(p, opts.get("paths")):
            continue
        name = rec_name(p, opts.get("lstrip"))
        if name in out:
            return None
        out[name] = {"sha256": T.sha(c)}
    return out


def parents(p):
    parts = p.split("/")
    return ["/".join(parts[:i]) for i in range(1, len(parts))]


def gen_ops(rng, present, n):
    ops = []
    # (operations name files by their own path, not through a directory link: the link may dangle after a rename)
    present = {p for p in present if not p.startswith("alias/") and p != "alias" and "64/shared/" not in p and ":" not in p}
    for _ in range(n):
        kind = rng.choice(["create", "modify", "delete", "rename", "create", "stamp"])
        if kind == "create" or not present:
            p = rng.choice(NAMES) + str(rng.randrange(3))
            ops.append("create:%s:%s" % (p, "c%d\n" % rng.randrange(99)))
            present.add(p)
        elif kind == "modify":
            p = rng.choice(sorted(present))
            ops.append("modify:%s:%s" % (p, "m%d\n" % rng.randrange(99)))
        elif kind == "stamp":
            ops.append("stamp:" + rng.choice(sorted(present)))
        elif kind == "delete":
            p = rng.choice(sorted(present))
            ops.append("delete:" + p)
            present.discard(p)
        else:
            p = rng.choice(sorted(present))
            q = p + ".r"
            if q in present:
                continue
            ops.append("rename:%s:%s" % (p, q))
            present.discard(p); present.add(q)
    if rng.random() < 0.3:
        ops.append("echo:hello %d" % rng.randrange(9))
    if rng.random() < 0.2:
        ops.append("progress:hello %d" % rng.randrange(9))      # output ending in a bare carriage return
    if rng.random() < 0.15:
        ops.append("accent:%d" % rng.randrange(9))              # both streams, each split inside a two-byte character
    return ops, present


TAMPERS = [None, None, "edit", "add", "delete", "rename", "rewrite", "excluded", "link_edit", "link_swap", "link_remove", "link_forge", "eol", "unreadable"]


def apply_file_tamper(rng, work, kind, opts=None):
    snap = covered(snapshot(work), dict(opts or {}, lstrip=None))
    files = sorted(p for p in snap if not p.startswith("alias/") and "64/shared/" not in p)
    if kind == "add":
        where = ""
        if opts and opts.get("paths"):
            # below a recorded directory - preferably one whose name extends another recorded entry's name
            dirs = [d for d in opts["paths"] if os.path.isdir(os.path.join(work, d))]
            if not dirs:
                return False
            look = [d for d in dirs if any(d != o and d.startswith(o) for o in opts["paths"])]
            where = rng.choice(look or dirs) + "/"
        with open(os.path.join(work, where + "injected.bin"), "w") as f:
            f.write("evil\n")
        return True
    if kind == "unreadable":
        # a file is added that exists and cannot be read (an I/O error on read, for every user): the final product differs
        # from what the last step recorded, whether or not the verifier manages to hash the file
        if not os.path.exists("/proc/self/mem"):
            return False
        os.symlink("/proc/self/mem", os.path.join(work, "dropped.bin"))
        return True
    if kind == "excluded":
        junk = opts["exclude"][2] if opts and opts.get("exclude") else "cache.pyc"
        os.makedirs(os.path.dirname(os.path.join(work, junk)), exist_ok=True)
        with open(os.path.join(work, junk), "w") as f:
            f.write("x")
        return True
    if not files:
        return False
    p = os.path.join(work, rng.choice(files))
    if kind == "edit":
        with open(p, "a") as f:
            f.write("tampered")
    elif kind == "delete":
        os.remove(p)
    elif kind == "rename":
        import unicodedata
        other = [f for f in (unicodedata.normalize("NFC", p), unicodedata.normalize("NFD", p)) if f != p]
        if other and not os.path.exists(other[0]) and rng.random() < 0.7:
            os.rename(p, other[0])        # the same name in the other Unicode normalisation form: another file name
        else:
            os.rename(p, p + ".moved")
    elif kind == "eol":
        # nothing but the line endings changes (LF -> CR LF, or a bare CR): other bytes, another file - line endings are
        # only set aside when the recording was asked to normalise them, which these histories never ask for
        data = open(p, "rb").read()
        new = data.replace(b"\r\n", b"\n").replace(b"\n", rng.choice([b"\r\n", b"\r"]))
        if new == data:
            new = data + b"\r\n"
        with open(p, "wb") as f:
            f.write(new)
    elif kind == "rewrite":
        data = open(p, "rb").read()
        os.remove(p)
        with open(p, "wb") as f:
            f.write(data)
    return True


class Honest:
    """One history. After `carry_out`: link files in root/links, final tree in
    root/work, the layout content, keys, and per step the before/after snapshots."""

    def __init__(self, rng, root):
        self.rng, self.root = rng, root
        self.work = os.path.join(root, "work")
        self.links = os.path.join(root, "links")
        self.steps = []
        self.tamper = None
        self.tamper_applied = False

    def carry_out(self, n_steps, tamper, tamper_at, opts=None):
        import in_toto.runlib as rl
        logging.getLogger("in_toto").setLevel(logging.CRITICAL)
        rng = self.rng
        os.makedirs(self.work); os.makedirs(self.links)
        pool = W.pool()
        self.owner = rng.choice(pool)
        init, present = gen_ops(rng, [], rng.randrange(1, 4))
        subprocess.run([sys.executable, "-B", STEPPER] + init, cwd=self.work, check=True, capture_output=True)
        opts = self.opts = opts or {"exclude": None, "lstrip": None, "base": False, "paths": None}
        opts.setdefault("paths", None)
        if opts["paths"] == "top-level":
            # make sure two entries share a name prefix: a directory and a sibling whose name extends it
            pair = rng.choice([["create:src/b.c0:b\n", "create:src2/c.c0:c\n"], ["create:lib/deep/x.py0:x\n", "create:lib.tar0:t\n"]])
            # (... and a file whose name contains a bracket expression: listed by name it is that file, not a pattern)
            pair = pair + ["create:notes[1].txt:n\n", "create:notes1.txt:other\n"]
            # (... and one whose name contains a colon: a plain path, not a URI of some scheme)
            with open(os.path.join(self.work, "image:v1.tar"), "w") as f_:
                f_.write("img\n")
            present = set(present) | {"image:v1.tar"}
            subprocess.run([sys.executable, "-B", STEPPER] + pair, cwd=self.work, check=True, capture_output=True)
            present = set(present) | {o.split(":")[1] for o in pair}
            # directories first, then files: "src" before "src2", "lib" before "lib.tar"
            tops = sorted({p.split("/")[0] for p in present}, key=lambda n_: (not os.path.isdir(os.path.join(self.work, n_)), n_))
            opts["paths"] = tops if len(tops) >= 2 else None
        if opts["exclude"] and opts["exclude"][0][0].endswith("/"):
            extra = ["create:tools/%s:#!/bin/sh\n" % opts["exclude"][0][0].rstrip("/"), "create:docs/guide.md0:g\n"]
            subprocess.run([sys.executable, "-B", STEPPER] + extra, cwd=self.work, check=True, capture_output=True)
            present = set(present) | {o.split(":")[1] for o in extra}
            if isinstance(opts["paths"], list) and "tools" not in opts["paths"]:
                opts["paths"] = opts["paths"] + ["tools"]
        plist = list(opts["paths"]) if opts["paths"] else ["."]
        if present and (rng.random() < 0.3 or opts.get("dir_links")) and not opts["exclude"]:
            # (not with custom exclude patterns: a directory link would make an excluded file reachable under a
            # second, not excluded, name, and the history would no longer be an honest one)
            os.symlink(sorted(present)[0].split("/")[0], os.path.join(self.work, "alias"))
        if present and (rng.random() < 0.3 or opts.get("dir_links")) and not opts["exclude"] and not opts["lstrip"] and not opts["paths"]:
            # a directory link whose target's path is a string prefix of the path of the directory it lies in
            # (lib64/shared -> ../lib): no cycle, and everything behind it belongs to the recording
            d0 = sorted(present)[0].split("/")[0]
            if os.path.isdir(os.path.join(self.work, d0)) and not os.path.exists(os.path.join(self.work, d0 + "64")):
                os.makedirs(os.path.join(self.work, d0 + "64"))
                with open(os.path.join(self.work, d0 + "64", "own.txt"), "w") as f_:
                    f_.write("own\n")
                os.symlink("../" + d0, os.path.join(self.work, d0 + "64", "shared"))
        cwd = os.getcwd()
        kw = {}
        if opts["exclude"]:
            kw["exclude_patterns"] = list(opts["exclude"][0])
        if opts["lstrip"]:
            kw["lstrip_paths"] = list(opts["lstrip"])
        if opts["base"]:
            # (relative, like the metadata directory below: the tools are called from the history's root)
            kw["base_path"] = rng.choice([self.work, "work", "work"])
        links_arg = rng.choice([self.links, "links"]) if opts["base"] else self.links
        file_tampers = ("edit", "add", "delete", "rename", "rewrite", "excluded", "eol", "unreadable")
        if tamper == "unreadable":
            tamper_at = n_steps          # (in the final product: the steps themselves are carried out honestly)
        try:
            # with a base path the tools are called from another directory; the command changes into the tree itself
            os.chdir(self.root if opts["base"] else self.work)
            for i in range(n_steps):
                if tamper in file_tampers and tamper_at == i:
                    self.tamper_applied = apply_file_tamper(rng, self.work, tamper, opts)
                gpg = W.gpg_available() and (rng.random() < float(os.environ.get("VERIF_GPG_RATE", "0.12")) or
                                             (opts.get("force_gpg") and i == min(tamper_at, n_steps - 1)))
                k = W.gpg_key(rng.choice(["no_sub", "no_sub2", "one_sub"])) if gpg else rng.choice([x for x in pool if x is not self.owner])
                # the key id the signature carries (and the link file is named after): the key's own, or - for a gpg key
                # with a signing subkey - that subkey's
                sig_kid = k.keyid
                if gpg:
                    subs = [x for x in (k.pub.get("subkeys") or {}) if x in W.SIGNING_SUBKEYS]
                    if subs:
                        sig_kid = subs[0]
                # sometimes the step authorises a second functionary, listed first, who does not take part
                extra = None
                if rng.random() < 0.1 or (tamper == "link_forge" and i == n_steps - 1):
                    extra = rng.choice([x for x in pool if x is not self.owner and x is not k])
                # gpg accepts a key id in upper case and as the 16-digit long id: the same key, the same signature
                spell = rng.choice([str, str, str.upper, lambda x: x[-16:], lambda x: x[-16:].upper()])
                sign_kw = {"gpg_keyid": spell(k.gpg_id), "gpg_home": k.gpg_home} if gpg else {"signer": k.signer}
                dsse = (not gpg) and rng.random() < 0.5
                ops, present = gen_ops(rng, covered(snapshot(self.work), dict(opts, lstrip=None)), rng.randrange(1, 4))
                cmd = [sys.executable, "-B", STEPPER] + (["cd:" + self.work] if opts["base"] else []) + ops
                name = "step%d" % i
                mode = rng.choice(["run", "run", "record", "run_no_command"])
                if mode == "run_no_command":
                    cmd = []
                streams = rng.random() < 0.4
                before = snapshot(self.work)
                if opts["base"] and rng.random() < 0.25:
                    # an attempt that fails while recording (an artifact that cannot be resolved), handled by the caller,
                    # right before the honest call - in the same process, from the same place
                    try:
                        with contextlib.redirect_stdout(io.StringIO()), contextlib.redirect_stderr(io.StringIO()):
                            rl.in_toto_run("attempt", plist + ["ostree:no-such-repo@ref"], [], [], **sign_kw, metadata_directory=links_arg, **kw)
                    except Exception:  # pylint: disable=broad-except
                        self.failed_attempts = getattr(self, "failed_attempts", 0) + 1
                with contextlib.redirect_stdout(io.StringIO()), contextlib.redirect_stderr(io.StringIO()):
                    if mode != "record":
                        # (a generous time limit: the step command is a Python process and the machine may be busy)
                        md = rl.in_toto_run(name, plist, plist, cmd, record_streams=streams, use_dsse=dsse, timeout=120, **sign_kw,
                                            metadata_directory=links_arg, compact_json=rng.random() < 0.3,
                                            record_environment=rng.random() < 0.3, **kw)
                    else:
                        rl.in_toto_record_start(name, plist, use_dsse=dsse, **sign_kw, **kw)
                        subprocess.run(cmd, check=True, capture_output=True)
                        rl.in_toto_record_stop(name, plist, metadata_directory=links_arg, **sign_kw, **kw)
                        md = None
                after = snapshot(self.work)
                self.steps.append({"name": name, "key": k, "extra": extra, "dsse": dsse, "mode": mode, "streams": streams, "cmd": cmd,
                                   "before": before, "after": after, "returned": md, "sig_keyid": sig_kid,
                                   "gpg_keyid_as_given": sign_kw.get("gpg_keyid"),
                                   # in_toto_run names the file after the key id in the signature, record stop after the
                                   # key it was given (both are found by the verifier: it looks under the ids of an
                                   # authorised key and of its subkeys)
                                   "file": os.path.join(self.links, "%s.%s.link" % (name, (k.keyid if mode == "record" else sig_kid)[:8]))})
            if tamper in file_tampers and tamper_at >= n_steps:
                self.tamper_applied = apply_file_tamper(rng, self.work, tamper, opts)
            if tamper == "link_forge":
                # the final product is edited, and a link for the last step that matches the edited tree - signed by a
                # key the layout does not know - is dropped under the file name of the step's first-listed functionary
                st = self.steps[-1]
                if apply_file_tamper(rng, self.work, "edit", opts):
                    from in_toto.models.metadata import Metadata, Metablock, Envelope
                    genuine = Metadata.load(st["file"])
                    pl = genuine.get_payload()
                    pl.products = covered(snapshot(self.work), opts)
                    forged = Envelope.from_signable(pl) if st["dsse"] else Metablock(signed=pl)
                    stranger = [x for x in pool if x is not self.owner and x is not st["key"] and x is not st["extra"]][0]
                    forged.create_signature(stranger.signer)
                    forged.dump(os.path.join(self.links, "%s.%s.link" % (st["name"], st["extra"].keyid[:8])))
                    self.tamper_applied = True
        finally:
            os.chdir(cwd)
        # link tampers
        if tamper and tamper.startswith("link_") and tamper != "link_forge":
            st = self.steps[min(tamper_at, n_steps - 1)]
            if tamper == "link_remove":
                os.remove(st["file"])
            elif tamper == "link_edit":
                c = json.load(open(st["file"]))
                c = scen.apply_tamper(c, "content_fixed", rng, W.SigTable())
                json.dump(c, open(st["file"], "w"))
            else:
                stranger = [x for x in pool if x is not self.owner and x is not st["key"]][0]
                from in_toto.models.metadata import Metadata
                md = Metadata.load(st["file"])
                md.signatures = []
                md.create_signature(stranger.signer)
                md.dump(st["file"])      # same file name, signed by a functionary not authorised for the step
            self.tamper_applied = True
        self.tamper = tamper
        return self

    def layout(self):
        """Closed chain layout consistent with the honest run (artifact names as the recording options produce them)."""
        steps, keys = [], {}
        prev = None
        opts = self.opts
        for st in self.steps:
            k = st["key"]
            keys[k.keyid] = k.pub
            pubkeys = [k.keyid]
            if st.get("extra") is not None:
                keys[st["extra"].keyid] = st["extra"].pub
                pubkeys = [st["extra"].keyid, k.keyid]
            prods = covered(st["after"], opts)
            mats = []
            if prev is not None:
                mats += [["REQUIRE", p] for p in sorted(covered(prev["after"], opts))]
                mats += [["MATCH", "*", "WITH", "PRODUCTS", "FROM", prev["name"]]]
            else:
                mats += [["ALLOW", "*"]]
            mats += [["DISALLOW", "*"]]
            prules = [["REQUIRE", p] for p in sorted(prods)] + [["ALLOW", "*"], ["DISALLOW", "*"]]
            steps.append(W.step_payload(st["name"], pubkeys, 1, mats, prules, st["cmd"]))
            prev = st
        last = self.steps[-1]
        # the inspection records '.' in the final tree with the default patterns and without prefix stripping
        final_plain = covered(last["after"], dict(opts, lstrip=None))
        insp_rules = [["REQUIRE", p] for p in sorted(final_plain)]
        for pre in opts["lstrip"] or []:
            insp_rules.append(["MATCH", "*", "IN", pre, "WITH", "PRODUCTS", "FROM", last["name"]])
        insp_rules.append(["MATCH", "*", "WITH", "PRODUCTS", "FROM", last["name"]])
        if opts["exclude"]:
            insp_rules.append(["ALLOW", opts["exclude"][1]])
        if opts["paths"]:
            insp_rules.append(["ALLOW", "*"])        # the inspection sees the whole tree, the steps recorded the listed paths only
        insp_rules.append(["DISALLOW", "*"])
        self.insp_cmd = [sys.executable, "-B", STEPPER, "echo:inspect"]
        insp = [W.inspection_payload("final-check", self.insp_cmd, insp_rules, [["ALLOW", "*"]])]
        return W.layout_payload(steps, insp, keys, "2031-01-01T00:00:00Z")

    def scenario(self):
        """Scenario for the model + the real verifier, built from the files in-toto wrote."""
        scn = W.Scenario()
        scn.root = self.root
        payload = self.layout()
        scn.layout = W.wrap(payload, self.rng.choice(["metablock", "dsse"]), [self.owner], scn.table)
        scn.keys = {self.owner.keyid: self.owner.pub}
        pool = W.pool() + [st["key"] for st in self.steps if st["key"].kind == "gpg"]
        for f in sorted(os.listdir(self.links)):
            content = json.load(open(os.path.join(self.links, f)))
            scn.files["links/" + f] = content
            t, _ = c09.table_from_file(content, pool)
            scn.table.rows += t.rows
        final = covered(snapshot(self.work))
        rec = [[p, [["sha256", h["sha256"]]]] for p, h in sorted(final.items())]
        scn.insp = [[self.insp_cmd, {"exit": "0", "materials": rec, "products": rec}]]
        return scn

    def verify_impl(self, scn):
        """in_toto_verify in the final tree (cwd = work)."""
        import in_toto.verifylib as vl
        from in_toto.models.metadata import Metadata
        import attr
        lp = os.path.join(self.root, "root.layout")
        json.dump(scn.layout, open(lp, "w"))
        cwd = os.getcwd()
        shim = W._ClockShim(scn.now)  # pylint: disable=protected-access
        old = vl.datetime
        try:
            os.chdir(self.work)
            vl.datetime = shim
            with contextlib.redirect_stdout(io.StringIO()), contextlib.redirect_stderr(io.StringIO()):
                try:
                    md = Metadata.load(lp)
                    s = vl.in_toto_verify(md, scn.keys, link_dir_path=self.links, persist_inspection_links=False, inspect_timeout=60)
                    return {"load": "ok", "result": {"ok": W.canon(attr.asdict(s))}, "log": []}
                except Exception as e:  # pylint: disable=broad-except
                    return {"load": "ok", "result": {"err": W.exc_class(e)}, "log": []}
        finally:
            vl.datetime = old
            os.chdir(cwd)
