"""Inspection helper: append an id to an append-only log, then exit 0 / n,
touch a file, or sleep. argv: logpath id action"""
import os
import sys
import time

log, ident, action = sys.argv[1], sys.argv[2], sys.argv[3]
with open(log, "a", encoding="utf8") as f:
    f.write(ident + "\n")
if action.startswith("exit"):
    sys.exit(int(action[4:] or 0))
if action.startswith("touch:"):
    with open(action[6:], "w", encoding="utf8") as f:
        f.write("touched\n")
    sys.exit(0)
if action == "sleep":
    # longer than the limit the harness sets (3 s), shorter than in-toto's default limit (10 s):
    # a time limit that is not passed on (e.g. into a sublayout) lets this command finish.
    # The command does not end when asked politely (SIGTERM is ignored): a time limit is enforced, not requested. If it
    # gets to the end of its sleep it says so in <log>.late.
    import signal
    signal.signal(signal.SIGTERM, signal.SIG_IGN)
    time.sleep(8.5)
    with open(log + ".late", "a", encoding="utf8") as f:
        f.write(ident + "\n")
sys.exit(0)
