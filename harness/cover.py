"""Which lines of in-toto the correspondence run executed.

The correspondence ties the model to the code only where it runs the code. This module records, with Python 3.12's
`sys.monitoring` (every location reports once and is then switched off, so the cost is negligible), the set of lines of
`<repo>/in_toto/**` executed inside the worker processes of a check, and relates it to the functions the property is
anchored in (`properties.jsonl`, `anchors.mechanism[].where`, resolved by *name* in the current tree, so line shifts do
not matter). The figures go into the evidence. They never raise an alarm: a line that was not executed is a place where
the correspondence says nothing, which the evidence then states instead of hiding it.
"""
import json
import os
import re
import sys

TOOL_ID = 4          # a free tool id (0 debugger, 1 coverage, 2 profiler, 5 optimizer are reserved names)
_lines = set()
_prefix = None
_on = False


def start(repo):
    """Begin recording; inherited by forked workers. Silently does nothing when monitoring is unavailable."""
    global _prefix, _on  # pylint: disable=global-statement
    mon = getattr(sys, "monitoring", None)
    if mon is None or _on:
        return _on
    _prefix = os.path.join(os.path.realpath(repo), "in_toto") + os.sep
    try:
        mon.use_tool_id(TOOL_ID, "verif-cover")
    except ValueError:
        return False

    def on_line(code, line):
        fn = code.co_filename
        if fn.startswith(_prefix):
            _lines.add((fn[len(_prefix):], line))
        else:
            rp = os.path.realpath(fn)
            if rp.startswith(_prefix):
                _lines.add((rp[len(_prefix):], line))
        return mon.DISABLE

    mon.register_callback(TOOL_ID, mon.events.LINE, on_line)
    mon.set_events(TOOL_ID, mon.events.LINE)
    _on = True
    return True


def snapshot():
    """Lines seen so far in this process (including what it inherited from its parent at fork time)."""
    return set(_lines)


# --------------------------------------------------------------------------
# executable lines per function of the current tree


def _walk_code(code, out, parent_first=None):
    lines = set()
    for _s, _e, ln in code.co_lines():
        if ln is not None and ln != code.co_firstlineno:
            lines.add(ln)
    # a def / class statement line belongs to the enclosing code object; keep it there
    out[getattr(code, "co_qualname", code.co_name)] = out.get(getattr(code, "co_qualname", code.co_name), set()) | lines
    for c in code.co_consts:
        if hasattr(c, "co_lines"):
            _walk_code(c, out)


def executable_lines(repo):
    """{relative file: {qualname: set(lines)}} for every module under <repo>/in_toto."""
    base = os.path.join(repo, "in_toto")
    res = {}
    for root, _d, files in os.walk(base):
        for f in sorted(files):
            if not f.endswith(".py"):
                continue
            path = os.path.join(root, f)
            try:
                src = open(path, encoding="utf8").read()
                code = compile(src, path, "exec")
            except (OSError, SyntaxError, ValueError):
                continue
            out = {}
            _walk_code(code, out)
            res[os.path.relpath(path, base)] = out
    return res


PINNED = "0809e31"     # the commit the anchors' line numbers refer to


def _pinned_source(repo, rel):
    import subprocess
    try:
        p = subprocess.run(["git", "-C", repo, "show", "%s:in_toto/%s" % (PINNED, rel)], stdout=subprocess.PIPE,
                           stderr=subprocess.DEVNULL, text=True, check=False)
        if p.returncode == 0 and p.stdout:
            return p.stdout
    except OSError:
        pass
    try:
        return open(os.path.join(repo, "in_toto", rel), encoding="utf8").read()
    except OSError:
        return ""


def _functions_in_range(src, lo, hi):
    """Qualified names of the functions (not class bodies, not nested helpers) whose body overlaps lines lo..hi."""
    try:
        code = compile(src, "<anchor>", "exec")
    except (SyntaxError, ValueError):
        return []
    found = []

    def walk(c):
        for k in c.co_consts:
            if not hasattr(k, "co_lines"):
                continue
            q = getattr(k, "co_qualname", k.co_name)
            ls = [ln for _s, _e, ln in k.co_lines() if ln is not None]
            is_func = bool(k.co_flags & 0x1)           # CO_OPTIMIZED: a function body
            if ls and is_func and "<locals>" not in q and not (max(ls) < lo or min(ls) > hi):
                found.append(q)
            elif ls and not is_func:
                walk(k)                                 # class body: look at its methods
    walk(code)
    return found


def anchored_functions(prop_row, repo=None):
    """[(relative file under in_toto/, function name)] from a properties.jsonl row: names written in the anchor, and for
    anchors that give only line ranges the functions found there in the pinned source."""
    found = []
    for mech in (prop_row.get("anchors") or {}).get("mechanism") or []:
        where = mech.get("where") or ""
        parts = re.split(r"(?=in_toto/[\w/]+\.py:)", where)
        for part in parts:
            m = re.match(r"in_toto/([\w/]+\.py):([\d\-, ]+)(.*)", part, re.S)
            if not m:
                continue
            rel, ranges, tail = m.group(1), m.group(2), m.group(3)
            names = [n for n in re.findall(r"[A-Za-z_][\w.]*", tail) if n not in ("and", "or", "in", "of", "the")]
            names = [n for n in names if not n.isupper()]          # module-level constants have no code of their own
            if not names and repo:
                src = _pinned_source(repo, rel)
                for r in re.findall(r"(\d+)(?:-(\d+))?", ranges):
                    lo = int(r[0]); hi = int(r[1] or r[0])
                    names += _functions_in_range(src, lo, hi)
            if not names:
                found.append((rel, None))
            for n in names:
                found.append((rel, n))
    seen, out = set(), []
    for x in found:
        if x not in seen:
            seen.add(x)
            out.append(x)
    return out


def _match_quals(quals, name):
    """Code objects that make up the function `name` (its own body and everything nested in it)."""
    hit = []
    for q in quals:
        if q == name or q.endswith("." + name) or q.startswith(name + ".") or ("." + name + ".") in q:
            hit.append(q)
    return hit


def report(repo, prop_row, lines, src_cap=40):
    """Coverage of the property's anchored functions and of their files by the recorded lines."""
    ex = executable_lines(repo)
    by_file = {}
    for rel, ln in lines:
        by_file.setdefault(rel, set()).add(ln)
    funcs, unc_total, tot, cov = [], [], 0, 0
    files_seen = []
    for rel, name in anchored_functions(prop_row, repo):
        if rel not in ex:
            continue
        if rel not in files_seen:
            files_seen.append(rel)
        if name is None:
            continue
        quals = _match_quals(ex[rel], name)
        if not quals:
            funcs.append({"function": "%s:%s" % (rel, name), "note": "not found by name in the current tree"})
            continue
        want = set()
        for q in quals:
            want |= ex[rel][q]
        got = want & by_file.get(rel, set())
        missing = sorted(want - got)
        tot += len(want)
        cov += len(got)
        entry = {"function": "%s:%s" % (rel, name), "executable_lines": len(want), "executed": len(got)}
        if missing:
            entry["not_executed"] = missing[:src_cap]
            try:
                src = open(os.path.join(repo, "in_toto", rel), encoding="utf8").read().splitlines()
                entry["not_executed_text"] = [src[i - 1].strip()[:100] for i in missing[:12]]
            except OSError:
                pass
            unc_total += [(rel, i) for i in missing]
        funcs.append(entry)
    file_rows = []
    for rel in files_seen:
        want = set()
        for q, ls in ex[rel].items():
            if q != "<module>":
                want |= ls
        got = want & by_file.get(rel, set())
        file_rows.append({"file": "in_toto/" + rel, "executable_lines_in_functions": len(want), "executed": len(got)})
    return {
        "what": "lines of in-toto executed inside this check's worker processes (sys.monitoring); anchored functions resolved by name in the current tree",
        "anchored_functions": funcs,
        "anchored_lines": tot,
        "anchored_lines_executed": cov,
        "anchor_files": file_rows,
    }


def load_property(here, prop):
    for line in open(os.path.join(here, "properties.jsonl"), encoding="utf8"):
        row = json.loads(line)
        if row.get("id") == prop:
            return row
    return {}
