"""Random honest supply-chain scenarios (the base every verification-pipeline
property mutates) and the implementation/model comparison."""
import copy
import datetime
import hashlib
import json
import os
import shutil
import tempfile

from harness import core, world as W

STAGE_CLASSES = {"SignatureVerificationError", "LayoutExpiredError", "LinkNotFoundError",
                 "ThresholdVerificationError", "RuleVerificationError", "BadReturnValueError",
                 "TimeoutExpired"}
NAMED = STAGE_CLASSES | {"FormatError", "KeyError", "IndexError", "ValueError", "AttributeError",
                         "KeyExpirationError", "InvalidMetadata", "RecursionError", "OSError",
                         "TypeError"}


def sha(data):
    return hashlib.sha256(data).hexdigest()


def rec(files):
    return {p: {"sha256": sha(d)} for p, d in files.items()}


def expiry_str(dt):
    return dt.strftime("%Y-%m-%dT%H:%M:%SZ")


class Chain:
    """Ground truth of a (possibly nested) supply chain: per step the authorised
    key ids, threshold, rules and an explicit list of link specs."""

    def __init__(self):
        self.steps = []        # dicts: name, keys [K], pubkeys [ids], threshold, materials, products, links [spec], rules
        self.owners = []
        self.layout_fmt = "metablock"
        self.inspections = []  # dicts: name, ident, action, rules_m, rules_p, run
        self.expires = None
        self.layout_keys = {}  # key store of the layout: keyid -> pub
        self.closed = True
        self.readme = ""
        self.final = {}


def link_spec(k, fmt, name, materials, products, signer=None, kid=None, tamper=None, sub=None):
    """One file in a link directory: stored under key id `kid` (default the
    functionary's), signed by `signer` (default the functionary), format, tamper
    kind, and optionally a sublayout (Chain) instead of a link."""
    return {"k": k, "kid": kid or k.keyid, "signer": signer if signer is not None else k, "fmt": fmt,
            "name": name, "materials": materials, "products": products, "tamper": tamper, "sub": sub}


def gen_states(rng, n_steps, first, final):
    states = [dict(first)]
    cur = dict(first)
    for i in range(n_steps):
        if i == n_steps - 1:
            cur = dict(final)
        else:
            cur = dict(cur)
            cur["gen%d" % i] = b"gen %d\n" % rng.randrange(1000)
            if rng.random() < 0.5 and "README" in cur:
                cur["README"] = b"hi %d\n" % i
            if rng.random() < 0.3 and "src/a.c" in cur:
                del cur["src/a.c"]
        states.append(dict(cur))
    return states


LOOKALIKE_NAMES = ["b", "b-docs", "ab", "b2"]
# names that contain one another; names that differ in letter case only; names that differ in Unicode normalisation form
# only (all distinct strings, distinct file names on this file system, distinct steps)
LOOKALIKE_SETS = [LOOKALIKE_NAMES, LOOKALIKE_NAMES, ["build", "Build", "BUILD", "bUild"], ["caf\u00e9", "cafe\u0301", "CAF\u00c9", "cafe"]]


def gen_chain(rng, root, n_steps=None, allow_gpg=False, fmt_mode="mixed", n_insp=None,
              thresholds=(1, 1, 1, 2), max_funcs=3, owners=None, first=None, final=None,
              exclude=(), prefix="s", depth=0, sub_prob=0.0):
    pool = W.pool()
    ch = Chain()
    n_steps = n_steps if n_steps is not None else rng.randrange(1, 4)
    if owners is None:
        owners = rng.sample([k for k in pool if k not in exclude], rng.choice([1, 1, 2]))
    ch.owners = owners
    funcs_pool = [k for k in pool if k not in owners]
    ch.layout_fmt = pick_fmt(rng, fmt_mode)
    ch.readme = rng.choice(["", "", "", "Caf\u00e9 pipeline", "cafe\u0301 (decomposed)"])
    if final is None:
        final = {"foo": b"foo-%d\n" % rng.randrange(100), "sub/bar": b"bar\n"}
        if rng.random() < 0.3:
            final["\u00fcn\u00ef.txt"] = "\u00e9\n".encode("utf8")
        if rng.random() < 0.25:
            # a name in decomposed form (as some file systems and tools hand them out): another string than its composed
            # spelling, in a file name, in signed bytes, everywhere
            final["docs/cafe\u0301.txt"] = b"c\n"
    if first is None:
        first = {"src/a.c": b"int a;\n", "README": b"hi\n"}
    states = gen_states(rng, n_steps, first, final)
    lookalike = rng.random() < 0.3
    look_names = rng.choice(LOOKALIKE_SETS)
    for i in range(n_steps):
        nf = rng.randrange(1, max_funcs + 1)
        keys = rng.sample(funcs_pool, nf)
        thr = min(rng.choice(thresholds), nf)
        # sometimes step names that contain one another ("b", "b-docs", "ab"): a name comparison that is not an exact
        # equality (prefix, substring, truncation) then confuses the steps
        name = "%s%s" % (prefix, look_names[i % len(look_names)]) if lookalike else "%s%d" % (prefix, i)
        links = []
        for k in keys:
            sub = None
            if depth > 0 and rng.random() < sub_prob:
                sub = gen_chain(rng, root, n_steps=rng.choice([1, 2]), fmt_mode=fmt_mode, n_insp=rng.choice([0, 0, 1]),
                                thresholds=(1,), max_funcs=2, owners=[k], first=states[i], final=states[i + 1],
                                prefix=name + k.keyid[:3] + "x", depth=depth - 1, sub_prob=sub_prob)
            links.append(link_spec(k, pick_fmt(rng, fmt_mode), name, rec(states[i]), rec(states[i + 1]), sub=sub))
        ch.steps.append({"name": name, "keys": keys, "pubkeys": [k.keyid for k in keys], "threshold": thr,
                         "materials": rec(states[i]), "products": rec(states[i + 1]), "links": links})
        for k in keys:
            ch.layout_keys[k.keyid] = k.pub
    n_insp = n_insp if n_insp is not None else rng.choice([0, 0, 1, 1, 2])
    for j in range(n_insp):
        ch.inspections.append({"name": "%sinsp%d" % (prefix, j), "ident": "%si%d" % (prefix, j), "action": "exit0"})
    ch.expires = datetime.datetime(2031, 1, 1, 0, 0, 0, tzinfo=datetime.timezone.utc)
    ch.closed = rng.random() < 0.7
    ch.final = final
    return ch


def pick_fmt(rng, mode):
    if mode == "metablock":
        return "metablock"
    if mode == "dsse":
        return "dsse"
    return rng.choice(["metablock", "dsse"])


def step_rules(ch, i):
    mats, prods = [], []
    if i > 0:
        mats.append(["MATCH", "*", "WITH", "PRODUCTS", "FROM", ch.steps[i - 1]["name"]])
    else:
        mats.append(["ALLOW", "*"])
    if ch.closed:
        mats.append(["DISALLOW", "*"])
    for p in sorted(ch.steps[i]["products"])[:2]:
        prods.append(["REQUIRE", p])
    prods += [["ALLOW", "*"]]
    if ch.closed:
        prods.append(["DISALLOW", "*"])
    return mats, prods


def build_layout_payload(ch, root):
    steps = []
    for i, s in enumerate(ch.steps):
        mats, prods = s.get("rules") or step_rules(ch, i)
        steps.append(W.step_payload(s["name"], s["pubkeys"], s["threshold"], mats, prods,
                                    s.get("expected_command")))
    insp = []
    for ins in ch.inspections:
        rules_m = ins.get("rules_m")
        if rules_m is None:
            rules_m = [["MATCH", "*", "WITH", "PRODUCTS", "FROM", ch.steps[-1]["name"]]] if ch.steps else []
            rules_m += [["ALLOW", "*"]]
        insp.append(W.inspection_payload(ins["name"], ins.get("run") or W.insp_command(root, ins["ident"], ins["action"]),
                                         rules_m, ins.get("rules_p", [["ALLOW", "*"]])))
    return W.layout_payload(steps, insp, dict(ch.layout_keys), W_expiry(ch), ch.readme)


def W_expiry(ch):
    return ch.expires if isinstance(ch.expires, str) else expiry_str(ch.expires)


def apply_tamper(content, tamper, rng, table):
    """Tamper kinds of C02: content edit after signing, signature edit,
    unsigned, signature of another key family, float injected."""
    import base64
    if tamper is None:
        return content
    c = copy.deepcopy(content)
    if tamper == "unloadable_text":
        # a file under the right name whose TEXT cannot be loaded at all: cut off in the middle, empty, not JSON, or
        # (an envelope) a payload that is not base64. Loading fails; nothing quietly steps over such a file.
        text = json.dumps(c)
        kinds = ["cut", "empty", "not_json", "empty_object"] + (["payload_not_base64", "payload_type_other"] if "payload" in c else [])
        kind = rng.choice(kinds)
        if kind == "payload_not_base64":
            c["payload"] = c["payload"][:7] + "!" + c["payload"][7:]
            return c
        if kind == "payload_type_other":      # an envelope around something that is not in-toto metadata
            c["payloadType"] = "application/vnd.example+json"
            return c
        if kind == "empty_object":            # JSON, but neither of the two containers
            return {}
        return {"cut": text[:len(text) // 2], "empty": "", "not_json": "{not json"}[kind]
    if tamper == "content":
        r = edit_payload_leaf(c, rng)
        return r[0] if r else c
    if tamper == "content_fixed":
        # format-independent content edit: the readme / command of the payload
        if "signed" in c:
            body = c["signed"]
        else:
            body = json.loads(base64.b64decode(c["payload"]))
        if body.get("_type") == "layout":
            body["readme"] = body.get("readme", "") + " edited"
        else:
            body["command"] = list(body.get("command") or []) + ["edited"]
        if "signed" not in c:
            c["payload"] = base64.b64encode(json.dumps(body, sort_keys=True).encode()).decode()
        return c
    if tamper == "sig":
        if c.get("signatures"):
            s = c["signatures"][0]
            if "payload" in c:
                raw = bytearray(base64.b64decode(s["sig"])); raw[len(raw) // 2] ^= 4
                s["sig"] = base64.b64encode(bytes(raw)).decode()
            else:
                f = "signature" if "signature" in s else "sig"
                if rng.random() < 0.5:
                    # damaged into something that is not a hex string at all (blanked, overwritten, cut to an odd
                    # length): a value that verifies for nobody - the file must merely not count. (Not white space around
                    # the digits: hex decoding skips it, the value is the same bytes.)
                    v = s[f]
                    s[f] = rng.choice(["", "zz" + v[2:], v[:-1], "0x" + v, v[:len(v) // 2] + "--" + v[len(v) // 2:]])
                else:
                    s[f] = mutate_scalar(s[f], rng, hex_case=False)
        return c
    if tamper == "unsigned":
        c["signatures"] = []
        return c
    if tamper == "other_family":
        # a gpg-shaped signature under a non-gpg key id, or the reverse
        for s in c.get("signatures", []):
            if "payload" in c:
                continue
            if "other_headers" in s:
                val = s.pop("signature"); s.pop("other_headers"); s["sig"] = val
            else:
                s["signature"] = s.pop("sig"); s["other_headers"] = "04000108001d1621"
        return c
    if tamper == "float":
        if "signed" in c:
            c["signed"]["byproducts"] = dict(c["signed"].get("byproducts") or {}, elapsed=1.5)
        else:
            body = json.loads(base64.b64decode(c["payload"]))
            body["byproducts"] = dict(body.get("byproducts") or {}, elapsed=1.5)
            c["payload"] = base64.b64encode(json.dumps(body, sort_keys=True).encode()).decode()
        return c
    raise ValueError(tamper)


def materialise_chain(ch, root, scn=None, dirpath="links", rng=None, top=True):
    """Build the Scenario (files, layout, sigs, inspections) of a chain."""
    import random
    rng = rng or random.Random(0)
    scn = scn or W.Scenario()
    scn.root = root
    payload = build_layout_payload(ch, root)
    content = W.wrap(payload, ch.layout_fmt, getattr(ch, "layout_signers", None) or ch.owners, scn.table)
    if top:
        scn.product_files = dict(ch.final)
        scn.layout = content
        scn.keys = {k.keyid: k.pub for k in ch.owners}
        scn.meta["chain"] = ch
    linkdir = getattr(ch, "links_dir_override", None) or dirpath
    for s in ch.steps:
        for ls in s["links"]:
            path = "%s/%s.%s.link" % (linkdir, s["name"], ls["kid"][:8])
            if ls["sub"] is not None:
                sub_content = materialise_chain(ls["sub"], root, scn, "%s/%s.%s" % (linkdir, s["name"], ls["kid"][:8]),
                                                rng, top=False)
                scn.files[path] = apply_tamper(sub_content, ls["tamper"], rng, scn.table)
            else:
                lp = W.link_payload(ls["name"], ls["materials"], ls["products"], command=["do", ls["name"]])
                tamper = ls["tamper"]
                if tamper == "illformed_signed":
                    # ill-formed BEFORE signing (the command as one string, not a list): validly signed content that is
                    # not link metadata - in either format the file cannot be used, and which format it is stored in
                    # must not decide what becomes of the verification
                    lp["command"] = "do " + ls["name"]
                    tamper = None
                signers = [] if ls["signer"] is False else [ls["signer"]]
                scn.files[path] = apply_tamper(W.wrap(lp, ls["fmt"], signers, scn.table), tamper, rng, scn.table)
    recording = W.product_recording(ch.final)
    for ins in ch.inspections:
        cmd = ins.get("run") or W.insp_command(root, ins["ident"], ins["action"])
        act = ins["action"]
        if act.startswith("exit"):
            out = {"exit": str(int(act[4:] or 0)), "materials": recording, "products": recording}
        elif act == "sleep":
            out = "timeout"
        else:
            out = {"exit": "0", "materials": recording, "products": recording}
        scn.insp.append([cmd, out])
    return content


def walk(ch, path=()):
    """All chains of a tree with their position."""
    yield ch, path
    for si, s in enumerate(ch.steps):
        for li, ls in enumerate(s["links"]):
            if ls["sub"] is not None:
                yield from walk(ls["sub"], path + ((si, li),))


def reformat(ch, rng, mode):
    """Deep copy of a chain tree with a new assignment of metadata formats
    (gpg functionaries keep the traditional format)."""
    ch2 = copy.copy(ch)
    ch2.layout_fmt = pick_fmt(rng, mode)
    ch2.steps = []
    for s in ch.steps:
        s2 = dict(s)
        s2["links"] = []
        for ls in s["links"]:
            l2 = dict(ls)
            signer = ls["signer"]
            if not (signer and getattr(signer, "kind", None) == "gpg"):
                l2["fmt"] = pick_fmt(rng, mode)
            if ls["sub"] is not None:
                l2["sub"] = reformat(ls["sub"], rng, mode)
            s2["links"].append(l2)
        ch2.steps.append(s2)
    return ch2


def build(ch, root, rng=None):
    scn = W.Scenario()
    materialise_chain(ch, root, scn, rng=rng)
    return scn


def new_root():
    return tempfile.mkdtemp(prefix="verif-w-")


def drop_root(root):
    shutil.rmtree(root, ignore_errors=True)


def same_outcome(i, m):
    """Compare implementation and (normalised) model outcomes."""
    if i.get("load") != "ok" or m.get("load") != "ok":
        if i.get("load") == "ok" or m.get("load") == "ok":
            return False
        mc = m["load"].get("err")
        return mc not in ("FormatError", "InvalidMetadata") or i["load"].get("err") == mc
    ri, rm = i["result"], m["result"]
    if "ok" in ri or "ok" in rm:
        if ri != rm:
            return False
    else:
        ci, cm = ri["err"], rm["err"]
        if cm == "Exception":
            if ci in STAGE_CLASSES:
                return False
        elif ci != cm:
            return False
    if i.get("log") != m.get("log"):
        # a command that ran into the time limit may have been stopped before it wrote its log line (its interpreter
        # still starting up on a busy machine), and on a very busy machine an earlier command of the same run may be the
        # one that exceeds the limit: the log is then a proper prefix of the model's, the outcome the same time-out
        li, lm = i.get("log") or [], m.get("log") or []
        if not ("err" in ri and ri["err"] == "TimeoutExpired" and ri == rm and len(li) < len(lm) and li == lm[:len(li)]):
            return False
    if i.get("payload_after") != m.get("payload_after"):
        return False
    return True


def run_both(scn):
    i = scn.run_impl(root=scn.root)
    m = W.norm_model_verify(scn.run_model())
    return i, m, same_outcome(i, m)


# ---------------------------------------------------------------- leaf edits


def leaves(obj, path=()):
    """Paths of all scalar leaves of a JSON document."""
    if isinstance(obj, dict):
        for k, v in obj.items():
            yield from leaves(v, path + (k,))
    elif isinstance(obj, list):
        for i, v in enumerate(obj):
            yield from leaves(v, path + (i,))
    else:
        yield path


def get_at(obj, path):
    for p in path:
        obj = obj[p]
    return obj


def set_at(obj, path, value):
    for p in path[:-1]:
        obj = obj[p]
    obj[path[-1]] = value


def mutate_scalar(v, rng, bool_int_swap=True, hex_case=True):
    """A different value of the same JSON type (or, for booleans and the integers 0 / 1, the value of the other type that
    compares equal in Python)."""
    if isinstance(v, bool):
        # (sometimes the integer that compares equal to it in Python: another JSON value, other signed bytes)
        return (1 if v else 0) if (bool_int_swap and rng.random() < 0.5) else (not v)
    if isinstance(v, int):
        if bool_int_swap and v in (0, 1) and rng.random() < 0.4:
            return bool(v)
        return v + rng.choice([1, -1, 7])
    if isinstance(v, str):
        import unicodedata
        other_form = [f for f in (unicodedata.normalize("NFD", v), unicodedata.normalize("NFC", v)) if f != v]
        if other_form and rng.random() < 0.5:
            return other_form[0]       # the same text in the other Unicode normalisation form: another string
        if v and all(c in "0123456789abcdefABCDEF" for c in v) and len(v) >= 8 and v.lower() != v.upper() and hex_case and rng.random() < 0.25:
            return v.upper() if v != v.upper() else v.lower()       # (the same hex digits in the other letter case: another string)
        if v and all(c in "0123456789abcdef" for c in v) and len(v) >= 8:
            i = rng.randrange(len(v))
            c = "0123456789abcdef"[(int(v[i], 16) + 1 + rng.randrange(15)) % 16]
            return v[:i] + c + v[i + 1:]
        r = rng.random()
        if r < 0.4 or not v:
            return v + rng.choice(["x", " ", "é", "0"])
        if r < 0.7:
            i = rng.randrange(len(v))
            return v[:i] + ("y" if v[i] != "y" else "z") + v[i + 1:]
        return v[:-1]
    if v is None:
        return "x"
    return v


def _rename_artifact_key(body, rng):
    """Renames one recorded path (a KEY of the materials / products dictionary of a link): to its other Unicode
    normalisation form if that is another string, else by one character. Returns a description or None."""
    import unicodedata
    cands = [(f, k) for f in ("materials", "products") if isinstance(body.get(f), dict) for k in body[f]]
    if not cands or body.get("_type") != "link":
        return None
    nf = [(f, k) for f, k in cands if unicodedata.normalize("NFC", k) != k or unicodedata.normalize("NFD", k) != k]
    f, k = rng.choice(nf or cands)
    other = [x for x in (unicodedata.normalize("NFC", k), unicodedata.normalize("NFD", k)) if x != k]
    new = other[0] if other else k + "x"
    if new in body[f]:
        return None
    body[f] = {(new if kk == k else kk): vv for kk, vv in body[f].items()}
    return {"path": [f, k], "old": k, "new": new, "renamed_key": True}


def edit_payload_leaf(content, rng, path=None):
    """Single-leaf edit of the signed content of a metadata file (either
    format). Returns (new content, description) or None."""
    import base64
    c = copy.deepcopy(content)
    if path is None and rng.random() < 0.12:
        body = c["signed"] if "signed" in c else json.loads(base64.b64decode(c["payload"]))
        d = _rename_artifact_key(body, rng)
        if d:
            if "signed" not in c:
                c["payload"] = base64.b64encode(json.dumps(body, sort_keys=True).encode("utf8")).decode()
            return c, d
    if "signed" in c:
        ls = list(leaves(c["signed"]))
        if not ls:
            return None
        path = path or rng.choice(ls)
        old = get_at(c["signed"], path)
        # (a step's threshold is the one integer the model reads into a typed field: Python takes `true` for 1 there -
        #  bool is an int -, the model's reader refuses it at load; both refuse the edited file, for different reasons)
        new = mutate_scalar(old, rng, bool_int_swap=(not path or path[-1] != "threshold"))
        set_at(c["signed"], path, new)
        return c, {"path": list(path), "old": old, "new": new}
    body = json.loads(base64.b64decode(c["payload"]))
    ls = list(leaves(body))
    if not ls:
        return None
    path = path or rng.choice(ls)
    old = get_at(body, path)
    new = mutate_scalar(old, rng, bool_int_swap=(not path or path[-1] != "threshold"))
    set_at(body, path, new)
    c["payload"] = base64.b64encode(json.dumps(body, sort_keys=True).encode("utf8")).decode()
    return c, {"path": list(path), "old": old, "new": new}


def surrogate_edit(content, rng):
    """Replaces one non-ASCII character of one string leaf of the signed content by the lone surrogates that stand for
    its UTF-8 bytes under Python's 'surrogateescape' error handler (é -> U+DCC3 U+DCA9): a different string, which an
    encoder that escapes surrogates back to bytes maps to the *same* bytes. Content edited after signing like any
    other. Returns (new content, description) or None (no non-ASCII leaf; DSSE payloads are edited in their JSON text)."""
    import base64
    c = copy.deepcopy(content)
    body = c["signed"] if "signed" in c else json.loads(base64.b64decode(c["payload"]))
    lossy = [pth for pth in leaves(body) if isinstance(get_at(body, pth), str) and "?" in get_at(body, pth) and pth[-1] != "expires"]
    if lossy and rng.random() < 0.6:
        # a question mark replaced by a lone surrogate: a different string, which an encoder that *replaces* what it cannot
        # encode maps to the same bytes ('?')
        pth = rng.choice(lossy)
        old = get_at(body, pth)
        k = rng.choice([j for j, ch in enumerate(old) if ch == "?"])
        new = old[:k] + "\udce9" + old[k + 1:]
        set_at(body, pth, new)
        if "signed" not in c:
            c["payload"] = base64.b64encode(json.dumps(body, sort_keys=True).encode("ascii")).decode()
        return c, {"path": list(pth), "old": old, "new_escaped": json.dumps(new), "kind": "replaced_by_question_mark"}
    cands = [pth for pth in leaves(body) if isinstance(get_at(body, pth), str) and any(ord(ch) > 127 and not 0xD800 <= ord(ch) <= 0xDFFF for ch in get_at(body, pth))]
    if not cands:
        return None
    pth = rng.choice(cands)
    old = get_at(body, pth)
    k = rng.choice([j for j, ch in enumerate(old) if ord(ch) > 127 and not 0xD800 <= ord(ch) <= 0xDFFF])
    new = old[:k] + "".join(chr(0xDC00 + b) for b in old[k].encode("utf8")) + old[k + 1:]
    set_at(body, pth, new)
    if "signed" not in c:
        c["payload"] = base64.b64encode(json.dumps(body, sort_keys=True).encode("ascii")).decode()
    return c, {"path": list(pth), "old": old, "new_escaped": json.dumps(new)}


FALSY = [None, False, 0, "", [], {}]


def falsy_edit(content, rng):
    """Replaces one container- or integer-valued member of the signed content by a falsy value of another kind
    ({} -> null, [] -> 0, threshold 1 -> null, ...): content that differs from what was signed and, mostly, is not even
    well-formed - never to be treated like a missing member and defaulted.  Returns (new content, description) or None."""
    import base64
    c = copy.deepcopy(content)
    body = c["signed"] if "signed" in c else json.loads(base64.b64decode(c["payload"]))
    cands = []
    if body.get("_type") == "link":
        cands = [(k,) for k in ("materials", "products", "byproducts", "environment", "command") if k in body]
    elif body.get("_type") == "layout":
        cands = [(k,) for k in ("steps", "inspect", "keys") if k in body]
        for i, st in enumerate(body.get("steps") or []):
            cands += [("steps", i, k) for k in ("expected_materials", "expected_products", "pubkeys", "expected_command", "threshold") if k in st]
        for i, ins in enumerate(body.get("inspect") or []):
            cands += [("inspect", i, k) for k in ("expected_materials", "expected_products", "run") if k in ins]
    if not cands:
        return None
    path = rng.choice(cands)
    old = get_at(body, path)
    # (a bool is an int for Python: threshold false / true is left to the ordinary leaf edits)
    options = [v for v in FALSY if v != old and type(v) is not type(old) and not (path[-1] == "threshold" and isinstance(v, bool))]
    if isinstance(old, int) and not isinstance(old, bool) and old != 0:
        options.append(0)
    if not options:
        return None
    new = rng.choice(options)
    set_at(body, path, new)
    if "signed" not in c:
        c["payload"] = base64.b64encode(json.dumps(body, sort_keys=True).encode("utf8")).decode()
    return c, {"path": list(path), "old": old, "new": new, "kind": "falsy"}


def parse_equal_edit(content, rng):
    """An edit of a Metablock file that parses to the same object (unknown
    member added, `_type` of a step overwritten, defaulted member dropped)."""
    c = copy.deepcopy(content)
    if "signed" not in c:
        return None
    s = c["signed"]
    kind = rng.choice(["unknown_top", "unknown_step", "step_type", "drop_default"])
    if kind == "unknown_top":
        s["x-extra"] = "ignored"
    elif kind == "unknown_step" and s.get("steps"):
        rng.choice(s["steps"])["comment"] = "ignored"
    elif kind == "step_type" and s.get("steps"):
        rng.choice(s["steps"])["_type"] = "stepx"
    elif kind == "drop_default" and s.get("_type") == "layout" and s.get("readme") == "":
        del s["readme"]
    elif kind == "drop_default" and s.get("_type") == "link" and s.get("environment") == {}:
        del s["environment"]
    else:
        s["x-extra"] = "ignored"
        kind = "unknown_top"
    return c, {"parse_equal": kind}


def edit_signature(content, rng):
    """Edit of a signature value or key id, or removal of a signature."""
    import base64
    c = copy.deepcopy(content)
    sigs = c.get("signatures")
    if not sigs:
        return None
    i = rng.randrange(len(sigs))
    kind = rng.choice(["value", "value", "keyid", "keyid_fragment", "remove", "value_text"])
    if kind == "value_text" and "payload" not in c:
        kind = "value"
    if kind == "value_text":
        # the TEXT of an envelope's signature value changed by a character outside the base64 alphabet (a line end, a
        # blank, a punctuation mark): another value - not the one that was made
        v = sigs[i]["sig"]
        k_ = rng.choice([len(v), len(v), rng.randrange(len(v) + 1)])
        sigs[i]["sig"] = v[:k_] + rng.choice(["\n", " ", "!", ".", "\r\n"]) + v[k_:]
    elif kind == "remove":
        del sigs[i]
    elif kind == "keyid":
        sigs[i]["keyid"] = mutate_scalar(sigs[i]["keyid"], rng)
    elif kind == "keyid_fragment":
        # a fragment of the key id (the short / long forms gpg prints, a prefix, one digit, nothing): another key id
        kid = sigs[i]["keyid"]
        sigs[i]["keyid"] = rng.choice([kid[-16:], kid[-8:], kid[:8], kid[10:20], kid[:1], "", kid.upper()])
        if sigs[i]["keyid"] == kid:
            sigs[i]["keyid"] = kid[:-1]
    else:
        field = "signature" if "signature" in sigs[i] else "sig"
        if "payload" in c:
            raw = bytearray(base64.b64decode(sigs[i]["sig"]))
            raw[rng.randrange(len(raw))] ^= 1 << rng.randrange(8)
            sigs[i]["sig"] = base64.b64encode(bytes(raw)).decode()
        else:
            # (not the letter case of the hex digits: the value of a signature is the bytes the digits stand for)
            if rng.random() < 0.3 and field == "sig":
                # (not for gpg-shaped entries: there a value that is not hex is refused as ill-formed before any
                #  checking, the model calls it a bad signature - neither counts it, the error classes differ)
                v = sigs[i][field]
                sigs[i][field] = rng.choice(["", "zz" + v[2:], v[:-1], "0x" + v])
            else:
                sigs[i][field] = mutate_scalar(sigs[i][field], rng, hex_case=False)
    return c, {"sig_edit": kind, "index": i}


def shadow_signature(content, rng):
    """Puts, before a signature, a second entry whose key id is a fragment of that signature's key id (or empty) and
    whose value verifies for nobody. Signatures are looked up by exact key id: the genuine one still counts, in either
    format. Returns (new content, description) or None."""
    c = copy.deepcopy(content)
    sigs = c.get("signatures")
    if not sigs:
        return None
    i = rng.randrange(len(sigs))
    kid = sigs[i]["keyid"]
    sh = dict(sigs[i])
    sh["keyid"] = rng.choice([kid[:8], kid[-16:], kid[:1], kid[4:12]] + ([""] if "payload" in c or "other_headers" not in sh else []))
    field = "signature" if "signature" in sh else "sig"
    if "payload" in c:
        import base64
        raw = bytearray(base64.b64decode(sh["sig"])); raw[0] ^= 1
        sh["sig"] = base64.b64encode(bytes(raw)).decode()
    else:
        sh[field] = mutate_scalar(sh[field], rng)
    sigs.insert(i, sh)
    return c, {"shadow_before": i, "keyid": sh["keyid"]}


def payload_canon_by_model(content):
    """canon(asdict(parse(signed))) according to the MODEL's parser (used to
    classify an edit as content-changing vs parse-equal)."""
    if "signed" in content:
        r = core.driver().call({"op": "read_payload", "v": W.tagged(content["signed"])})
        return r.get("ok"), r.get("err")
    return content.get("payload"), None


def file_sig_ok(content, key, table_rows, original_msg):
    """Ground truth: does the file carry a genuine signature by `key` over
    original_msg in the position the format looks at?"""
    import base64
    sigs = content.get("signatures") or []
    mat = W.key_material(key)
    rows = {(v, m, msg) for v, m, msg in table_rows}
    if "payload" in content:
        for s in sigs:
            if s.get("keyid") == key["keyid"]:
                try:
                    val = base64.b64decode(s["sig"]).hex()
                except Exception:  # pylint: disable=broad-except
                    continue
                if (val, mat, original_msg) in rows:
                    return True
        return False
    for s in sigs:
        if s.get("keyid") == key["keyid"]:
            return (W.sig_value(s), mat, original_msg) in rows
        if s.get("keyid") in (key.get("subkeys") or {}):
            # signed by a subkey of the given key: that subkey's material made the signature
            return (W.sig_value(s), W.key_material(key["subkeys"][s["keyid"]]), original_msg) in rows
    return False
