"""./check entry point: build, audit, run the property's correspondence +
oracles, search for a failing input on trouble, write evidence, exit protocol."""
import argparse
import importlib
import json
import os
import sys
import time
import traceback

from harness import core


def main():
    ap = argparse.ArgumentParser()
    ap.add_argument("prop")
    ap.add_argument("--tier", default=os.environ.get("VERIF_TIER") or "quick",
                    choices=["quick", "thorough"])
    ap.add_argument("--replay")
    args = ap.parse_args()
    prop = args.prop.upper()
    try:
        seed = int(os.environ.get("VERIF_SEED") or 0)
    except ValueError:
        seed = 0
    t0 = time.time()
    try:
        core.ensure_built()
        core.assert_repo()
        from harness import cover
        cover.start(core.REPO)
        mod = importlib.import_module("harness.props." + prop.lower())
        if args.replay:
            payload = json.load(open(args.replay, encoding="utf8"))
            case = payload.get("case", payload)
            if isinstance(case, dict) and case.get("op") == "cli_call":
                from harness import clicall
                out = clicall.replay(case)
            elif isinstance(case, dict) and case.get("op") == "cli_equiv":
                from harness import cliequiv
                out = cliequiv.replay(case)
            else:
                out = mod.replay(case)
            print(json.dumps(out, indent=1, ensure_ascii=True, default=str))
            return 0
        audit = core.run_audit(prop)
        if audit["problems"]:
            raise core.Infra("audit problems: %s" % audit["problems"])
        if args.tier == "thorough":
            lc = core.run_leanchecker()
            audit["leanchecker"] = lc
            if lc["returncode"] != 0 or "uncaught exception" in lc["output_tail"]:
                raise core.Infra("leanchecker rejected the compiled proofs: %s" % lc["output_tail"])
        res = mod.run(args.tier, seed)
    except core.Infra as e:
        print("INFRASTRUCTURE FAILURE (%s): %s" % (prop, e), file=sys.stderr)
        return 2
    except Exception:  # pylint: disable=broad-except
        traceback.print_exc()
        print("INFRASTRUCTURE FAILURE (%s): harness exception" % prop, file=sys.stderr)
        return 2

    known = [k for k in core.known_findings() if k["property"] == prop]
    is_known = getattr(mod, "matches_known", lambda failure, k: False)
    oracle_fail, disagree, known_hit = [], [], {}
    for f in res.failures:
        hit = next((k for k in known if f["kind"] == "oracle" and is_known(f, k)), None)
        if hit:
            known_hit[hit["id"]] = hit
        elif f["kind"] == "oracle":
            oracle_fail.append(f)
        else:
            disagree.append(f)

    rc = 0
    lines = []
    n = 0
    if oracle_fail:
        f = oracle_fail[0]
        shrink = getattr(mod, "shrink", None)
        if shrink:
            try:
                f = shrink(f) or f
            except Exception:  # pylint: disable=broad-except
                traceback.print_exc()
        path = core.write_replay(prop, seed, n, {
            "property": prop, "kind": "property violated on the implementation",
            "case": f["case"], "detail": f["detail"],
            "how_to_replay": "./check %s --replay <this file>" % prop})
        lines.append("VIOLATION property=%s replay=%s" % (prop, path))
        rc = 1
    elif disagree:
        f = disagree[0]
        found = None
        search = getattr(mod, "search", None)
        if search:
            try:
                found = search(f, args.tier, seed)
            except core.Infra as e:
                print("search failed: %s" % e, file=sys.stderr)
            except Exception:  # pylint: disable=broad-except
                traceback.print_exc()
        if found:
            path = core.write_replay(prop, seed, n, {
                "property": prop, "kind": "property violated on the implementation (found by search after a correspondence break)",
                "case": found["case"], "detail": found["detail"], "correspondence_break": f,
                "how_to_replay": "./check %s --replay <this file>" % prop})
            lines.append("VIOLATION property=%s replay=%s" % (prop, path))
        else:
            path = core.write_replay(prop, seed, n, {
                "property": prop,
                "kind": "correspondence between Lean model and implementation no longer checks; the theorems of this property no longer transfer to the code",
                "no_longer_checks": f["detail"].get("op", "correspondence") if isinstance(f["detail"], dict) else "correspondence",
                "theorems_no_longer_transferred": sorted(audit["theorems"]),
                "case": f["case"], "detail": f["detail"],
                "how_to_replay": "./check %s --replay <this file>" % prop})
            lines.append("VIOLATION property=%s replay=%s no-failing-input-found" % (prop, path))
        rc = 1
    wall = time.time() - t0
    core.write_evidence(
        prop, args.tier, seed, audit, res, wall,
        extra_cov={"rule": getattr(mod, "RULE", ""),
                   "known_findings_observed": sorted(known_hit),
                   "failures": res.failures[:5]},
        assumptions=getattr(mod, "ASSUMPTIONS", []),
        violations=len(oracle_fail) + len(disagree))
    for k in known_hit.values():
        print("KNOWN-FINDING: property=%s %s" % (prop, k["what"]))
    for l in lines:
        print(l)
    print("%s %s tier=%s seed=%d theorems=%d/%d evaluations=%d nontrivial=%d agreed=%d wall=%.1fs" % (
        prop, "FAIL" if rc else "ok", args.tier, seed, audit["discharged"], audit["obligations"],
        res.evaluations, len(res.nontrivial), res.agreed, wall))
    return rc


if __name__ == "__main__":
    sys.exit(main())
