"""Common case runner / replay for the verification-pipeline properties."""
import datetime
import os

from harness import core, scen, world as W


def short(o):
    if o.get("load") != "ok":
        return {"load": o.get("load")}
    r = o["result"]
    out = {"result": "accept" if "ok" in r else r["err"], "log": o.get("log")}
    return out


def replayable(scn, desc):
    return {"desc": desc, "root": scn.root, "files": scn.files, "layout": scn.layout, "keys": scn.keys,
            "now": scn.now.isoformat(), "tz": scn.tz,
            "product_files": {k: v.decode("utf8", "replace") for k, v in scn.product_files.items()},
            "params": scn.params, "inspect_timeout": scn.meta.get("inspect_timeout", 60),
            "persist_links": bool(scn.meta.get("persist_links", False)),
            "model_request": scn.model_request()}


def rebuild(case):
    scn = W.Scenario()
    scn.root = case["root"]
    scn.files = case["files"]
    scn.layout = case["layout"]
    scn.keys = case["keys"]
    scn.now = datetime.datetime.fromisoformat(case["now"])
    scn.tz = case.get("tz")
    scn.params = case.get("params")
    scn.meta["inspect_timeout"] = case.get("inspect_timeout", 60)
    scn.meta["persist_links"] = bool(case.get("persist_links", False))
    scn.product_files = {k: v.encode("utf8") for k, v in case["product_files"].items()}
    return scn


def replay(case):
    scn = rebuild(case)
    os.makedirs(scn.root, exist_ok=True)
    try:
        i = scn.run_impl(root=scn.root)
    finally:
        scen.drop_root(scn.root)
    m = W.norm_model_verify(core.driver().call(case["model_request"]))
    return {"desc": case["desc"], "impl": short(i) if isinstance(i, dict) else i, "model": short(m),
            "summary_impl": (i.get("result") or {}).get("ok") if isinstance(i, dict) else None,
            "oracle": {k: v for k, v in case["desc"].items() if k.startswith("expected")}}


def accepted(o):
    return o.get("load") == "ok" and "ok" in o.get("result", {})


def pick_params(rng, desc):
    """Substitution parameters are an argument of every verification: mostly absent, sometimes an empty set or one that
    no placeholder uses. The verification is the same one (thresholds, keys, rules, names all as in the signed layout)."""
    p = rng.choice([None, None, None, {}, {"UNUSED": "v"}, {"UNUSED": "{OTHER}", "X-1": ""}])
    desc["substitution_parameters"] = p
    return p


def pick_tz(rng, scn, desc):
    """The verifier's local time zone is part of the environment of every verification (expiry is an instant, not a
    wall-clock reading): mostly unset, sometimes far west or far east of UTC."""
    scn.tz = rng.choice([None, None, "UTC", "Etc/GMT+12", "Etc/GMT+12", "Pacific/Kiritimati"])
    desc["tz"] = scn.tz


NOW = datetime.datetime(2030, 6, 15, 12, 0, 0, tzinfo=datetime.timezone.utc)      # the clock of every scenario (world.Scenario)


def expired_instant(rng):
    """An expiry date in the past of the scenario's clock: by a second, by less than any UTC offset, by years."""
    return NOW - rng.choice([datetime.timedelta(seconds=1), datetime.timedelta(minutes=45), datetime.timedelta(hours=7),
                             datetime.timedelta(hours=11, minutes=59), datetime.timedelta(days=400)])


def run_case(scn, desc, res, nontrivial=True):
    """Runs implementation and model, records the case and any disagreement.
    Returns (impl, model, agreed)."""
    i, m, agreed = scen.run_both(scn)
    honest = m.get("honest") if isinstance(m, dict) else None
    if honest is not None and isinstance(i, dict) and i.get("load") == "ok":
        # the hypotheses of `honest_chain_verifies` hold on this world (every step carried out by enough of its authorised
        # functionaries, no other file in the way, rules and inspections pass): the theorem says what verification
        # returns - it must be what the implementation returns (thresholds above one, several functionaries, key bundles
        # with subkeys included)
        res.count("honest_theorem_applies")
        res.evaluations += 1
        pred_log = [c[4] if len(c) > 4 else "?" for c in (honest.get("trace") or [])]
        if honest.get("result") != i.get("result") or (i.get("log") is not None and pred_log != i.get("log")):
            res.fail("disagree", replayable(scn, dict(desc, honest_theorem=True)),
                     {"op": "honest_check", "why": "prediction of honest_chain_verifies differs from the implementation",
                      "impl": short(i), "predicted": honest.get("result"), "predicted_log": pred_log})
    res.case({"desc": desc, "impl": short(i), "model": short(m)}, nontrivial, agreed)
    res.count("impl_" + ("accept" if accepted(i) else (i["result"]["err"] if i.get("load") == "ok" else "load_error")))
    if not agreed:
        res.fail("disagree", replayable(scn, desc), {"op": "verify", "impl": short(i), "model": short(m),
                                                      "summary_impl": (i.get("result") or {}).get("ok"),
                                                      "summary_model": (m.get("result") or {}).get("ok")})
    return i, m, agreed


def oracle_fail(res, scn, desc, why, i):
    res.fail("oracle", replayable(scn, desc), {"why": why, "impl": short(i),
                                               "summary_impl": (i.get("result") or {}).get("ok")})


def generic_search(shard_fn, n_shards=16, per=40):
    def search(failure, tier, seed):
        res = core.parallel(core.call, [(shard_fn, (seed + 1000 + i, i, per, tier)) for i in range(n_shards)])
        for f in res.failures:
            if f["kind"] == "oracle":
                return f
        return None
    return search
