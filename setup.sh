#!/bin/sh
# MANIFEST.setup_cmd: build the Lean model, proofs and driver from files on disk
# (offline), run the axiom audit once (cached), and a harness self-test.
set -e
HERE="$(cd "$(dirname "$0")" && pwd)"
cd "$HERE/lean"
lake build
lake env lean Audit.lean > /dev/null
cd "$HERE"
PYTHONDONTWRITEBYTECODE=1 PYTHONPATH="$HERE" "${VERIF_PYTHON:-/venv/bin/python}" -B -c "
from harness import core
d = core.driver()
assert d.call({'op': 'ping'}) == {'ok': 'pong'}
import in_toto, os
print('harness self-test ok; in_toto from', os.path.dirname(in_toto.__file__))
"
