import Proofs.C02World
/-!
# C02 at world level, the other direction: metadata that never counts never helps

`extra_file_never_accepts`: if a layout verifies in the world **with** the extra
never-counting file, it verifies — with the same summary link and trace — in the
world without it. Together with `extra_file_never_rejects`: the extra file is
irrelevant to acceptance (`extra_file_irrelevant`; instances `C02_bad_file_irrelevant`, `C08_replayed_link_irrelevant`).
-/
namespace InToto

variable (gm : Str → Str → Bool) (w : World)
variable (P : Str) (data : JVal) (aux : Option EnvAux) (bad : Metadata)

/-- Loading without the extra file succeeds if loading with it does. -/
theorem loadStepLinks_ext_rev (hnew : P ∉ w.files.map (·.1)) (hload : Metadata.fromDict data aux = .ok bad)
    (dir name : Str) : ∀ (ids : List Str) (acc' acc res' : Dict Str Metadata),
    Ext (AtP P dir name) bad acc' acc →
    loadStepLinks (w.addFile P (some (data, aux))) dir name ids acc' = .ok res' →
    ∃ res, loadStepLinks w dir name ids acc = .ok res ∧ Ext (AtP P dir name) bad res' res := by
  intro ids
  induction ids with
  | nil =>
    intro acc' acc res' hext h
    simp only [loadStepLinks] at h
    cases h
    exact ⟨acc, rfl, hext⟩
  | cons kid rest ih =>
    intro acc' acc res' hext h
    by_cases hp : pathJoin dir (linkFileName name kid) = P
    · simp only [loadStepLinks, hp, loadFile_addFile_self w P data aux hnew, hload] at h
      obtain ⟨res, h1, h2⟩ := ih _ _ _ (hext.insert_extra kid hp) h
      refine ⟨res, ?_, h2⟩
      simp only [loadStepLinks, hp, loadFile_absent w P hnew]
      exact h1
    · simp only [loadStepLinks, loadFile_addFile_ne w P hp] at h ⊢
      cases hl : loadFile w (pathJoin dir (linkFileName name kid)) with
      | none =>
        rw [hl] at h
        exact ih _ _ _ hext h
      | some r =>
        cases r with
        | error e => rw [hl] at h; cases h
        | ok md =>
          rw [hl] at h
          exact ih _ _ _ (hext.insert_both kid md hp) h

/-- The entries the signature stage retains are not among the extra ones; so there
are at most as many as there are ordinary entries. -/
theorem verifyStepLinks_kept_length (w' : World) (hS : w'.S = w.S) (hN : w'.nowSec = w.nowSec)
    (l : Layout) (hk : KeyidsOk l.keys) (step : Step) (stepName : Str)
    (E : Str → Prop) (hbad : ∀ k, E k → SkippedFor w.S w.nowSec bad stepName) :
    ∀ (input' input : List (Str × Metadata)), Ext E bad input' input →
    ∀ (kept0 : Dict Str Metadata) (used0 : List Str) (kept : Dict Str Metadata) (used : List Str),
    verifyStepLinks w' l (mainKeysForSubkeys l.keys) step stepName input' kept0 used0 = .ok (kept, used) →
    used.length ≤ used0.length + input.length := by
  intro input' input h
  induction h with
  | nil =>
    intro kept0 used0 kept used h
    simp only [verifyStepLinks] at h
    cases h
    simp
  | both k v _ _ ih =>
    intro kept0 used0 kept used h
    simp only [verifyStepLinks] at h
    simp only [List.length_cons]
    split at h
    · cases h
    · have := ih _ _ _ _ h; omega
    · split at h
      · have := ih _ _ _ _ h; omega
      · have := ih _ _ _ _ h; omega
      · split at h
        · have := ih _ _ _ _ h; omega
        · cases h
      · split at h
        · cases h
        · split at h
          · have := ih _ _ _ _ h; omega
          · have := ih _ _ _ _ h
            simp only [List.length_append, List.length_singleton] at this
            omega
  | extra k hEk _ ih =>
    intro kept0 used0 kept used h
    apply ih kept0 used0 kept used
    rw [← h]
    symm
    simp only [verifyStepLinks]
    obtain ⟨r, hr⟩ := authorise_total l.keys hk k step.pubkeys
    rw [hr]
    cases r with
    | none => rfl
    | some vm =>
      obtain ⟨vkey, mainId⟩ := vm
      simp only [hS, hN]
      rcases hbad k hEk vkey with h' | h' | ⟨e, h', he⟩ | ⟨h', payload, hp, hnb⟩
      · rw [h']
      · rw [h']
      · rw [h']
        simp only [he, if_true]
      · rw [h']
        simp only [hp, hnb, Bool.not_false, if_true]

theorem dedup_length_le {α : Type} [DecidableEq α] : ∀ (l : List α), (dedup l).length ≤ l.length
  | [] => Nat.le_refl _
  | a :: r => by
    simp only [dedup]
    split
    · have := dedup_length_le r
      simp only [List.length_cons]
      omega
    · have := dedup_length_le r
      simp only [List.length_cons]
      omega

theorem loadLinksSteps_ext_rev (hnew : P ∉ w.files.map (·.1)) (hload : Metadata.fromDict data aux = .ok bad)
    (l : Layout) (dir : Str) : ∀ (steps : List Step) (acc' acc res' : Dict Str (Dict Str Metadata)),
    ExtK (fun name => Ext (AtP P dir name) bad) acc' acc →
    loadLinksSteps (w.addFile P (some (data, aux))) l dir steps acc' = .ok res' →
    (∀ step ∈ steps, ∀ name links, step.name = some name →
      loadStepLinks w dir name (candidateIds l step) [] = .ok links → step.threshold ≤ (links.length : Int)) →
    ∃ res, loadLinksSteps w l dir steps acc = .ok res ∧
      ExtK (fun name => Ext (AtP P dir name) bad) res' res := by
  intro steps
  induction steps with
  | nil =>
    intro acc' acc res' hext h _
    simp only [loadLinksSteps] at h
    cases h
    exact ⟨acc, rfl, hext⟩
  | cons step rest ih =>
    intro acc' acc res' hext h hthr
    simp only [loadLinksSteps] at h ⊢
    split at h
    · cases h
    · rename_i name hname
      split at h
      · cases h
      · rename_i links' hlinks'
        split at h
        · cases h
        · obtain ⟨links, hl, hx⟩ := loadStepLinks_ext_rev w P data aux bad hnew hload dir name _ [] [] links' .nil hlinks'
          simp only [hl]
          have hge := hthr step List.mem_cons_self name links ((nameOf_ok_iff _ _).mp hname) hl
          have : ¬ ((links.length : Int) < step.threshold) := by omega
          simp only [this, if_false]
          exact ih _ _ _ (hext.insert name hx) h (fun s hs => hthr s (List.mem_cons_of_mem _ hs))

/-- **C02 (metadata that never counts never helps), for whole verifications.** -/
theorem extra_file_never_accepts (hnew : P ∉ w.files.map (·.1))
    (hload : Metadata.fromDict data aux = .ok bad)
    (hbad : ∀ dir name k, pathJoin dir (linkFileName name k) = P → SkippedFor w.S w.nowSec bad name) :
    ∀ (fuel : Nat) (md : Metadata) (keys : List (Str × JVal)) (dir : Str)
      (params : Option (List (Str × Option Str))) (stepName : Str) (s : Link), md.KeysChecked → md.NamesDistinct →
      (verify gm (w.addFile P (some (data, aux))) fuel md keys dir params stepName).result = .ok s →
      verify gm w fuel md keys dir params stepName =
        verify gm (w.addFile P (some (data, aux))) fuel md keys dir params stepName := by
  intro fuel
  induction fuel with
  | zero => intro md keys dir params stepName s _ _ _; rfl
  | succ n ih =>
    intro md keys dir params stepName s hkc hnd h
    obtain ⟨st⟩ := verify_ok_inv gm (w.addFile P (some (data, aux))) h
    have hgate : gate w md keys params = .ok st.layout := by
      rw [← C01_gate_independent_of_links w (w.addFile P (some (data, aux))) rfl rfl rfl]
      exact st.hgate
    have hk : KeyidsOk st.layout.keys := by
      obtain ⟨l0, hp, hkeys⟩ := gate_keys w hgate
      rw [hkeys]
      exact hkc l0 hp
    have hnames := gate_names w hgate hnd
    -- per step: what the world with the file loaded and retained
    have hthr : ∀ step ∈ st.layout.steps, ∀ name links, step.name = some name →
        loadStepLinks w dir name (candidateIds st.layout step) [] = .ok links →
        step.threshold ≤ (links.length : Int) := by
      intro step hstep name links hname hl
      obtain ⟨links', hgl, hl'⟩ := (loadLinksSteps_fwd (w.addFile P (some (data, aux))) st.layout dir _ _ _ st.hload).2
        hnames step hstep name hname
      obtain ⟨links0, hl0, hx⟩ := loadStepLinks_ext_rev w P data aux bad hnew hload dir name _ [] [] links' .nil hl'
      rw [hl] at hl0
      cases hl0
      obtain ⟨_, _, hsfwd⟩ := verifySigSteps_fwd (w.addFile P (some (data, aux))) st.layout _ st.loaded _ _ _ st.hsig
      obtain ⟨kept, used, _, hvs, hcount⟩ := hsfwd hnames step hstep name hname
      rw [hgl] at hvs
      simp only [Option.getD_some] at hvs
      have h1 := verifyStepLinks_kept_length w bad (w.addFile P (some (data, aux))) rfl rfl st.layout hk step name
        _ (hbad dir name) _ _ hx _ _ _ _ hvs
      have h2 := dedup_length_le used
      simp only [List.length_nil, Nat.zero_add] at h1
      omega
    obtain ⟨loaded, hloadw, hx⟩ := loadLinksSteps_ext_rev w P data aux bad hnew hload st.layout dir _ [] [] _ .nil
      (by simpa [loadLinksForLayout] using st.hload) hthr
    have hloadw' : loadLinksForLayout w st.layout dir = .ok loaded := by
      simpa [loadLinksForLayout] using hloadw
    have hsig : verifyLinkSignatureThresholds w st.layout loaded = .ok st.stepsMd := by
      unfold verifyLinkSignatureThresholds
      rw [← verifySigSteps_ext w bad (w.addFile P (some (data, aux))) rfl rfl st.layout hk _ (hbad dir) st.loaded loaded hx]
      exact st.hsig
    have hfiles := retained_from_files (w.addFile P (some (data, aux))) st.hload st.hsig
    have hsub : verifySublayouts (recurOf gm w n) st.layout dir st.stepsMd [] = (.ok st.chain, st.tr1) := by
      apply verifySublayouts_congr_ok (recurOf gm (w.addFile P (some (data, aux))) n) _ st.layout dir _ _ _ _ st.hsub
      intro sm hsm p hp keys' d' n' s' hres
      obtain ⟨path, hf⟩ := hfiles sm hsm p hp
      exact ih p.2 keys' d' none n' s' (loadFile_keysChecked _ hf) (loadFile_names _ hf) hres
    have hinsp : runAllInspections w st.layout.inspect [] = (.ok st.inspLinks, st.tr2) := by
      have := runAllInspections_withFiles w (w.files ++ [(P, some (data, aux))]) st.layout.inspect []
      rw [show w.withFiles (w.files ++ [(P, some (data, aux))]) = w.addFile P (some (data, aux)) from rfl] at this
      rw [← this]
      exact st.hinsp
    have hsub' := st.hsub
    unfold verify
    simp only [hgate, st.hgate, hloadw', st.hload, hsig, st.hsig, hsub, hsub', st.hchain, hinsp, st.hinsp,
      st.hirules]

/-- An extra file that the threshold stage skips wherever it is read is
irrelevant to acceptance: neither does it turn an acceptable supply chain into a
rejected one, nor a rejected one into an accepted one, and an accepted one keeps
its summary link. -/
theorem extra_file_irrelevant (hnew : P ∉ w.files.map (·.1))
    (hload : Metadata.fromDict data aux = .ok bad)
    (hbad : ∀ dir name k, pathJoin dir (linkFileName name k) = P → SkippedFor w.S w.nowSec bad name)
    (fuel : Nat) (md : Metadata) (keys : List (Str × JVal)) (dir : Str)
    (params : Option (List (Str × Option Str))) (stepName : Str) (s : Link)
    (hkc : md.KeysChecked) (hnd : md.NamesDistinct) :
    (verify gm (w.addFile P (some (data, aux))) fuel md keys dir params stepName).result = .ok s ↔
      (verify gm w fuel md keys dir params stepName).result = .ok s := by
  constructor
  · intro h
    rw [extra_file_never_accepts gm w P data aux bad hnew hload hbad fuel md keys dir params stepName s hkc hnd h]
    exact h
  · intro h
    rw [extra_file_never_rejects gm w P data aux bad hnew hload hbad fuel md keys dir params stepName s hkc h]
    exact h

/-- **C02: metadata that never counts is irrelevant to acceptance** (unsigned,
altered after signing, signed by a key nobody lists, a signature of the other
key family), wherever the file is put. -/
theorem C02_bad_file_irrelevant (hnew : P ∉ w.files.map (·.1))
    (hload : Metadata.fromDict data aux = .ok bad) (hbad : NeverCounts w.S w.nowSec bad)
    (fuel : Nat) (md : Metadata) (keys : List (Str × JVal)) (dir : Str)
    (params : Option (List (Str × Option Str))) (stepName : Str) (s : Link)
    (hkc : md.KeysChecked) (hnd : md.NamesDistinct) :
    (verify gm (w.addFile P (some (data, aux))) fuel md keys dir params stepName).result = .ok s ↔
      (verify gm w fuel md keys dir params stepName).result = .ok s :=
  extra_file_irrelevant gm w P data aux bad hnew hload (fun _ name _ _ => hbad.skippedFor name)
    fuel md keys dir params stepName s hkc hnd

/-! ## C08: a replayed link -/

/-- Whatever a signature check returns, it is one of the outcomes the threshold
stage skips, or success. -/
theorem verifySignature_cases (S : Scheme) (nowSec : Int) (md : Metadata) (vkey : JVal) :
    md.verifySignature S nowSec vkey = .bad ∨ md.verifySignature S nowSec vkey = .expired ∨
    (∃ e, md.verifySignature S nowSec vkey = .crash e ∧ (e = .format ∨ e = .keyError ∨ e = .value)) ∨
    md.verifySignature S nowSec vkey = .ok := by
  cases hr : md.verifySignature S nowSec vkey with
  | bad => exact .inl rfl
  | expired => exact .inr (.inl rfl)
  | ok => exact .inr (.inr (.inr rfl))
  | crash e =>
    refine .inr (.inr (.inl ⟨e, rfl, ?_⟩))
    have key : ∀ j e', readPubKey j = .error e' → e' = .format ∨ e' = .keyError ∨ e' = .value := by
      intro j e' h
      rcases readPubKey_error j e' h with h | h
      · exact .inl h
      · exact .inr (.inr h)
    cases md with
    | metablock sigs signed =>
      simp only [Metadata.verifySignature, metablockVerify] at hr
      repeat' split at hr
      all_goals (first | cases hr | skip)
      all_goals (first | exact .inl rfl | exact .inr (.inr rfl) | (apply key; assumption) | skip)
      rename_i hm
      split at hm
      · split at hm
        · exact key _ _ hm
        · cases hm
      · cases hm
    | envelope sigs text parsed =>
      simp only [Metadata.verifySignature, envelopeVerify] at hr
      repeat' split at hr
      all_goals (first | cases hr | skip)
      all_goals (first | exact .inl rfl | exact .inr (.inr rfl) | (apply key; assumption) | skip)

/-- **C08 (a replayed link is irrelevant), for whole verifications.** A link
recorded for step `X` — validly signed or not, by whichever key — copied to a new
file whose name makes it a candidate for other steps only (every step name under
which that file is looked for differs from `X`) does not change whether a layout
verifies, nor its summary link: it is never accepted as evidence for the other
step, and it never disturbs the evidence that is there. -/
theorem C08_replayed_link_irrelevant (hnew : P ∉ w.files.map (·.1))
    (hload : Metadata.fromDict data aux = .ok bad) (lk : Link) (hp : bad.getPayload = .ok (.link lk))
    (hX : ∀ dir name k, pathJoin dir (linkFileName name k) = P → lk.name ≠ some name)
    (fuel : Nat) (md : Metadata) (keys : List (Str × JVal)) (dir : Str)
    (params : Option (List (Str × Option Str))) (stepName : Str) (s : Link)
    (hkc : md.KeysChecked) (hnd : md.NamesDistinct) :
    (verify gm (w.addFile P (some (data, aux))) fuel md keys dir params stepName).result = .ok s ↔
      (verify gm w fuel md keys dir params stepName).result = .ok s := by
  apply extra_file_irrelevant gm w P data aux bad hnew hload _ fuel md keys dir params stepName s hkc hnd
  intro d name k hpath vkey
  rcases verifySignature_cases w.S w.nowSec bad vkey with h | h | h | h
  · exact .inl h
  · exact .inr (.inl h)
  · exact .inr (.inr (.inl h))
  · refine .inr (.inr (.inr ⟨h, .link lk, hp, ?_⟩))
    simp only [nameBound, decide_eq_false_iff_not]
    exact hX d name k hpath

end InToto
