import InToto.Json
/-!
# `strLe` is a total order; sorting members is insensitive to the supplied order
-/
namespace InToto

theorem strLe_refl : ∀ a : Str, strLe a a = true
  | [] => rfl
  | c :: cs => by simp [strLe, strLe_refl cs]

theorem strLe_total : ∀ a b : Str, strLe a b = true ∨ strLe b a = true
  | [], _ => .inl rfl
  | _ :: _, [] => .inr rfl
  | a :: as, b :: bs => by
    simp only [strLe]
    by_cases h1 : a.toNat < b.toNat
    · simp [h1]
    · by_cases h2 : b.toNat < a.toNat
      · simp [h2]
      · simp only [h1, h2, if_false]
        exact strLe_total as bs

theorem strLe_antisymm : ∀ a b : Str, strLe a b = true → strLe b a = true → a = b
  | [], [], _, _ => rfl
  | [], _ :: _, _, h => by simp [strLe] at h
  | _ :: _, [], h, _ => by simp [strLe] at h
  | a :: as, b :: bs, h1, h2 => by
    simp only [strLe] at h1 h2
    by_cases hab : a.toNat < b.toNat
    · have : ¬ b.toNat < a.toNat := by omega
      simp [hab, this] at h2
    · by_cases hba : b.toNat < a.toNat
      · simp [hab, hba] at h1
      · simp only [hab, hba, if_false] at h1 h2
        have : a = b := Char.toNat_inj.mp (by omega)
        rw [this, strLe_antisymm as bs h1 h2]

theorem strLe_trans : ∀ a b c : Str, strLe a b = true → strLe b c = true → strLe a c = true
  | [], _, _, _, _ => rfl
  | _ :: _, [], _, h, _ => by simp [strLe] at h
  | _ :: _, _ :: _, [], _, h => by simp [strLe] at h
  | a :: as, b :: bs, c :: cs, h1, h2 => by
    simp only [strLe] at h1 h2 ⊢
    by_cases hab : a.toNat < b.toNat
    · by_cases hbc : b.toNat < c.toNat
      · have : a.toNat < c.toNat := by omega
        simp [this]
      · by_cases hcb : c.toNat < b.toNat
        · simp [hbc, hcb] at h2
        · have : a.toNat < c.toNat := by omega
          simp [this]
    · by_cases hba : b.toNat < a.toNat
      · simp [hab, hba] at h1
      · simp only [hab, hba, if_false] at h1
        have hab' : a.toNat = b.toNat := by omega
        by_cases hbc : b.toNat < c.toNat
        · have : a.toNat < c.toNat := by omega
          simp [this]
        · by_cases hcb : c.toNat < b.toNat
          · simp [hbc, hcb] at h2
          · simp only [hbc, hcb, if_false] at h2
            have h3 : ¬ a.toNat < c.toNat := by omega
            have h4 : ¬ c.toNat < a.toNat := by omega
            simp only [h3, h4, if_false]
            exact strLe_trans as bs cs h1 h2

/-- Members supplied in any order (distinct keys) are sorted into the same list. -/
theorem sortMembers_perm {α : Type} {l l' : List (Str × α)} (hp : l.Perm l') (hn : (l.map (·.1)).Nodup) :
    sortMembers l = sortMembers l' := by
  unfold sortMembers
  apply List.Perm.eq_of_pairwise (le := fun a b => strLe a.1 b.1 = true)
  · intro a b ha hb hab hba
    have hk : a.1 = b.1 := strLe_antisymm _ _ hab hba
    have ha' : a ∈ l := (List.mergeSort_perm l _).subset ha
    have hb' : b ∈ l := hp.symm.subset ((List.mergeSort_perm l' _).subset hb)
    -- distinct keys: equal keys, equal entries
    clear hab hba ha hb hp
    induction l with
    | nil => cases ha'
    | cons x xs ih =>
      simp only [List.map_cons, List.nodup_cons] at hn
      rcases List.mem_cons.mp ha' with hax | ha'
      · rcases List.mem_cons.mp hb' with hbx | hb'
        · rw [hax, hbx]
        · exfalso
          apply hn.1
          rw [← hax, hk]
          exact List.mem_map_of_mem (f := (·.1)) hb'
      · rcases List.mem_cons.mp hb' with hbx | hb'
        · exfalso
          apply hn.1
          rw [← hbx, ← hk]
          exact List.mem_map_of_mem (f := (·.1)) ha'
        · exact ih hn.2 ha' hb'
  · exact List.pairwise_mergeSort (le := fun (a b : Str × α) => strLe a.1 b.1)
      (fun a b c h1 h2 => strLe_trans a.1 b.1 c.1 h1 h2) (fun a b => by
      rcases strLe_total a.1 b.1 with h | h <;> simp [h]) l
  · exact List.pairwise_mergeSort (le := fun (a b : Str × α) => strLe a.1 b.1)
      (fun a b c h1 h2 => strLe_trans a.1 b.1 c.1 h1 h2) (fun a b => by
      rcases strLe_total a.1 b.1 with h | h <;> simp [h]) l'
  · exact (List.mergeSort_perm l _).trans (hp.trans (List.mergeSort_perm l' _).symm)

end InToto
