import InToto.Verify
/-!
# Helper lemmas about the verification pipeline (inversion of `verify`)
-/
namespace InToto

variable (gm : Str → Str → Bool) (w : World)

/-- The recursive call `verify_sublayouts` makes. -/
abbrev recurOf (fuel : Nat) : Metadata → List (Str × JVal) → Str → Str → VerifyOut :=
  fun md' keys' dir' name' => verify gm w fuel md' keys' dir' none name'

/-- Everything a successful verification went through. -/
structure Stages (fuel : Nat) (md : Metadata) (keys : List (Str × JVal)) (dir : Str)
    (params : Option (List (Str × Option Str))) (stepName : Str) (s : Link) : Type where
  layout : Layout
  loaded : Dict Str (Dict Str Metadata)
  stepsMd : Dict Str (Dict Str Metadata)
  chain : Dict Str (Dict Str Link)
  tr1 : List (List Str)
  reduced : Dict Str Link
  inspLinks : Dict Str Link
  tr2 : List (List Str)
  hgate : gate w md keys params = .ok layout
  hload : loadLinksForLayout w layout dir = .ok loaded
  hsig : verifyLinkSignatureThresholds w layout loaded = .ok stepsMd
  hsub : verifySublayouts (recurOf gm w fuel) layout dir stepsMd [] = (.ok chain, tr1)
  hchain : checkChain gm layout chain = .ok reduced
  hinsp : runAllInspections w layout.inspect [] = (.ok inspLinks, tr2)
  hirules : checkInspections gm layout reduced inspLinks = .ok ()
  hsummary : getSummaryLink layout reduced stepName = .ok s
  htrace : (verify gm w (fuel + 1) md keys dir params stepName).trace = tr1 ++ tr2

theorem verify_zero (md : Metadata) (keys : List (Str × JVal)) (dir : Str)
    (params : Option (List (Str × Option Str))) (stepName : Str) :
    (verify gm w 0 md keys dir params stepName).result = .error .recursion := rfl

/-- Inversion: a successful `verify` passed every stage. -/
theorem verify_ok_inv {fuel : Nat} {md : Metadata} {keys : List (Str × JVal)} {dir : Str}
    {params : Option (List (Str × Option Str))} {stepName : Str} {s : Link}
    (h : (verify gm w (fuel + 1) md keys dir params stepName).result = .ok s) :
    Nonempty (Stages gm w fuel md keys dir params stepName s) := by
  unfold verify at h
  split at h
  · cases h
  · rename_i layout hgate
    split at h
    · cases h
    · rename_i loaded hload
      split at h
      · cases h
      · rename_i stepsMd hsig
        split at h
        · cases h
        · rename_i chain tr1 hsub
          split at h
          · cases h
          · rename_i reduced hchain
            split at h
            · cases h
            · rename_i inspLinks tr2 hinsp
              split at h
              · cases h
              · rename_i u hir
                cases u
                refine ⟨⟨layout, loaded, stepsMd, chain, tr1, reduced, inspLinks, tr2, hgate, hload, hsig, hsub,
                  hchain, hinsp, hir, h, ?_⟩⟩
                unfold verify
                simp only [hgate, hload, hsig, hsub, hchain, hinsp, hir]

/-- No fuel, no acceptance. -/
theorem verify_ok_fuel_pos {fuel : Nat} {md : Metadata} {keys : List (Str × JVal)} {dir : Str}
    {params : Option (List (Str × Option Str))} {stepName : Str} {s : Link}
    (h : (verify gm w fuel md keys dir params stepName).result = .ok s) : ∃ n, fuel = n + 1 := by
  cases fuel with
  | zero => rw [verify_zero] at h; cases h
  | succ n => exact ⟨n, rfl⟩

/-- When the gate fails nothing else happens: the error is the gate's and no
command is executed. -/
theorem verify_gate_error {fuel : Nat} {md : Metadata} {keys : List (Str × JVal)} {dir : Str}
    {params : Option (List (Str × Option Str))} {stepName : Str} {e : Err}
    (h : gate w md keys params = .error e) :
    verify gm w (fuel + 1) md keys dir params stepName = { result := .error e, trace := [] } := by
  unfold verify
  simp only [h]

end InToto
