import Proofs.C07
import Proofs.C05
import Proofs.C10
/-!
# Forward lemmas for the end-to-end soundness theorem (`Proofs/Sound.lean`)

The stage theorems of C02 / C05 / C06 look backwards (whatever a stage hands on
stems from its input). To tie the stages together per step we also need to look
forwards: every step of the layout has its entry in each stage's dictionary,
and what is counted for the threshold is still there at the end. That needs the
keys of the dictionaries to be distinct, which holds because they are built by
`Dict.insert` from the empty dictionary.
-/
namespace InToto

variable (gm : Str → Str → Bool) (w : World)

/-! ## Dictionaries with distinct keys -/

theorem Dict.mem_of_get? {α : Type} : ∀ (d : Dict Str α) (k : Str) (v : α), d.get? k = some v → (k, v) ∈ d
  | [], _, _, h => by simp [Dict.get?] at h
  | p :: r, k, v, h => by
    by_cases hp : p.1 = k
    · simp only [Dict.get?, List.find?_cons, hp, decide_true, Option.map_some, Option.some.injEq] at h
      have : p = (k, v) := by
        obtain ⟨a, b⟩ := p
        simp only at hp h
        rw [hp, h]
      exact this ▸ List.mem_cons_self
    · have h' : Dict.get? r k = some v := by
        simp only [Dict.get?, List.find?_cons, hp, decide_false] at h ⊢
        exact h
      exact List.mem_cons_of_mem _ (Dict.mem_of_get? r k v h')

theorem Dict.get?_of_mem {α : Type} : ∀ (d : Dict Str α) (k : Str) (v : α), (d.map (·.1)).Nodup → (k, v) ∈ d →
    d.get? k = some v
  | p :: r, k, v, hn, h => by
    simp only [List.map_cons, List.nodup_cons] at hn
    rcases List.mem_cons.mp h with h | h
    · subst h
      simp [Dict.get?]
    · have hne : ¬ p.1 = k := by
        intro e
        exact hn.1 (e ▸ List.mem_map_of_mem (f := (·.1)) h)
      have := Dict.get?_of_mem r k v hn.2 h
      simp only [Dict.get?, List.find?_cons, hne, decide_false] at this ⊢
      exact this

theorem Dict.get?_none_of_not_mem {α : Type} : ∀ (d : Dict Str α) (k : Str), k ∉ d.map (·.1) → d.get? k = none
  | [], _, _ => by simp [Dict.get?]
  | p :: r, k, h => by
    simp only [List.map_cons, List.mem_cons, not_or] at h
    have hne : ¬ p.1 = k := fun e => h.1 e.symm
    have := Dict.get?_none_of_not_mem r k h.2
    simp only [Dict.get?, List.find?_cons, hne, decide_false] at this ⊢
    exact this

theorem Dict.keys_insert {α : Type} : ∀ (d : Dict Str α) (k : Str) (v : α),
    (Dict.insert d k v).map (·.1) = if k ∈ d.map (·.1) then d.map (·.1) else d.map (·.1) ++ [k]
  | [], k, v => by simp [Dict.insert]
  | (k', v') :: r, k, v => by
    simp only [Dict.insert]
    by_cases hk : k' = k
    · subst hk
      simp
    · have ih := Dict.keys_insert r k v
      have hk' : ¬ k = k' := fun e => hk e.symm
      simp only [hk, if_false, List.map_cons, ih, List.mem_cons, hk', false_or]
      split <;> simp

theorem Dict.nodup_insert {α : Type} (d : Dict Str α) (k : Str) (v : α) (h : (d.map (·.1)).Nodup) :
    ((Dict.insert d k v).map (·.1)).Nodup := by
  rw [Dict.keys_insert]
  split
  · exact h
  · rename_i hk
    rw [List.nodup_append]
    refine ⟨h, by simp, ?_⟩
    intro a ha b hb
    simp only [List.mem_singleton] at hb
    subst hb
    intro e
    exact hk (e ▸ ha)

theorem Dict.mem_insert_self {α : Type} : ∀ (d : Dict Str α) (k : Str) (v : α), (k, v) ∈ Dict.insert d k v
  | [], _, _ => by simp [Dict.insert]
  | (k', v') :: r, k, v => by
    simp only [Dict.insert]
    split
    · exact List.mem_cons_self
    · exact List.mem_cons_of_mem _ (Dict.mem_insert_self r k v)

theorem Dict.mem_insert_of_ne {α : Type} : ∀ (d : Dict Str α) (k : Str) (v : α) (p : Str × α), p ∈ d → p.1 ≠ k →
    p ∈ Dict.insert d k v
  | (k', v') :: r, k, v, p, h, hne => by
    simp only [Dict.insert]
    rcases List.mem_cons.mp h with h | h
    · subst h
      simp only at hne
      simp only [hne, if_false]
      exact List.mem_cons_self
    · split
      · exact List.mem_cons_of_mem _ h
      · exact List.mem_cons_of_mem _ (Dict.mem_insert_of_ne r k v p h hne)

/-! ## Loading -/

/-- Whatever is loaded for a step is the content of the file at the place where it
is looked for, under a candidate key id; and the key ids are distinct. -/
theorem loadStepLinks_inv (dir name : Str) :
    ∀ (ids : List Str) (acc res : Dict Str Metadata), loadStepLinks w dir name ids acc = .ok res →
      ((acc.map (·.1)).Nodup → (res.map (·.1)).Nodup) ∧
      ∀ p ∈ res, p ∈ acc ∨ (p.1 ∈ ids ∧ loadFile w (pathJoin dir (linkFileName name p.1)) = some (.ok p.2)) := by
  intro ids
  induction ids with
  | nil =>
    intro acc res h
    simp only [loadStepLinks] at h
    cases h
    exact ⟨id, fun p hp => .inl hp⟩
  | cons kid rest ih =>
    intro acc res h
    simp only [loadStepLinks] at h
    split at h
    · obtain ⟨h1, h2⟩ := ih _ _ h
      refine ⟨h1, fun p hp => ?_⟩
      rcases h2 p hp with h | ⟨h, hf⟩
      · exact .inl h
      · exact .inr ⟨List.mem_cons_of_mem _ h, hf⟩
    · cases h
    · rename_i md hload
      obtain ⟨h1, h2⟩ := ih _ _ h
      refine ⟨fun hn => h1 (Dict.nodup_insert _ _ _ hn), fun p hp => ?_⟩
      rcases h2 p hp with h | ⟨h, hf⟩
      · rcases Dict.mem_insert _ _ _ _ h with h | h
        · subst h
          exact .inr ⟨List.mem_cons_self, hload⟩
        · exact .inl h
      · exact .inr ⟨List.mem_cons_of_mem _ h, hf⟩

theorem nameOf_ok_iff (o : Option Str) (k : Str) : nameOf o = .ok k ↔ o = some k := by
  cases o with
  | none => simp [nameOf]
  | some s => simp [nameOf]

/-- Every step has its entry among the loaded links. -/
theorem loadLinksSteps_fwd (l : Layout) (dir : Str) :
    ∀ (steps : List Step) (acc res : Dict Str (Dict Str Metadata)), loadLinksSteps w l dir steps acc = .ok res →
      (∀ k, (∀ s ∈ steps, s.name ≠ some k) → Dict.get? res k = Dict.get? acc k) ∧
      ((steps.map (·.name)).Nodup → ∀ step ∈ steps, ∀ name, step.name = some name →
        ∃ links, Dict.get? res name = some links ∧
          loadStepLinks w dir name (candidateIds l step) [] = .ok links) := by
  intro steps
  induction steps with
  | nil =>
    intro acc res h
    simp only [loadLinksSteps] at h
    cases h
    exact ⟨fun _ _ => rfl, fun _ s hs => by cases hs⟩
  | cons step rest ih =>
    intro acc res h
    simp only [loadLinksSteps] at h
    split at h
    · cases h
    · rename_i name hname
      rw [nameOf_ok_iff] at hname
      split at h
      · cases h
      · rename_i links hlinks
        split at h
        · cases h
        · obtain ⟨h1, h2⟩ := ih _ _ h
          refine ⟨?_, ?_⟩
          · intro k hk
            rw [h1 k (fun s hs => hk s (List.mem_cons_of_mem _ hs))]
            have : k ≠ name := by
              intro e
              exact hk step List.mem_cons_self (e ▸ hname)
            exact Dict.get?_insert_of_ne _ _ _ _ this
          · intro hn s hs nm hnm
            simp only [List.map_cons, List.nodup_cons] at hn
            rcases List.mem_cons.mp hs with rfl | hs
            · rw [hname] at hnm
              cases hnm
              refine ⟨links, ?_, hlinks⟩
              rw [h1 name]
              · exact Dict.get?_insert_self _ _ _
              · intro s' hs' e
                exact hn.1 (hname ▸ e ▸ List.mem_map_of_mem (f := (·.name)) hs')
            · exact h2 hn.2 s hs nm hnm

/-! ## The signature / threshold stage -/

/-- An entry that is already retained and whose key id does not come up again stays. -/
theorem verifyStepLinks_mono (l : Layout) (subMap : Dict Str JVal) (step : Step) (stepName : Str) :
    ∀ (input : List (Str × Metadata)) (kept0 : Dict Str Metadata) (used0 : List Str)
      (kept : Dict Str Metadata) (used : List Str),
      verifyStepLinks w l subMap step stepName input kept0 used0 = .ok (kept, used) →
      ((kept0.map (·.1)).Nodup → (kept.map (·.1)).Nodup) ∧
      ∀ p ∈ kept0, p.1 ∉ input.map (·.1) → p ∈ kept := by
  intro input
  induction input with
  | nil =>
    intro kept0 used0 kept used h
    simp only [verifyStepLinks] at h
    cases h
    exact ⟨id, fun p hp _ => hp⟩
  | cons x rest ih =>
    intro kept0 used0 kept used h
    obtain ⟨kid, md⟩ := x
    have skip : verifyStepLinks w l subMap step stepName rest kept0 used0 = .ok (kept, used) →
        ((kept0.map (·.1)).Nodup → (kept.map (·.1)).Nodup) ∧
        ∀ p ∈ kept0, p.1 ∉ ((kid, md) :: rest).map (·.1) → p ∈ kept := by
      intro h'
      obtain ⟨h1, h2⟩ := ih _ _ _ _ h'
      refine ⟨h1, fun p hp hnot => h2 p hp ?_⟩
      intro hin
      exact hnot (List.mem_cons_of_mem _ hin)
    simp only [verifyStepLinks] at h
    split at h
    · cases h
    · exact skip h
    · rename_i vkey mainId hauth
      split at h
      · exact skip h
      · exact skip h
      · split at h
        · exact skip h
        · cases h
      · split at h
        · cases h
        · rename_i payload hp
          split at h
          · exact skip h
          · obtain ⟨h1, h2⟩ := ih _ _ _ _ h
            refine ⟨fun hn => h1 (Dict.nodup_insert _ _ _ hn), fun p hp hnot => h2 p ?_ ?_⟩
            · apply Dict.mem_insert_of_ne _ _ _ _ hp
              intro e
              exact hnot (by simp [e])
            · intro hin
              exact hnot (List.mem_cons_of_mem _ hin)

/-- With distinct key ids in the input, every counted functionary is backed by a
good link that is **retained** (not merely seen). -/
theorem verifyStepLinks_counted_kept (l : Layout) (subMap : Dict Str JVal) (step : Step) (stepName : Str) :
    ∀ (input : List (Str × Metadata)) (kept0 : Dict Str Metadata) (used0 : List Str)
      (kept : Dict Str Metadata) (used : List Str),
      verifyStepLinks w l subMap step stepName input kept0 used0 = .ok (kept, used) →
      (input.map (·.1)).Nodup →
      ∀ d ∈ used, d ∈ used0 ∨ ∃ p ∈ kept, p ∈ input ∧ GoodLink w l subMap step stepName p.1 p.2 d := by
  intro input
  induction input with
  | nil =>
    intro kept0 used0 kept used h _
    simp only [verifyStepLinks] at h
    cases h
    exact fun d hd => .inl hd
  | cons x rest ih =>
    intro kept0 used0 kept used h hn
    obtain ⟨kid, md⟩ := x
    simp only [List.map_cons, List.nodup_cons] at hn
    have skip : verifyStepLinks w l subMap step stepName rest kept0 used0 = .ok (kept, used) →
        ∀ d ∈ used, d ∈ used0 ∨ ∃ p ∈ kept, p ∈ (kid, md) :: rest ∧ GoodLink w l subMap step stepName p.1 p.2 d := by
      intro h' d hd
      rcases ih _ _ _ _ h' hn.2 d hd with h | ⟨p, hp, hin, hg⟩
      · exact .inl h
      · exact .inr ⟨p, hp, List.mem_cons_of_mem _ hin, hg⟩
    simp only [verifyStepLinks] at h
    split at h
    · cases h
    · exact skip h
    · rename_i vkey mainId hauth
      split at h
      · exact skip h
      · exact skip h
      · split at h
        · exact skip h
        · cases h
      · rename_i hsig
        split at h
        · cases h
        · rename_i payload hp
          split at h
          · exact skip h
          · rename_i hnb
            intro d hd
            rcases ih _ _ _ _ h hn.2 d hd with h' | ⟨p, hp', hin, hg⟩
            · rcases List.mem_append.mp h' with h' | h'
              · exact .inl h'
              · simp only [List.mem_singleton] at h'
                subst h'
                refine .inr ⟨(kid, md), ?_, List.mem_cons_self, ?_⟩
                · exact (verifyStepLinks_mono w l subMap step stepName _ _ _ _ _ h).2 _
                    (Dict.mem_insert_self _ _ _) hn.1
                · refine ⟨vkey, authorise_sound _ _ _ _ _ _ hauth, hsig, payload, hp, ?_⟩
                  intro lk hlk
                  subst hlk
                  simpa [nameBound] using hnb
            · exact .inr ⟨p, hp', List.mem_cons_of_mem _ hin, hg⟩

/-- Every step has its entry among the retained links: the result of the
per-step loop over what was loaded for it, with the threshold met. -/
theorem verifySigSteps_fwd (l : Layout) (subMap : Dict Str JVal) (loaded : Dict Str (Dict Str Metadata)) :
    ∀ (steps : List Step) (acc res : Dict Str (Dict Str Metadata)),
      verifySigSteps w l subMap loaded steps acc = .ok res →
      ((acc.map (·.1)).Nodup → (res.map (·.1)).Nodup) ∧
      (∀ k, (∀ s ∈ steps, s.name ≠ some k) → Dict.get? res k = Dict.get? acc k) ∧
      ((steps.map (·.name)).Nodup → ∀ step ∈ steps, ∀ name, step.name = some name →
        ∃ kept used, Dict.get? res name = some kept ∧
          verifyStepLinks w l subMap step name ((Dict.get? loaded name).getD []) [] [] = .ok (kept, used) ∧
          step.threshold ≤ ((dedup used).length : Int)) := by
  intro steps
  induction steps with
  | nil =>
    intro acc res h
    simp only [verifySigSteps] at h
    cases h
    exact ⟨id, fun _ _ => rfl, fun _ s hs => by cases hs⟩
  | cons step rest ih =>
    intro acc res h
    simp only [verifySigSteps] at h
    split at h
    · cases h
    · rename_i name hname
      rw [nameOf_ok_iff] at hname
      split at h
      · cases h
      · rename_i kept used hstep
        split at h
        · cases h
        · rename_i hthr
          obtain ⟨h0, h1, h2⟩ := ih _ _ h
          refine ⟨fun hn => h0 (Dict.nodup_insert _ _ _ hn), ?_, ?_⟩
          · intro k hk
            rw [h1 k (fun s hs => hk s (List.mem_cons_of_mem _ hs))]
            have : k ≠ name := by
              intro e
              exact hk step List.mem_cons_self (e ▸ hname)
            exact Dict.get?_insert_of_ne _ _ _ _ this
          · intro hn s hs nm hnm
            simp only [List.map_cons, List.nodup_cons] at hn
            rcases List.mem_cons.mp hs with rfl | hs
            · rw [hname] at hnm
              cases hnm
              refine ⟨kept, used, ?_, hstep, by omega⟩
              rw [h1 name]
              · exact Dict.get?_insert_self _ _ _
              · intro s' hs' e
                exact hn.1 (hname ▸ e ▸ List.mem_map_of_mem (f := (·.name)) hs')
            · exact h2 hn.2 s hs nm hnm

/-! ## Sublayouts -/

theorem verifySublayoutsStep_mono (fuel : Nat) (l : Layout) (dir stepName : Str) :
    ∀ (input : List (Str × Metadata)) (acc res : Dict Str Link) (tr : List (List Str)),
      verifySublayoutsStep (recurOf gm w fuel) l dir stepName input acc = (.ok res, tr) →
      ∀ q ∈ acc, q.1 ∉ input.map (·.1) → q ∈ res := by
  intro input
  induction input with
  | nil =>
    intro acc res tr h
    simp only [verifySublayoutsStep] at h
    cases h
    exact fun q hq _ => hq
  | cons x rest ih =>
    intro acc res tr h q hq hnot
    obtain ⟨kid, md⟩ := x
    have hne : q.1 ≠ kid := fun e => hnot (by simp [e])
    have hrest : q.1 ∉ rest.map (·.1) := fun hin => hnot (List.mem_cons_of_mem _ hin)
    simp only [verifySublayoutsStep] at h
    split at h
    · cases h
    · exact ih _ _ _ h q (Dict.mem_insert_of_ne _ _ _ _ hq hne) hrest
    · split at h
      · cases h
      · rename_i summary hres
        cases hrec : verifySublayoutsStep (recurOf gm w fuel) l dir stepName rest (Dict.insert acc kid summary) with
        | mk r' tr' =>
          rw [hrec] at h
          simp only at h
          cases h
          exact ih _ _ _ hrec q (Dict.mem_insert_of_ne _ _ _ _ hq hne) hrest

/-- With distinct key ids, every retained entry of a step has its link in the
result, under the same key id. -/
theorem verifySublayoutsStep_fwd (fuel : Nat) (l : Layout) (dir stepName : Str) :
    ∀ (input : List (Str × Metadata)) (acc res : Dict Str Link) (tr : List (List Str)),
      verifySublayoutsStep (recurOf gm w fuel) l dir stepName input acc = (.ok res, tr) →
      (input.map (·.1)).Nodup →
      ∀ p ∈ input, ∃ lk, (p.1, lk) ∈ res ∧ EntryLink gm w fuel l dir stepName p.1 p.2 lk := by
  intro input
  induction input with
  | nil =>
    intro acc res tr _ _ p hp
    cases hp
  | cons x rest ih =>
    intro acc res tr h hn p hp
    obtain ⟨kid, md⟩ := x
    simp only [List.map_cons, List.nodup_cons] at hn
    simp only [verifySublayoutsStep] at h
    split at h
    · cases h
    · rename_i lk hpay
      rcases List.mem_cons.mp hp with rfl | hp
      · exact ⟨lk, verifySublayoutsStep_mono gm w fuel l dir stepName _ _ _ _ h _ (Dict.mem_insert_self _ _ _) hn.1,
          .inl hpay⟩
      · exact ih _ _ _ h hn.2 p hp
    · rename_i sub hpay
      split at h
      · cases h
      · rename_i summary hres
        cases hrec : verifySublayoutsStep (recurOf gm w fuel) l dir stepName rest (Dict.insert acc kid summary) with
        | mk r' tr' =>
          rw [hrec] at h
          simp only at h
          cases h
          rcases List.mem_cons.mp hp with rfl | hp
          · exact ⟨summary,
              verifySublayoutsStep_mono gm w fuel l dir stepName _ _ _ _ hrec _ (Dict.mem_insert_self _ _ _) hn.1,
              .inr ⟨sub, hpay, hres⟩⟩
          · exact ih _ _ _ hrec hn.2 p hp

/-- Every entry of the retained links has its entry in the chain. -/
theorem verifySublayouts_fwd (fuel : Nat) (l : Layout) (dir : Str) :
    ∀ (steps : List (Str × Dict Str Metadata)) (acc res : Dict Str (Dict Str Link)) (tr : List (List Str)),
      verifySublayouts (recurOf gm w fuel) l dir steps acc = (.ok res, tr) →
      (∀ k, k ∉ steps.map (·.1) → Dict.get? res k = Dict.get? acc k) ∧
      ((steps.map (·.1)).Nodup → ∀ sm ∈ steps, ∃ links tr', Dict.get? res sm.1 = some links ∧
        verifySublayoutsStep (recurOf gm w fuel) l dir sm.1 sm.2 [] = (.ok links, tr')) := by
  intro steps
  induction steps with
  | nil =>
    intro acc res tr h
    simp only [verifySublayouts] at h
    cases h
    exact ⟨fun _ _ => rfl, fun _ s hs => by cases hs⟩
  | cons x rest ih =>
    intro acc res tr h
    obtain ⟨stepName, mds⟩ := x
    simp only [verifySublayouts] at h
    split at h
    · cases h
    · rename_i links tr0 hstep
      cases hrec : verifySublayouts (recurOf gm w fuel) l dir rest (Dict.insert acc stepName links) with
      | mk r' tr' =>
        rw [hrec] at h
        simp only at h
        cases h
        obtain ⟨h1, h2⟩ := ih _ _ _ hrec
        refine ⟨?_, ?_⟩
        · intro k hk
          simp only [List.map_cons, List.mem_cons, not_or] at hk
          rw [h1 k hk.2]
          exact Dict.get?_insert_of_ne _ _ _ _ hk.1
        · intro hn sm hsm
          simp only [List.map_cons, List.nodup_cons] at hn
          rcases List.mem_cons.mp hsm with rfl | hsm
          · refine ⟨links, tr0, ?_, hstep⟩
            rw [h1 _ hn.1]
            exact Dict.get?_insert_self _ _ _
          · exact h2 hn.2 sm hsm

/-! ## Reduction -/

/-- The link used for a step is the first of its chain entry. -/
theorem reduce_get? : ∀ (chain : Dict Str (Dict Str Link)) (reduced : Dict Str Link),
    reduceChainLinks chain = .ok reduced →
    ∀ name links, Dict.get? chain name = some links →
      ∃ kid lk, links.head? = some (kid, lk) ∧ Dict.get? reduced name = some lk := by
  intro chain
  induction chain with
  | nil =>
    intro reduced _ name links h
    simp [Dict.get?] at h
  | cons x rest ih =>
    intro reduced h name links hg
    obtain ⟨n, ls⟩ := x
    simp only [reduceChainLinks, mapE] at h
    split at h
    · cases h
    · rename_i y hy
      split at h
      · cases h
      · rename_i ys hys
        cases h
        cases ls with
        | nil => simp at hy
        | cons hd tl =>
          obtain ⟨kid, lk⟩ := hd
          simp only [Except.ok.injEq] at hy
          subst hy
          by_cases hn : n = name
          · subst hn
            simp only [Dict.get?, List.find?_cons, decide_true, Option.map_some, Option.some.injEq] at hg
            subst hg
            exact ⟨kid, lk, rfl, by simp [Dict.get?]⟩
          · have hg' : Dict.get? rest name = some links := by
              simp only [Dict.get?, List.find?_cons, hn, decide_false] at hg ⊢
              exact hg
            obtain ⟨kid', lk', hh, hr⟩ := ih ys hys name links hg'
            refine ⟨kid', lk', hh, ?_⟩
            simp only [Dict.get?, List.find?_cons, hn, decide_false] at hr ⊢
            exact hr

end InToto
