import Proofs.Lemmas.Sort
import InToto.Meta
/-!
# Injectivity of canonical JSON (`encode_canonical`) and of the DSSE PAE

`canon v = canon w → norm v = norm w` for float-free values, where `norm` sorts
the members of every object: the canonical bytes determine the value up to the
order in which members were supplied, at every nesting depth.
-/
namespace InToto

/-! ## Strings -/

theorem escChar_cases (c : Char) :
    (c = '\\' ∧ escChar c = ['\\', '\\']) ∨ (c = '"' ∧ escChar c = ['\\', '"']) ∨
    (c ≠ '\\' ∧ c ≠ '"' ∧ escChar c = [c]) := by
  unfold escChar
  by_cases h1 : c = '\\'
  · simp [h1]
  · by_cases h2 : c = '"'
    · subst h2; simp
    · simp [h1, h2]

theorem escChar_ne_quote (c : Char) (x s : Str) : escChar c ++ x ≠ '"' :: s := by
  rcases escChar_cases c with ⟨_, h⟩ | ⟨_, h⟩ | ⟨_, h2, h⟩ <;> rw [h] <;> simp
  intro hc; exact absurd hc h2

theorem escChar_inj (c d : Char) (x y : Str) (h : escChar c ++ x = escChar d ++ y) : c = d ∧ x = y := by
  rcases escChar_cases c with ⟨hc, ec⟩ | ⟨hc, ec⟩ | ⟨hc1, hc2, ec⟩ <;>
  rcases escChar_cases d with ⟨hd, ed⟩ | ⟨hd, ed⟩ | ⟨hd1, hd2, ed⟩ <;>
  rw [ec, ed] at h <;> simp at h
  · exact ⟨hc.trans hd.symm, h⟩
  · exact absurd h.1.symm hd1
  · exact ⟨hc.trans hd.symm, h⟩
  · exact absurd h.1.symm hd1
  · exact absurd h.1 hc1
  · exact absurd h.1 hc1
  · exact h

/-- Escaped text followed by a quote is uniquely decodable. -/
theorem esc_quote_inj : ∀ (a b s t : Str), esc a ++ '"' :: s = esc b ++ '"' :: t → a = b ∧ s = t := by
  intro a
  induction a with
  | nil =>
    intro b s t h
    cases b with
    | nil => simpa [esc] using h
    | cons d ds =>
      simp only [esc, List.nil_append, List.append_assoc] at h
      exact absurd h.symm (escChar_ne_quote d _ s)
  | cons c cs ih =>
    intro b s t h
    cases b with
    | nil =>
      simp only [esc, List.nil_append, List.append_assoc] at h
      exact absurd h (escChar_ne_quote c _ t)
    | cons d ds =>
      simp only [esc, List.append_assoc] at h
      obtain ⟨rfl, h'⟩ := escChar_inj c d _ _ h
      obtain ⟨rfl, rfl⟩ := ih _ _ _ h'
      exact ⟨rfl, rfl⟩

/-- A quoted string is self-delimiting. -/
theorem qstr_inj (a b s t : Str) (h : qstr a ++ s = qstr b ++ t) : a = b ∧ s = t := by
  simp only [qstr, List.cons_append, List.append_assoc, List.cons.injEq, true_and] at h
  exact esc_quote_inj a b s t h

/-! ## Integers -/

def isDigitC (c : Char) : Bool := c.isDigit

theorem natDigits_digits (n : Nat) : ∀ c ∈ natDigits n, isDigitC c = true := by
  intro c hc
  exact Nat.isDigit_of_mem_toDigits (b := 10) (by decide) (by decide) hc

theorem natDigits_ne_nil (n : Nat) : natDigits n ≠ [] := Nat.toDigits_ne_nil

theorem natDigits_inj (n m : Nat) (h : natDigits n = natDigits m) : n = m := by
  have hn := Nat.ofDigitChars_toDigits (b := 10) (n := n) (by decide) (by decide)
  have hm := Nat.ofDigitChars_toDigits (b := 10) (n := m) (by decide) (by decide)
  unfold natDigits at h
  rw [h] at hn
  exact hn.symm.trans hm

/-- Next character is not a digit (or there is none). -/
def NoDigitHead (s : Str) : Prop := ∀ c, s.head? = some c → isDigitC c = false

/-- Digit strings followed by a non-digit are uniquely decodable. -/
theorem digits_split : ∀ (a b s t : Str), (∀ c ∈ a, isDigitC c = true) → (∀ c ∈ b, isDigitC c = true) →
    NoDigitHead s → NoDigitHead t → a ++ s = b ++ t → a = b ∧ s = t := by
  intro a
  induction a with
  | nil =>
    intro b s t _ hb hs _ h
    cases b with
    | nil => simpa using h
    | cons d ds =>
      simp only [List.nil_append, List.cons_append] at h
      have := hs d (by rw [h]; rfl)
      rw [hb d List.mem_cons_self] at this
      cases this
  | cons c cs ih =>
    intro b s t ha hb hs ht h
    cases b with
    | nil =>
      simp only [List.nil_append, List.cons_append] at h
      have := ht c (by rw [← h]; rfl)
      rw [ha c List.mem_cons_self] at this
      cases this
    | cons d ds =>
      simp only [List.cons_append, List.cons.injEq] at h
      obtain ⟨rfl, h⟩ := h
      obtain ⟨rfl, rfl⟩ := ih ds s t (fun x hx => ha x (List.mem_cons_of_mem _ hx))
        (fun x hx => hb x (List.mem_cons_of_mem _ hx)) hs ht h
      exact ⟨rfl, rfl⟩

theorem intStr_inj (n m : Int) (s t : Str) (hs : NoDigitHead s) (ht : NoDigitHead t)
    (h : intStr n ++ s = intStr m ++ t) : n = m ∧ s = t := by
  cases n with
  | ofNat a =>
    cases m with
    | ofNat b =>
      simp only [intStr] at h
      obtain ⟨hd, hst⟩ := digits_split _ _ s t (natDigits_digits a) (natDigits_digits b) hs ht h
      exact ⟨by rw [natDigits_inj a b hd], hst⟩
    | negSucc b =>
      simp only [intStr, List.cons_append] at h
      cases hda : natDigits a with
      | nil => exact absurd hda (natDigits_ne_nil a)
      | cons c cs =>
        rw [hda] at h
        simp only [List.cons_append, List.cons.injEq] at h
        have := natDigits_digits a c (by rw [hda]; exact List.mem_cons_self)
        rw [h.1] at this
        exact absurd this (by decide)
  | negSucc a =>
    cases m with
    | ofNat b =>
      simp only [intStr, List.cons_append] at h
      cases hdb : natDigits b with
      | nil => exact absurd hdb (natDigits_ne_nil b)
      | cons c cs =>
        rw [hdb] at h
        simp only [List.cons_append, List.cons.injEq] at h
        have := natDigits_digits b c (by rw [hdb]; exact List.mem_cons_self)
        rw [← h.1] at this
        exact absurd this (by decide)
    | negSucc b =>
      simp only [intStr, List.cons_append, List.cons.injEq, true_and] at h
      obtain ⟨hd, hst⟩ := digits_split _ _ s t (natDigits_digits (a + 1)) (natDigits_digits (b + 1)) hs ht h
      have := natDigits_inj _ _ hd
      exact ⟨by rw [show a = b by omega], hst⟩

/-- The first character of a rendered integer: a digit or a minus sign. -/
theorem intStr_head (n : Int) : ∃ c rest, intStr n = c :: rest ∧ (isDigitC c = true ∨ c = '-') := by
  cases n with
  | ofNat a =>
    simp only [intStr]
    cases hda : natDigits a with
    | nil => exact absurd hda (natDigits_ne_nil a)
    | cons c cs => exact ⟨c, cs, rfl, .inl (natDigits_digits a c (by rw [hda]; exact List.mem_cons_self))⟩
  | negSucc a => exact ⟨'-', _, rfl, .inr rfl⟩


/-! ## Rendering without sorting

`enc` renders a value the way `canon` does but keeps the members of objects in
the order given, and (unlike `canon`) renders a float as a tagged string so that
`enc` is total and injective on *all* values. `canon v = some (enc (norm v))`
(`canon_eq_enc_norm`), and `enc` is uniquely decodable (`enc_inj`). -/

mutual
def enc : JVal → Str
  | .str s => qstr s
  | .int n => intStr n
  | .bool true => lit "true"
  | .bool false => lit "false"
  | .null => lit "null"
  | .float r => 'F' :: qstr r
  | .arr xs => '[' :: (joinWith [','] (encList xs) ++ [']'])
  | .obj kvs => '{' :: (renderMembers (encMembers kvs) ++ ['}'])
def encList : List JVal → List Str
  | [] => []
  | x :: r => enc x :: encList r
def encMembers : List (Str × JVal) → List (Str × Str)
  | [] => []
  | (k, v) :: r => (k, enc v) :: encMembers r
end

/-- What follows the first element of an array body: `,elem`* then `]`. -/
def listTail : List Str → Str → Str
  | [], s => ']' :: s
  | a :: r, s => ',' :: (a ++ listTail r s)

/-- An array body followed by `s`. -/
def listBody : List Str → Str → Str
  | [], s => ']' :: s
  | a :: r, s => a ++ listTail r s

theorem joinWith_listBody : ∀ (rs : List Str) (s : Str), joinWith [','] rs ++ ']' :: s = listBody rs s
  | [], s => rfl
  | [a], s => rfl
  | a :: b :: r, s => by
    have ih := joinWith_listBody (b :: r) s
    simp only [joinWith, listBody, listTail, List.append_assoc, List.cons_append, List.nil_append] at ih ⊢
    rw [ih]

def memTail : List (Str × Str) → Str → Str
  | [], s => '}' :: s
  | (k, v) :: r, s => ',' :: (qstr k ++ ':' :: (v ++ memTail r s))

def memBody : List (Str × Str) → Str → Str
  | [], s => '}' :: s
  | (k, v) :: r, s => qstr k ++ ':' :: (v ++ memTail r s)

theorem renderMembers_memBody : ∀ (ms : List (Str × Str)) (s : Str), renderMembers ms ++ '}' :: s = memBody ms s
  | [], s => rfl
  | [(k, v)], s => by simp [renderMembers, memBody, memTail]
  | (k, v) :: y :: r, s => by
    have ih := renderMembers_memBody (y :: r) s
    obtain ⟨k2, v2⟩ := y
    simp only [renderMembers, memBody, memTail, List.append_assoc, List.cons_append] at ih ⊢
    rw [ih]

/-- Class of a value by its first rendered character. -/
def kind : JVal → Nat
  | .str _ => 0
  | .int _ => 1
  | .bool true => 2
  | .bool false => 3
  | .null => 4
  | .arr _ => 5
  | .obj _ => 6
  | .float _ => 7

def charKind (c : Char) : Nat :=
  if c = '"' then 0 else if isDigitC c = true ∨ c = '-' then 1 else if c = 't' then 2 else if c = 'f' then 3
  else if c = 'n' then 4 else if c = '[' then 5 else if c = '{' then 6 else if c = 'F' then 7 else 8

theorem charKind_digit (c : Char) (h : isDigitC c = true ∨ c = '-') : charKind c = 1 := by
  unfold charKind
  have : c ≠ '"' := by
    rcases h with h | h
    · intro hc; rw [hc] at h; exact absurd h (by decide)
    · rw [h]; decide
  simp [this, h]

theorem enc_head (v : JVal) : ∃ c rest, enc v = c :: rest ∧ charKind c = kind v := by
  cases v with
  | str s => exact ⟨'"', _, rfl, rfl⟩
  | int n =>
    obtain ⟨c, rest, h, hc⟩ := intStr_head n
    exact ⟨c, rest, by simp [enc, h], charKind_digit c hc⟩
  | bool b =>
    cases b
    · exact ⟨'f', ['a', 'l', 's', 'e'], rfl, rfl⟩
    · exact ⟨'t', ['r', 'u', 'e'], rfl, rfl⟩
  | null => exact ⟨'n', ['u', 'l', 'l'], rfl, rfl⟩
  | float r => exact ⟨'F', _, rfl, rfl⟩
  | arr xs => exact ⟨'[', joinWith [','] (encList xs) ++ [']'], by simp only [enc], rfl⟩
  | obj kvs => exact ⟨'{', renderMembers (encMembers kvs) ++ ['}'], by simp only [enc], rfl⟩

theorem kind_eq_of_enc_eq (v w : JVal) (s t : Str) (h : enc v ++ s = enc w ++ t) : kind v = kind w := by
  obtain ⟨c, r, hv, hc⟩ := enc_head v
  obtain ⟨d, r', hw, hd⟩ := enc_head w
  rw [hv, hw] at h
  simp only [List.cons_append, List.cons.injEq] at h
  rw [← hc, ← hd, h.1]

theorem enc_head_ne (v : JVal) (s : Str) (c : Char) (t : Str) (hc : charKind c = 8) : enc v ++ s ≠ c :: t := by
  obtain ⟨d, r, hv, hd⟩ := enc_head v
  rw [hv]
  intro h
  simp only [List.cons_append, List.cons.injEq] at h
  rw [h.1, hc] at hd
  cases v with
  | bool b => cases b <;> simp [kind] at hd
  | _ => simp [kind] at hd


/-! ## `enc` is uniquely decodable -/

theorem noDigit_nil : NoDigitHead [] := by intro c h; cases h

theorem noDigit_cons (c : Char) (s : Str) (h : isDigitC c = false) : NoDigitHead (c :: s) := by
  intro d hd
  simp only [List.head?_cons, Option.some.injEq] at hd
  rw [← hd]; exact h

theorem listTail_noDigit (rs : List Str) (s : Str) : NoDigitHead (listTail rs s) := by
  cases rs with
  | nil => exact noDigit_cons _ _ (by decide)
  | cons a r => exact noDigit_cons _ _ (by decide)

theorem memTail_noDigit (ms : List (Str × Str)) (s : Str) : NoDigitHead (memTail ms s) := by
  cases ms with
  | nil => exact noDigit_cons _ _ (by decide)
  | cons a r => obtain ⟨k, v⟩ := a; exact noDigit_cons _ _ (by decide)

mutual
/-- A rendered value followed by a non-digit (or nothing) determines the value
and the rest. -/
theorem enc_inj : ∀ (v w : JVal) (s t : Str), NoDigitHead s → NoDigitHead t →
    enc v ++ s = enc w ++ t → v = w ∧ s = t
  | .str a, w, s, t, _, _, h => by
    have hk := kind_eq_of_enc_eq _ _ _ _ h
    cases w with
    | str b =>
      simp only [enc] at h
      obtain ⟨rfl, rfl⟩ := qstr_inj a b s t h
      exact ⟨rfl, rfl⟩
    | bool b => cases b <;> simp [kind] at hk
    | _ => simp [kind] at hk
  | .int a, w, s, t, hs, ht, h => by
    have hk := kind_eq_of_enc_eq _ _ _ _ h
    cases w with
    | int b =>
      simp only [enc] at h
      obtain ⟨rfl, rfl⟩ := intStr_inj a b s t hs ht h
      exact ⟨rfl, rfl⟩
    | bool b => cases b <;> simp [kind] at hk
    | _ => simp [kind] at hk
  | .bool true, w, s, t, _, _, h => by
    have hk := kind_eq_of_enc_eq _ _ _ _ h
    cases w with
    | bool b =>
      cases b
      · simp [kind] at hk
      · simp only [enc, List.append_cancel_left_eq] at h
        exact ⟨rfl, h⟩
    | _ => simp [kind] at hk
  | .bool false, w, s, t, _, _, h => by
    have hk := kind_eq_of_enc_eq _ _ _ _ h
    cases w with
    | bool b =>
      cases b
      · simp only [enc, List.append_cancel_left_eq] at h
        exact ⟨rfl, h⟩
      · simp [kind] at hk
    | _ => simp [kind] at hk
  | .null, w, s, t, _, _, h => by
    have hk := kind_eq_of_enc_eq _ _ _ _ h
    cases w with
    | null =>
      simp only [enc, List.append_cancel_left_eq] at h
      exact ⟨rfl, h⟩
    | bool b => cases b <;> simp [kind] at hk
    | _ => simp [kind] at hk
  | .float a, w, s, t, _, _, h => by
    have hk := kind_eq_of_enc_eq _ _ _ _ h
    cases w with
    | float b =>
      simp only [enc, List.cons_append, List.cons.injEq, true_and] at h
      obtain ⟨rfl, rfl⟩ := qstr_inj a b s t h
      exact ⟨rfl, rfl⟩
    | bool b => cases b <;> simp [kind] at hk
    | _ => simp [kind] at hk
  | .arr xs, w, s, t, _, _, h => by
    have hk := kind_eq_of_enc_eq _ _ _ _ h
    cases w with
    | arr ys =>
      simp only [enc, List.cons_append, List.append_assoc, List.cons.injEq, true_and, List.nil_append] at h
      rw [joinWith_listBody, joinWith_listBody] at h
      obtain ⟨rfl, rfl⟩ := encList_body_inj xs ys s t h
      exact ⟨rfl, rfl⟩
    | bool b => cases b <;> simp [kind] at hk
    | _ => simp [kind] at hk
  | .obj kvs, w, s, t, _, _, h => by
    have hk := kind_eq_of_enc_eq _ _ _ _ h
    cases w with
    | obj kvs' =>
      simp only [enc, List.cons_append, List.append_assoc, List.cons.injEq, true_and, List.nil_append] at h
      rw [renderMembers_memBody, renderMembers_memBody] at h
      obtain ⟨rfl, rfl⟩ := encMembers_body_inj kvs kvs' s t h
      exact ⟨rfl, rfl⟩
    | bool b => cases b <;> simp [kind] at hk
    | _ => simp [kind] at hk

theorem encList_body_inj : ∀ (xs ys : List JVal) (s t : Str),
    listBody (encList xs) s = listBody (encList ys) t → xs = ys ∧ s = t
  | [], [], s, t, h => by simpa [encList, listBody] using h
  | [], y :: ys, s, t, h => by
    simp only [encList, listBody] at h
    exact absurd h.symm (enc_head_ne y _ ']' s (by decide))
  | x :: xs, [], s, t, h => by
    simp only [encList, listBody] at h
    exact absurd h (enc_head_ne x _ ']' t (by decide))
  | x :: xs, y :: ys, s, t, h => by
    simp only [encList, listBody] at h
    obtain ⟨rfl, h'⟩ := enc_inj x y _ _ (listTail_noDigit _ _) (listTail_noDigit _ _) h
    obtain ⟨rfl, rfl⟩ := encList_tail_inj xs ys s t h'
    exact ⟨rfl, rfl⟩

theorem encList_tail_inj : ∀ (xs ys : List JVal) (s t : Str),
    listTail (encList xs) s = listTail (encList ys) t → xs = ys ∧ s = t
  | [], [], s, t, h => by simpa [encList, listTail] using h
  | [], y :: ys, s, t, h => by simp [encList, listTail] at h
  | x :: xs, [], s, t, h => by simp [encList, listTail] at h
  | x :: xs, y :: ys, s, t, h => by
    simp only [encList, listTail, List.cons.injEq, true_and] at h
    obtain ⟨rfl, h'⟩ := enc_inj x y _ _ (listTail_noDigit _ _) (listTail_noDigit _ _) h
    obtain ⟨rfl, rfl⟩ := encList_tail_inj xs ys s t h'
    exact ⟨rfl, rfl⟩

theorem encMembers_body_inj : ∀ (xs ys : List (Str × JVal)) (s t : Str),
    memBody (encMembers xs) s = memBody (encMembers ys) t → xs = ys ∧ s = t
  | [], [], s, t, h => by simpa [encMembers, memBody] using h
  | [], (k, y) :: ys, s, t, h => by simp [encMembers, memBody, qstr] at h
  | (k, x) :: xs, [], s, t, h => by simp [encMembers, memBody, qstr] at h
  | (k, x) :: xs, (k', y) :: ys, s, t, h => by
    simp only [encMembers, memBody] at h
    obtain ⟨rfl, h1⟩ := qstr_inj k k' _ _ h
    simp only [List.cons.injEq, true_and] at h1
    obtain ⟨rfl, h'⟩ := enc_inj x y _ _ (memTail_noDigit _ _) (memTail_noDigit _ _) h1
    obtain ⟨rfl, rfl⟩ := encMembers_tail_inj xs ys s t h'
    exact ⟨rfl, rfl⟩

theorem encMembers_tail_inj : ∀ (xs ys : List (Str × JVal)) (s t : Str),
    memTail (encMembers xs) s = memTail (encMembers ys) t → xs = ys ∧ s = t
  | [], [], s, t, h => by simpa [encMembers, memTail] using h
  | [], (k, y) :: ys, s, t, h => by simp [encMembers, memTail] at h
  | (k, x) :: xs, [], s, t, h => by simp [encMembers, memTail] at h
  | (k, x) :: xs, (k', y) :: ys, s, t, h => by
    simp only [encMembers, memTail, List.cons.injEq, true_and] at h
    obtain ⟨rfl, h1⟩ := qstr_inj k k' _ _ h
    simp only [List.cons.injEq, true_and] at h1
    obtain ⟨rfl, h'⟩ := enc_inj x y _ _ (memTail_noDigit _ _) (memTail_noDigit _ _) h1
    obtain ⟨rfl, rfl⟩ := encMembers_tail_inj xs ys s t h'
    exact ⟨rfl, rfl⟩
end


/-! ## `canon` = `enc` after sorting members at every depth -/

mutual
/-- The value with the members of every object sorted by key (stable). -/
def norm : JVal → JVal
  | .str s => .str s
  | .int n => .int n
  | .bool b => .bool b
  | .null => .null
  | .float r => .float r
  | .arr xs => .arr (normList xs)
  | .obj kvs => .obj (sortMembers (normMembers kvs))
def normList : List JVal → List JVal
  | [] => []
  | x :: r => norm x :: normList r
def normMembers : List (Str × JVal) → List (Str × JVal)
  | [] => []
  | (k, v) :: r => (k, norm v) :: normMembers r
end

theorem encMembers_eq_map : ∀ (l : List (Str × JVal)), encMembers l = l.map (fun p => (p.1, enc p.2))
  | [] => rfl
  | (k, v) :: r => by simp [encMembers, encMembers_eq_map r]

theorem sortMembers_encMembers (l : List (Str × JVal)) :
    sortMembers (encMembers l) = encMembers (sortMembers l) := by
  rw [encMembers_eq_map, encMembers_eq_map]
  unfold sortMembers
  exact (List.map_mergeSort (f := fun p : Str × JVal => (p.1, enc p.2))
    (r := fun a b => strLe a.1 b.1) (s := fun a b => strLe a.1 b.1) (fun a _ b _ => rfl)).symm

mutual
theorem canon_eq_enc_norm : ∀ (v : JVal) (s : Str), canon v = some s → s = enc (norm v)
  | .str a, s, h => by simp only [canon, Option.some.injEq] at h; simp [norm, enc, ← h]
  | .int a, s, h => by simp only [canon, Option.some.injEq] at h; simp [norm, enc, ← h]
  | .bool true, s, h => by simp only [canon, Option.some.injEq] at h; simp [norm, enc, ← h]
  | .bool false, s, h => by simp only [canon, Option.some.injEq] at h; simp [norm, enc, ← h]
  | .null, s, h => by simp only [canon, Option.some.injEq] at h; simp [norm, enc, ← h]
  | .float a, s, h => by simp [canon] at h
  | .arr xs, s, h => by
    simp only [canon, Option.map_eq_some_iff] at h
    obtain ⟨rs, hrs, rfl⟩ := h
    rw [canonList_eq_encList xs rs hrs]
    simp [norm, enc]
  | .obj kvs, s, h => by
    simp only [canon, Option.map_eq_some_iff] at h
    obtain ⟨ms, hms, rfl⟩ := h
    rw [canonMembers_eq_encMembers kvs ms hms, sortMembers_encMembers]
    simp [norm, enc]
theorem canonList_eq_encList : ∀ (xs : List JVal) (rs : List Str), canonList xs = some rs → rs = encList (normList xs)
  | [], rs, h => by simp only [canonList, Option.some.injEq] at h; simp [normList, encList, ← h]
  | x :: r, rs, h => by
    simp only [canonList] at h
    cases hx : canon x with
    | none => simp [hx] at h
    | some a =>
      cases hr : canonList r with
      | none => simp [hx, hr] at h
      | some b =>
        simp only [hx, hr, Option.some.injEq] at h
        rw [← h, canon_eq_enc_norm x a hx, canonList_eq_encList r b hr]
        simp [normList, encList]
theorem canonMembers_eq_encMembers : ∀ (kvs : List (Str × JVal)) (ms : List (Str × Str)),
    canonMembers kvs = some ms → ms = encMembers (normMembers kvs)
  | [], ms, h => by simp only [canonMembers, Option.some.injEq] at h; simp [normMembers, encMembers, ← h]
  | (k, v) :: r, ms, h => by
    simp only [canonMembers] at h
    cases hx : canon v with
    | none => simp [hx] at h
    | some a =>
      cases hr : canonMembers r with
      | none => simp [hx, hr] at h
      | some b =>
        simp only [hx, hr, Option.some.injEq] at h
        rw [← h, canon_eq_enc_norm v a hx, canonMembers_eq_encMembers r b hr]
        simp [normMembers, encMembers]
end

/-- **Canonical JSON is injective up to the order in which object members were
supplied** (at every depth): two values with the same canonical bytes have the
same member-sorted form. -/
theorem canon_injective (v w : JVal) (s : Str) (hv : canon v = some s) (hw : canon w = some s) :
    norm v = norm w := by
  have h1 := canon_eq_enc_norm v s hv
  have h2 := canon_eq_enc_norm w s hw
  have h : enc (norm v) ++ [] = enc (norm w) ++ [] := by rw [List.append_nil, List.append_nil, ← h1, ← h2]
  exact (enc_inj (norm v) (norm w) [] [] noDigit_nil noDigit_nil h).1

/-- Contrapositive, as used for C09: content that differs (beyond member order)
has different signable bytes. -/
theorem canon_ne_of_norm_ne (v w : JVal) (a b : Str) (hv : canon v = some a) (hw : canon w = some b)
    (hne : norm v ≠ norm w) : a ≠ b := by
  intro hab
  subst hab
  exact hne (canon_injective v w a hv hw)

/-- Objects with the same canonical bytes have the same members up to order
(values compared in member-sorted form). -/
theorem canon_obj_members_perm (a b : List (Str × JVal)) (s : Str)
    (ha : canon (.obj a) = some s) (hb : canon (.obj b) = some s) :
    (normMembers a).Perm (normMembers b) := by
  have h := canon_injective _ _ s ha hb
  simp only [norm, JVal.obj.injEq] at h
  have p1 : (sortMembers (normMembers a)).Perm (normMembers a) := List.mergeSort_perm _ _
  have p2 : (sortMembers (normMembers b)).Perm (normMembers b) := List.mergeSort_perm _ _
  exact p1.symm.trans (h ▸ p2)

/-! ## DSSE pre-authentication encoding -/

/-- For a fixed payload type the PAE is injective in the payload text. -/
theorem pae_injective (ty a b : Str) (h : pae ty a = pae ty b) : a = b := by
  unfold pae at h
  simp only [List.append_assoc, List.cons_append, List.append_cancel_left_eq, List.cons.injEq, true_and] at h
  have := digits_split _ _ _ _ (natDigits_digits _) (natDigits_digits _)
    (noDigit_cons ' ' a (by decide)) (noDigit_cons ' ' b (by decide)) h
  simpa using this.2

/-- Signable bytes of traditional metadata determine the payload JSON up to
member order; those of an envelope determine the payload text exactly. -/
theorem signableBytes_injective (p q : Payload) (m : Str)
    (hp : p.signableBytes = some m) (hq : q.signableBytes = some m) : norm p.toJ = norm q.toJ :=
  canon_injective _ _ m hp hq

-- a test (evaluated, not proved): member sorting and escaping in the model of `encode_canonical`
#guard canon (.obj [(lit "b", .int 1), (lit "a", .arr [.null, .str (lit "x\"y")])]) ==
    some (lit "{\"a\":[null,\"x\\\"y\"],\"b\":1}")

end InToto
