import Proofs.Lemmas.Sort
/-!
# Injectivity of canonical JSON (`encode_canonical`) and of the DSSE PAE

`canon v = canon w → norm v = norm w` for float-free values, where `norm` sorts
the members of every object: the canonical bytes determine the value up to the
order in which members were supplied, at every nesting depth.
-/
namespace InToto

/-! ## Strings -/

theorem escChar_cases (c : Char) :
    (c = '\\' ∧ escChar c = ['\\', '\\']) ∨ (c = '"' ∧ escChar c = ['\\', '"']) ∨
    (c ≠ '\\' ∧ c ≠ '"' ∧ escChar c = [c]) := by
  unfold escChar
  by_cases h1 : c = '\\'
  · simp [h1]
  · by_cases h2 : c = '"'
    · subst h2; simp
    · simp [h1, h2]

theorem escChar_ne_quote (c : Char) (x s : Str) : escChar c ++ x ≠ '"' :: s := by
  rcases escChar_cases c with ⟨_, h⟩ | ⟨_, h⟩ | ⟨_, h2, h⟩ <;> rw [h] <;> simp
  intro hc; exact absurd hc h2

theorem escChar_inj (c d : Char) (x y : Str) (h : escChar c ++ x = escChar d ++ y) : c = d ∧ x = y := by
  rcases escChar_cases c with ⟨hc, ec⟩ | ⟨hc, ec⟩ | ⟨hc1, hc2, ec⟩ <;>
  rcases escChar_cases d with ⟨hd, ed⟩ | ⟨hd, ed⟩ | ⟨hd1, hd2, ed⟩ <;>
  rw [ec, ed] at h <;> simp at h
  · exact ⟨hc.trans hd.symm, h⟩
  · exact absurd h.1.symm hd1
  · exact ⟨hc.trans hd.symm, h⟩
  · exact absurd h.1.symm hd1
  · exact absurd h.1 hc1
  · exact absurd h.1 hc1
  · exact h

/-- Escaped text followed by a quote is uniquely decodable. -/
theorem esc_quote_inj : ∀ (a b s t : Str), esc a ++ '"' :: s = esc b ++ '"' :: t → a = b ∧ s = t := by
  intro a
  induction a with
  | nil =>
    intro b s t h
    cases b with
    | nil => simpa [esc] using h
    | cons d ds =>
      simp only [esc, List.nil_append, List.append_assoc] at h
      exact absurd h.symm (escChar_ne_quote d _ s)
  | cons c cs ih =>
    intro b s t h
    cases b with
    | nil =>
      simp only [esc, List.nil_append, List.append_assoc] at h
      exact absurd h (escChar_ne_quote c _ t)
    | cons d ds =>
      simp only [esc, List.append_assoc] at h
      obtain ⟨rfl, h'⟩ := escChar_inj c d _ _ h
      obtain ⟨rfl, rfl⟩ := ih _ _ _ h'
      exact ⟨rfl, rfl⟩

/-- A quoted string is self-delimiting. -/
theorem qstr_inj (a b s t : Str) (h : qstr a ++ s = qstr b ++ t) : a = b ∧ s = t := by
  simp only [qstr, List.cons_append, List.append_assoc, List.cons.injEq, true_and] at h
  exact esc_quote_inj a b s t h

/-! ## Integers -/

def isDigitC (c : Char) : Bool := c.isDigit

theorem natDigits_digits (n : Nat) : ∀ c ∈ natDigits n, isDigitC c = true := by
  intro c hc
  exact Nat.isDigit_of_mem_toDigits (b := 10) (by decide) (by decide) hc

theorem natDigits_ne_nil (n : Nat) : natDigits n ≠ [] := Nat.toDigits_ne_nil

theorem natDigits_inj (n m : Nat) (h : natDigits n = natDigits m) : n = m := by
  have hn := Nat.ofDigitChars_toDigits (b := 10) (n := n) (by decide) (by decide)
  have hm := Nat.ofDigitChars_toDigits (b := 10) (n := m) (by decide) (by decide)
  unfold natDigits at h
  rw [h] at hn
  exact hn.symm.trans hm

/-- Next character is not a digit (or there is none). -/
def NoDigitHead (s : Str) : Prop := ∀ c, s.head? = some c → isDigitC c = false

/-- Digit strings followed by a non-digit are uniquely decodable. -/
theorem digits_split : ∀ (a b s t : Str), (∀ c ∈ a, isDigitC c = true) → (∀ c ∈ b, isDigitC c = true) →
    NoDigitHead s → NoDigitHead t → a ++ s = b ++ t → a = b ∧ s = t := by
  intro a
  induction a with
  | nil =>
    intro b s t _ hb hs _ h
    cases b with
    | nil => simpa using h
    | cons d ds =>
      simp only [List.nil_append, List.cons_append] at h
      have := hs d (by rw [h]; rfl)
      rw [hb d List.mem_cons_self] at this
      cases this
  | cons c cs ih =>
    intro b s t ha hb hs ht h
    cases b with
    | nil =>
      simp only [List.nil_append, List.cons_append] at h
      have := ht c (by rw [← h]; rfl)
      rw [ha c List.mem_cons_self] at this
      cases this
    | cons d ds =>
      simp only [List.cons_append, List.cons.injEq] at h
      obtain ⟨rfl, h⟩ := h
      obtain ⟨rfl, rfl⟩ := ih ds s t (fun x hx => ha x (List.mem_cons_of_mem _ hx))
        (fun x hx => hb x (List.mem_cons_of_mem _ hx)) hs ht h
      exact ⟨rfl, rfl⟩

theorem intStr_inj (n m : Int) (s t : Str) (hs : NoDigitHead s) (ht : NoDigitHead t)
    (h : intStr n ++ s = intStr m ++ t) : n = m ∧ s = t := by
  cases n with
  | ofNat a =>
    cases m with
    | ofNat b =>
      simp only [intStr] at h
      obtain ⟨hd, hst⟩ := digits_split _ _ s t (natDigits_digits a) (natDigits_digits b) hs ht h
      exact ⟨by rw [natDigits_inj a b hd], hst⟩
    | negSucc b =>
      simp only [intStr, List.cons_append] at h
      cases hda : natDigits a with
      | nil => exact absurd hda (natDigits_ne_nil a)
      | cons c cs =>
        rw [hda] at h
        simp only [List.cons_append, List.cons.injEq] at h
        have := natDigits_digits a c (by rw [hda]; exact List.mem_cons_self)
        rw [h.1] at this
        exact absurd this (by decide)
  | negSucc a =>
    cases m with
    | ofNat b =>
      simp only [intStr, List.cons_append] at h
      cases hdb : natDigits b with
      | nil => exact absurd hdb (natDigits_ne_nil b)
      | cons c cs =>
        rw [hdb] at h
        simp only [List.cons_append, List.cons.injEq] at h
        have := natDigits_digits b c (by rw [hdb]; exact List.mem_cons_self)
        rw [← h.1] at this
        exact absurd this (by decide)
    | negSucc b =>
      simp only [intStr, List.cons_append, List.cons.injEq, true_and] at h
      obtain ⟨hd, hst⟩ := digits_split _ _ s t (natDigits_digits (a + 1)) (natDigits_digits (b + 1)) hs ht h
      have := natDigits_inj _ _ hd
      exact ⟨by rw [show a = b by omega], hst⟩

/-- The first character of a rendered integer: a digit or a minus sign. -/
theorem intStr_head (n : Int) : ∃ c rest, intStr n = c :: rest ∧ (isDigitC c = true ∨ c = '-') := by
  cases n with
  | ofNat a =>
    simp only [intStr]
    cases hda : natDigits a with
    | nil => exact absurd hda (natDigits_ne_nil a)
    | cons c cs => exact ⟨c, cs, rfl, .inl (natDigits_digits a c (by rw [hda]; exact List.mem_cons_self))⟩
  | negSucc a => exact ⟨'-', _, rfl, .inr rfl⟩

end InToto
