import Proofs.C10
import InToto.Run
import InToto.Honest
/-!
# What `in_toto_run` writes is what `in_toto_verify` looks for (C11, the seam between recording and verifying)

`in_toto_run` names the link file after the step and the first eight characters of the key id *in the signature*
(`linkPath`); `load_links_for_layout` tries, for every key id a step authorises, that id and the ids of the key's
subkeys (`candidateIds`). So the file a functionary's run wrote - signed with the authorised key itself or, for a gpg
key, with one of its signing subkeys - lies at a path the verifier tries (`run_path_is_tried`), and a loadable file at a
tried path is among the links loaded for the step (`loadStepLinks_finds`), unless loading another candidate fails.
-/
namespace InToto

/-- The path `in_toto_run` writes to (metadata directory `dir`, step `name`, signing key id `k`) is the
path `load_links_for_layout` builds for the candidate id `k`; and `k` is a candidate of every step that authorises
`a` when `k` is `a` or a subkey of the key stored under `a`. -/
theorem run_path_is_tried (l : Layout) (step : Step) (dir name a k : Str)
    (ha : a ∈ step.pubkeys) (hk : k ∈ segOf l a) :
    k ∈ candidateIds l step ∧ linkPath (some dir) name k = pathJoin dir (linkFileName name k) := by
  refine ⟨?_, rfl⟩
  unfold candidateIds
  exact List.mem_flatMap.mpr ⟨a, ha, hk⟩

/-- A loadable file at a tried path is among the loaded links, under the id it was tried for. -/
theorem loadStepLinks_finds (w : World) (dir name k : Str) (md : Metadata)
    (hfile : loadFile w (pathJoin dir (linkFileName name k)) = some (.ok md)) :
    ∀ (ids : List Str) (acc d : Dict Str Metadata), loadStepLinks w dir name ids acc = .ok d →
    (k ∈ ids ∨ Dict.get? acc k = some md) → Dict.get? d k = some md
  | [], acc, d, h, hk => by
    simp only [loadStepLinks, Except.ok.injEq] at h
    subst h
    rcases hk with hk | hk
    · cases hk
    · exact hk
  | cid :: rest, acc, d, h, hk => by
    simp only [loadStepLinks] at h
    by_cases hc : cid = k
    · subst hc
      rw [hfile] at h
      exact loadStepLinks_finds w dir name cid md hfile rest _ d h (Or.inr (Dict.get?_insert_self acc cid md))
    · have hk' : k ∈ rest ∨ Dict.get? acc k = some md := by
        rcases hk with hk | hk
        · rcases List.mem_cons.mp hk with e | hr
          · exact absurd e.symm hc
          · exact Or.inl hr
        · exact Or.inr hk
      cases hl : loadFile w (pathJoin dir (linkFileName name cid)) with
      | none =>
        rw [hl] at h
        exact loadStepLinks_finds w dir name k md hfile rest acc d h hk'
      | some r =>
        rw [hl] at h
        cases r with
        | error e => cases h
        | ok md' =>
          refine loadStepLinks_finds w dir name k md hfile rest _ d h ?_
          rcases hk' with hr | hg
          · exact Or.inl hr
          · exact Or.inr (by rw [Dict.get?_insert_of_ne acc cid k md' (fun e => hc e.symm)]; exact hg)

/-- **The link a run wrote is loaded for its step.** A step authorises `a`; a functionary ran it with the key `a` or a
signing subkey of it (`k`), writing into the link directory; the file is loadable. If loading the step's links succeeds
at all, that link is among them, under `k`. -/
theorem C11_run_link_is_loaded (w : World) (l : Layout) (step : Step) (dir name a k : Str) (md : Metadata)
    (d : Dict Str Metadata) (ha : a ∈ step.pubkeys) (hk : k ∈ segOf l a)
    (hfile : loadFile w (linkPath (some dir) name k) = some (.ok md))
    (hload : loadStepLinks w dir name (candidateIds l step) [] = .ok d) :
    Dict.get? d k = some md := by
  obtain ⟨hc, hp⟩ := run_path_is_tried l step dir name a k ha hk
  rw [hp] at hfile
  exact loadStepLinks_finds w dir name k md hfile _ [] d hload (Or.inl hc)

end InToto
