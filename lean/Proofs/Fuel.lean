import Proofs.Lemmas.Verify
/-!
# The depth budget of the model is immaterial

`in_toto_verify` recurses into sublayouts without bound; the model's `verify`
takes a depth budget (`fuel`) to be a total function. `verify_fuel_irrelevant`:
unless the budget itself ran out (`Err.recursion`, which the implementation
never raises), a larger budget gives exactly the same outcome — verdict or error
class, summary link and inspection trace. So the driver's fixed budget decides
nothing: whenever it does not report `recursion`, every larger budget — and
hence the unbounded recursion of the code — agrees with it.
-/
namespace InToto

variable (gm : Str → Str → Bool) (w : World)

def NotOutOfFuel (o : VerifyOut) : Prop := o.result ≠ .error .recursion

theorem verifySublayoutsStep_congr (recur1 recur2 : Metadata → List (Str × JVal) → Str → Str → VerifyOut)
    (hrec : ∀ md keys d n, NotOutOfFuel (recur1 md keys d n) → recur2 md keys d n = recur1 md keys d n)
    (l : Layout) (dir stepName : Str) : ∀ (input : List (Str × Metadata)) (acc : Dict Str Link),
    (verifySublayoutsStep recur1 l dir stepName input acc).1 ≠ .error .recursion →
    verifySublayoutsStep recur2 l dir stepName input acc = verifySublayoutsStep recur1 l dir stepName input acc := by
  intro input
  induction input with
  | nil => intro acc _; rfl
  | cons x rest ih =>
    intro acc h
    obtain ⟨kid, md⟩ := x
    simp only [verifySublayoutsStep] at h ⊢
    cases hp : md.getPayload with
    | error e => rfl
    | ok payload =>
      cases payload with
      | link lk =>
        simp only [hp] at h ⊢
        exact ih _ h
      | layout sub =>
        simp only [hp] at h ⊢
        have hcall : NotOutOfFuel (recur1 md [(kid, (Dict.get? l.keys kid).getD .null)]
            (pathJoin dir (sublayoutDirName stepName kid)) stepName) := by
          intro hres
          apply h
          simp only [hres]
        rw [hrec _ _ _ _ hcall]
        cases hres : (recur1 md [(kid, (Dict.get? l.keys kid).getD .null)]
            (pathJoin dir (sublayoutDirName stepName kid)) stepName).result with
        | error e => rfl
        | ok summary =>
          simp only [hres] at h ⊢
          have : (verifySublayoutsStep recur1 l dir stepName rest (Dict.insert acc kid summary)).1 ≠ .error .recursion := by
            intro e
            apply h
            cases hr : verifySublayoutsStep recur1 l dir stepName rest (Dict.insert acc kid summary) with
            | mk r tr =>
              rw [hr] at e
              simp only at e
              simp only [e]
          rw [ih _ this]

theorem verifySublayouts_congr (recur1 recur2 : Metadata → List (Str × JVal) → Str → Str → VerifyOut)
    (hrec : ∀ md keys d n, NotOutOfFuel (recur1 md keys d n) → recur2 md keys d n = recur1 md keys d n)
    (l : Layout) (dir : Str) : ∀ (steps : List (Str × Dict Str Metadata)) (acc : Dict Str (Dict Str Link)),
    (verifySublayouts recur1 l dir steps acc).1 ≠ .error .recursion →
    verifySublayouts recur2 l dir steps acc = verifySublayouts recur1 l dir steps acc := by
  intro steps
  induction steps with
  | nil => intro acc _; rfl
  | cons x rest ih =>
    intro acc h
    obtain ⟨stepName, mds⟩ := x
    simp only [verifySublayouts] at h ⊢
    have hstep : (verifySublayoutsStep recur1 l dir stepName mds []).1 ≠ .error .recursion := by
      intro e
      apply h
      cases hr : verifySublayoutsStep recur1 l dir stepName mds [] with
      | mk r tr =>
        rw [hr] at e
        simp only at e
        subst e
        rfl
    rw [verifySublayoutsStep_congr recur1 recur2 hrec l dir stepName mds [] hstep]
    cases hr : verifySublayoutsStep recur1 l dir stepName mds [] with
    | mk r tr =>
      cases r with
      | error e => rfl
      | ok links =>
        simp only [hr] at h ⊢
        have : (verifySublayouts recur1 l dir rest (Dict.insert acc stepName links)).1 ≠ .error .recursion := by
          intro e
          apply h
          cases hr2 : verifySublayouts recur1 l dir rest (Dict.insert acc stepName links) with
          | mk r2 tr2 =>
            rw [hr2] at e
            simp only at e
            simp only [e]
        rw [ih _ this]

/-- **The depth budget is immaterial.** If `verify` with budget `fuel` ends in
anything but "budget exhausted", it ends in exactly the same way with budget
`fuel + 1` (and so, by induction, with every larger one). -/
theorem verify_fuel_succ : ∀ (fuel : Nat) (md : Metadata) (keys : List (Str × JVal)) (dir : Str)
    (params : Option (List (Str × Option Str))) (stepName : Str),
    NotOutOfFuel (verify gm w fuel md keys dir params stepName) →
    verify gm w (fuel + 1) md keys dir params stepName = verify gm w fuel md keys dir params stepName := by
  intro fuel
  induction fuel with
  | zero =>
    intro md keys dir params stepName h
    exact absurd rfl h
  | succ n ih =>
    intro md keys dir params stepName h
    have hrec : ∀ md' keys' d' n', NotOutOfFuel (verify gm w n md' keys' d' none n') →
        verify gm w (n + 1) md' keys' d' none n' = verify gm w n md' keys' d' none n' :=
      fun md' keys' d' n' hh => ih md' keys' d' none n' hh
    unfold verify at h ⊢
    cases hg : gate w md keys params with
    | error e => rfl
    | ok layout =>
      simp only [hg] at h ⊢
      cases hl : loadLinksForLayout w layout dir with
      | error e => rfl
      | ok loaded =>
        simp only [hl] at h ⊢
        cases hs : verifyLinkSignatureThresholds w layout loaded with
        | error e => rfl
        | ok stepsMd =>
          simp only [hs] at h ⊢
          have hsub : (verifySublayouts (fun md' keys' dir' name' => verify gm w n md' keys' dir' none name')
              layout dir stepsMd []).1 ≠ .error .recursion := by
            intro e
            apply h
            cases hr : verifySublayouts (fun md' keys' dir' name' => verify gm w n md' keys' dir' none name')
                layout dir stepsMd [] with
            | mk r tr =>
              rw [hr] at e
              simp only at e
              subst e
              rfl
          rw [verifySublayouts_congr _ (fun md' keys' dir' name' => verify gm w (n + 1) md' keys' dir' none name')
            hrec layout dir stepsMd [] hsub]

theorem verify_fuel_irrelevant (fuel k : Nat) (md : Metadata) (keys : List (Str × JVal)) (dir : Str)
    (params : Option (List (Str × Option Str))) (stepName : Str)
    (h : NotOutOfFuel (verify gm w fuel md keys dir params stepName)) :
    verify gm w (fuel + k) md keys dir params stepName = verify gm w fuel md keys dir params stepName := by
  induction k with
  | zero => rfl
  | succ k ih =>
    have : NotOutOfFuel (verify gm w (fuel + k) md keys dir params stepName) := by rw [ih]; exact h
    rw [show fuel + (k + 1) = (fuel + k) + 1 from rfl, verify_fuel_succ gm w _ _ _ _ _ _ this, ih]

end InToto
