import Proofs.C14
/-!
# C09 — signatures bind exact content

Signature-level theorems. Injectivity of the canonical encoding is in
`Proofs/Canon.lean`.
-/
namespace InToto

/-- Every signature value present in the metadata was made for the message `m0`
(non-malleability of the signatures in play: the scheme accepts such a value for
no other message, whatever the key). -/
def MadeFor (S : Scheme) (md : Metadata) (m0 : Str) : Prop :=
  ∀ s ∈ md.sigs, ∀ v, s.value = some v → ∀ material msg, S.verify material msg v = true → msg = m0

/-- **C09 (any change to the signed content is detected).** If the signatures in
the metadata were made for bytes `m0` and the bytes the metadata now stands for
differ from `m0` — the content was edited, in either format — then no key
verifies. -/
theorem C09_edit_detected (S : Scheme) (nowSec : Int) (md : Metadata) (m0 m1 : Str)
    (hmade : MadeFor S md m0) (hbytes : md.signedBytes = some m1) (hne : m1 ≠ m0) (keyJ : JVal) :
    md.verifySignature S nowSec keyJ ≠ .ok := by
  intro h
  obtain ⟨k, _, s, hs, msg, v, hb, hv, hver⟩ := sigcheck_ok_sound S nowSec md keyJ h
  rw [hbytes] at hb
  cases hb
  rcases hver with hver | ⟨_, _, sk, _, _, _, hver⟩
  · exact hne (hmade s hs v hv _ _ hver)
  · exact hne (hmade s hs v hv _ _ hver)

/-- **C09 (another key does not verify).** If every signature value present was
made with key material `mat0`, a key with different material (and whose subkeys
have different material) does not verify. -/
theorem C09_other_key_fails (S : Scheme) (nowSec : Int) (md : Metadata) (mat0 : Str)
    (hmade : ∀ s ∈ md.sigs, ∀ v, s.value = some v → ∀ material msg, S.verify material msg v = true → material = mat0)
    (keyJ : JVal) (k : PubKey) (hk : readPubKey keyJ = .ok k) (hmat : k.material ≠ mat0)
    (hsub : ∀ sid skJ sk, Dict.get? k.subkeys sid = some skJ → readPubKey skJ = .ok sk → sk.material ≠ mat0) :
    md.verifySignature S nowSec keyJ ≠ .ok := by
  intro h
  obtain ⟨k', hk', s, hs, msg, v, _, hv, hver⟩ := sigcheck_ok_sound S nowSec md keyJ h
  rw [hk] at hk'
  cases hk'
  rcases hver with hver | ⟨sid, skJ, sk, hget, hread, _, hver⟩
  · exact hmat (hmade s hs v hv _ _ hver)
  · exact hsub sid skJ sk hget hread (hmade s hs v hv _ _ hver)

/-- **C09 (a changed signature value is detected).** If the scheme accepts none
of the values present (each was altered), no key verifies. -/
theorem C09_signature_edit_detected (S : Scheme) (nowSec : Int) (md : Metadata)
    (hbad : ∀ s ∈ md.sigs, ∀ v, s.value = some v → ∀ material msg, S.verify material msg v = false)
    (keyJ : JVal) : md.verifySignature S nowSec keyJ ≠ .ok := by
  intro h
  obtain ⟨k, _, s, hs, msg, v, _, hv, hver⟩ := sigcheck_ok_sound S nowSec md keyJ h
  rcases hver with hver | ⟨_, _, sk, _, _, _, hver⟩
  · rw [hbad s hs v hv] at hver; cases hver
  · rw [hbad s hs v hv] at hver; cases hver

/-! ## Signing, replacing, appending (`create_signature`, `in-toto-sign`) -/

def Metadata.withSigs : Metadata → List SigEntry → Metadata
  | .metablock _ signed, ss => .metablock ss signed
  | .envelope _ text parsed, ss => .envelope ss text parsed

theorem signedBytes_withSigs (md : Metadata) (ss : List SigEntry) :
    (md.withSigs ss).signedBytes = md.signedBytes := by
  cases md <;> rfl

/-- The entry `create_signature` adds for a non-gpg key: the key's id and a
value the scheme accepts for the key's material over the signed bytes. -/
def GenuineSig (S : Scheme) (k : PubKey) (bytes : Str) (s : SigEntry) : Prop :=
  s.keyid = some k.keyid ∧ s.gpgShaped = false ∧ ∃ v, s.value = some v ∧ S.verify k.material bytes v = true

/-- **C09 (sign, then verify).** After signing with a (non-gpg) key — replacing
the signatures (`in-toto-sign` default, `in_toto_run`) or appending to signatures
of *other* keys (`in-toto-sign -a`) — verification with the matching public key
succeeds, in both formats. -/
theorem C09_sign_verify (S : Scheme) (nowSec : Int) (md : Metadata) (keyJ : JVal) (k : PubKey)
    (hk : readPubKey keyJ = .ok k) (hng : k.gpg = false) (hsub : k.subkeys = [])
    (bytes : Str) (hb : md.signedBytes = some bytes) (s : SigEntry) (hs : GenuineSig S k bytes s)
    (before : List SigEntry) (hother : some k.keyid ∉ before.map (·.keyid)) :
    (md.withSigs (before ++ [s])).verifySignature S nowSec keyJ = .ok := by
  obtain ⟨hid, hshape, v, hv, hver⟩ := hs
  have hmatch : sigMatchesKey k s = true := by simp [sigMatchesKey, hid]
  cases md with
  | metablock sigs signed =>
    simp only [Metadata.signedBytes] at hb
    simp only [Metadata.withSigs, Metadata.verifySignature, metablockVerify, hk, hb]
    have hfind : (before ++ [s]).find? (sigMatchesKey k) = some s := by
      rw [List.find?_append, find_none_of_not_mem k hsub before hother]
      simp [hmatch]
    simp [hfind, hshape, hng, hid, sigValueOk, hv, hver]
  | envelope sigs text parsed =>
    simp only [Metadata.signedBytes, Option.some.injEq] at hb
    simp only [Metadata.withSigs, Metadata.verifySignature, envelopeVerify, hk, hng]
    have : (before ++ [s]).any (fun s => s.keyid = some k.keyid ∧ sigValueOk S k.material
        (pae envelopePayloadType text) s.value) = true := by
      rw [List.any_append]
      simp [hid, sigValueOk, hv, hb, hver]
    rw [this]
    simp

/-- **C09 (the set of keys that verify after any sequence of sign / replace /
append).** With unchanged content, a non-gpg key verifies iff the first
(traditional) / some (DSSE) signature entry carrying its id is genuine. -/
theorem C09_verifies_iff_metablock (S : Scheme) (nowSec : Int) (sigs : List SigEntry) (signed : Payload)
    (keyJ : JVal) (k : PubKey) (hk : readPubKey keyJ = .ok k) (hng : k.gpg = false) (hsub : k.subkeys = [])
    (bytes : Str) (hb : signed.signableBytes = some bytes) (hshape : ∀ s ∈ sigs, s.gpgShaped = false) :
    (Metadata.metablock sigs signed).verifySignature S nowSec keyJ = .ok ↔
      ∃ s, sigs.find? (fun s => s.keyid = some k.keyid) = some s ∧ sigValueOk S k.material bytes s.value = true := by
  have hfun : sigMatchesKey k = fun s => decide (s.keyid = some k.keyid) := by
    funext s
    simp only [sigMatchesKey, hsub]
    cases s.keyid <;> simp
  simp only [Metadata.verifySignature, metablockVerify, hk, hb, hfun]
  cases hf : sigs.find? (fun s => decide (s.keyid = some k.keyid)) with
  | none => simp
  | some s =>
    have hmem := List.mem_of_find?_eq_some hf
    have hid : s.keyid = some k.keyid := by simpa using List.find?_some hf
    simp only [hshape s hmem, Bool.false_eq_true, if_false, hng, hid, true_and]
    by_cases hv : sigValueOk S k.material bytes s.value = true <;> simp [hv]

theorem C09_verifies_iff_envelope (S : Scheme) (nowSec : Int) (sigs : List SigEntry) (text : Str)
    (parsed : Option JVal) (keyJ : JVal) (k : PubKey) (hk : readPubKey keyJ = .ok k) (hng : k.gpg = false) :
    (Metadata.envelope sigs text parsed).verifySignature S nowSec keyJ = .ok ↔
      ∃ s ∈ sigs, s.keyid = some k.keyid ∧ sigValueOk S k.material (pae envelopePayloadType text) s.value = true := by
  simp only [Metadata.verifySignature, envelopeVerify, hk, hng]
  by_cases h : sigs.any (fun s => s.keyid = some k.keyid ∧ sigValueOk S k.material (pae envelopePayloadType text) s.value) = true
  · simp only [h, if_true, Bool.false_eq_true, if_false, true_iff]
    rw [List.any_eq_true] at h
    obtain ⟨s, hs, hc⟩ := h
    simp only [decide_eq_true_eq] at hc
    exact ⟨s, hs, hc⟩
  · simp only [h, Bool.false_eq_true, if_false]
    constructor
    · intro hc; cases hc
    · rintro ⟨s, hs, hc⟩
      exfalso
      apply h
      rw [List.any_eq_true]
      exact ⟨s, hs, by simpa using hc⟩

end InToto
