import Proofs.C03
import Proofs.C17
import Proofs.C19
import InToto.Run
/-!
# C04 — end-to-end tamper evidence: the closed chain rule shape
# C11 — what `in_toto_run` records
-/
namespace InToto

variable (gm : Str → Str → Bool)

/-- The material rules of a step in a closed chain layout: `REQUIRE` every product
path of the previous step, `MATCH * WITH PRODUCTS FROM <previous step>`,
`DISALLOW *`. (The same shape, over the last step, is used for the final
inspection.) -/
def closedRules (prev : Str) (prevProducts : List Str) : List (List Str) :=
  prevProducts.map (fun p => [lit "REQUIRE", p]) ++
    [[lit "MATCH", lit "*", lit "WITH", lit "PRODUCTS", lit "FROM", prev], [lit "DISALLOW", lit "*"]]

theorem unpack_require (p : Str) : unpackStrs [lit "REQUIRE", p] = .ok (.generic .require p) := by
  apply unpack_of_parses
  exact .generic _ _ _ (by decide)

theorem unpack_match_products (prev : Str) :
    unpackStrs [lit "MATCH", lit "*", lit "WITH", lit "PRODUCTS", lit "FROM", prev] =
      .ok (.match_ (lit "*") [] [] .products prev) := by
  apply unpack_of_parses
  exact .match6 _ _ _ _ _ _ _ (by decide) (by decide) (by decide) (by decide)

theorem unpack_disallow_star : unpackStrs [lit "DISALLOW", lit "*"] = .ok (.generic .disallow (lit "*")) := by
  apply unpack_of_parses
  exact .generic _ _ _ (by decide)

/-- A block of `REQUIRE` rules passes iff every named path is in the queue, and leaves the queue as it is. -/
theorem applyRules_requires (links : Dict Str LinkArts) (item : LinkArts) (arts : Artifacts)
    (rest : List (List Str)) : ∀ (ps : List Str) (q : List Str),
    applyRules gm links item arts (ps.map (fun p => [lit "REQUIRE", p]) ++ rest) q =
      if ∀ p ∈ ps, p ∈ q then applyRules gm links item arts rest q else .error .rule := by
  intro ps
  induction ps with
  | nil => intro q; simp
  | cons p ps ih =>
    intro q
    simp only [List.map_cons, List.cons_append, applyRules, unpack_require, applyRule]
    by_cases hp : q.contains p = true
    · have hp' : p ∈ q := List.contains_iff_mem.mp hp
      simp only [hp, if_true, ih q, List.mem_cons, forall_eq_or_imp, hp', true_and]
    · have hp' : p ∉ q := fun h => hp (List.contains_iff_mem.mpr h)
      simp [hp, hp']

theorem stripPrefix_nil (q : List Str) : stripPrefix [] q = q := by simp [stripPrefix]
theorem rejoin_nil (p : Str) : rejoin [] p = p := by simp [rejoin]

/-- **C04 (closed chain rules).** With a matcher for which `*` matches every
path, the closed material rules of a step pass **iff** the step's materials are
exactly the previous step's products: the same paths, with equal hash records.
Hence a file modified, added, removed or renamed between the two steps — anything
that changes the recording — fails verification, and nothing else does. -/
theorem C04_rules_iff (hstar : ∀ s, gm (lit "*") s = true)
    (name prev : Str) (item prevLink : LinkArts) (links : Dict Str LinkArts)
    (hitem : links.get? name = some item) (hprev : links.get? prev = some prevLink) :
    (∃ q, verifyItemRules gm name .materials (closedRules prev prevLink.products.keys) links = .ok q) ↔
      ((∀ p ∈ prevLink.products.keys, p ∈ item.materials.keys) ∧
       (∀ p ∈ item.materials.keys, ∃ a b, item.materials.get? p = some a ∧ prevLink.products.get? p = some b ∧
          hashEq a b = true)) := by
  have heval : verifyItemRules gm name .materials (closedRules prev prevLink.products.keys) links =
      if ∀ p ∈ prevLink.products.keys, p ∈ item.materials.keys then
        applyRules gm links item item.materials
          [[lit "MATCH", lit "*", lit "WITH", lit "PRODUCTS", lit "FROM", prev], [lit "DISALLOW", lit "*"]]
          item.materials.keys
      else .error .rule := by
    simp only [verifyItemRules, hitem, closedRules, LinkArts.get]
    exact applyRules_requires gm links item item.materials _ _ _
  rw [heval]
  by_cases hreq : ∀ p ∈ prevLink.products.keys, p ∈ item.materials.keys
  · rw [if_pos hreq]
    -- the MATCH rule, then DISALLOW *
    have hstep : applyRules gm links item item.materials
        [[lit "MATCH", lit "*", lit "WITH", lit "PRODUCTS", lit "FROM", prev], [lit "DISALLOW", lit "*"]]
        item.materials.keys =
        match applyRule gm links item item.materials item.materials.keys (.match_ (lit "*") [] [] .products prev) with
        | .error e => .error e
        | .ok q' => applyRule gm links item item.materials q' (.generic .disallow (lit "*")) := by
      simp only [applyRules, unpack_match_products, unpack_disallow_star]
      cases applyRule gm links item item.materials item.materials.keys (.match_ (lit "*") [] [] .products prev) with
      | error e => rfl
      | ok q' =>
        simp only
        cases applyRule gm links item item.materials q' (.generic .disallow (lit "*")) <;> rfl
    rw [hstep]
    constructor
    · rintro ⟨q, h⟩
      refine ⟨hreq, ?_⟩
      split at h
      · cases h
      · rename_i q' hm
        -- DISALLOW * passed: the queue after MATCH is empty
        have hq' : q' = [] := by
          simp only [applyRule] at h
          split at h
          · cases h
          · rename_i hany
            cases q' with
            | nil => rfl
            | cons x xs => simp [hstar] at hany
        subst hq'
        intro p hp
        obtain ⟨dl, hdl, rel, hrel, _, hpe, sa, da, hsa, hda, heq⟩ :=
          C03_match_only_if gm links item item.materials _ _ _ _ _ _ _ hm p hp (by simp)
        rw [hprev] at hdl
        cases hdl
        rw [rejoin_nil] at hpe hda
        subst hpe
        exact ⟨sa, da, hsa, hda, heq⟩
    · rintro ⟨_, hall⟩
      -- the MATCH rule does not raise: every candidate is a material
      have hmatch : ∃ q', applyRule gm links item item.materials item.materials.keys
          (.match_ (lit "*") [] [] .products prev) = .ok q' := by
        simp only [applyRule, verifyMatchRule, hprev, stripPrefix_nil, LinkArts.get]
        have hsome : ∀ (l : List Str), (∀ p ∈ l, p ∈ item.materials.keys) →
            ∃ rs, allSome (matchOne [] [] item.materials prevLink.products) l = some rs := by
          intro l
          induction l with
          | nil => intro _; exact ⟨[], rfl⟩
          | cons x xs ih =>
            intro hl
            obtain ⟨rs, hrs⟩ := ih (fun p hp => hl p (List.mem_cons_of_mem _ hp))
            obtain ⟨a, b, ha, hb, he⟩ := hall x (hl x List.mem_cons_self)
            refine ⟨some x :: rs, ?_⟩
            simp [allSome, matchOne, rejoin_nil, ha, hb, he, hrs]
        obtain ⟨rs, hrs⟩ := hsome (item.materials.keys.filter (gm (lit "*"))) (fun p hp => (List.mem_filter.mp hp).1)
        simp [hrs]
      obtain ⟨q', hq'⟩ := hmatch
      -- everything is consumed
      have hempty : q' = [] := by
        apply List.eq_nil_iff_forall_not_mem.mpr
        intro p hp
        have hpin : p ∈ item.materials.keys := applyRule_subset gm _ _ _ _ _ _ hq' p hp
        obtain ⟨a, b, ha, hb, he⟩ := hall p hpin
        have := C03_match_if gm links item item.materials _ _ _ _ _ _ _ hq' prevLink hprev p
          (by rw [stripPrefix_nil]; exact hpin) (hstar p) a b (by rw [rejoin_nil]; exact ha)
          (by rw [rejoin_nil]; exact hb) he
        rw [rejoin_nil] at this
        exact this hp
      subst hempty
      rw [hq']
      exact ⟨[], by simp [applyRule]⟩
  · rw [if_neg hreq]
    constructor
    · rintro ⟨q, h⟩; cases h
    · rintro ⟨h, _⟩; exact absurd h hreq

/-! ## C11: what `in_toto_run` records -/

/-- **C11 (link specification).** On success the link's materials are the
recording of the given paths in the tree as it was before the command, its
products the recording in the tree as it was after it; it carries the command
line and — when a command is given — its exit status and, if requested, its
output; it is signed by the given key, and the file written (under the step
name and key-id prefix, in the metadata directory if one is given) holds exactly
the returned link; without a key nothing is written. -/
theorem C11_link_spec (o : RecOpts) (name : Str) (ml pl : List Str) (before after : Node) (command : List Str)
    (run : Option Byproducts) (streams : Bool) (signer : Option Str) (mdDir : Option Str)
    (link : RunLink) (written : Option (Str × RunLink))
    (h : inTotoRun o name ml pl before after command run streams signer mdDir = .ok (link, written)) :
    recordArtifacts o before before ml = .ok link.materials ∧
    recordArtifacts o after after pl = .ok link.products ∧
    link.name = name ∧ link.command = command ∧ link.signer = signer ∧
    (command = [] → link.byproducts = none) ∧
    (command ≠ [] → ∀ b, run = some b → ∃ lb, link.byproducts = some lb ∧ lb.returnValue = b.returnValue ∧
      (streams = true → lb = b) ∧ (streams = false → lb.stdout = [] ∧ lb.stderr = [])) ∧
    (∀ k, signer = some k → written = some (linkPath mdDir name k, link)) ∧
    (signer = none → written = none) := by
  unfold inTotoRun at h
  split at h
  · cases h
  · rename_i materials hm
    split at h
    · cases h
    · rename_i products hp
      simp only [Except.ok.injEq, Prod.mk.injEq] at h
      obtain ⟨rfl, rfl⟩ := h
      refine ⟨hm, hp, rfl, rfl, rfl, ?_, ?_, ?_, ?_⟩
      · intro hc; simp [runByproducts, hc]
      · intro hc b hb
        subst hb
        cases streams
        · refine ⟨{ b with stdout := [], stderr := [] }, by simp [runByproducts, hc], rfl, ?_, ?_⟩
          · intro h; cases h
          · intro _; exact ⟨rfl, rfl⟩
        · refine ⟨b, by simp [runByproducts, hc], rfl, ?_, ?_⟩
          · intro _; rfl
          · intro h; cases h
      · intro k hk; subst hk; rfl
      · intro hk; subst hk; rfl

end InToto
