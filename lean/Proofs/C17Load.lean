import Proofs.C05
import Proofs.C17
/-!
# C17 (second half) — a layout, step or inspection containing a malformed rule cannot be loaded
-/
namespace InToto

theorem mapE_error_of_mem {α β : Type} (f : α → Except Err β) :
    ∀ (l : List α) (x : α), x ∈ l → (∃ e, f x = .error e) → ∃ e, mapE f l = .error e := by
  intro l
  induction l with
  | nil => intro x hx; cases hx
  | cons a l ih =>
    intro x hx hfx
    simp only [mapE]
    cases hfa : f a with
    | error e => exact ⟨e, rfl⟩
    | ok y =>
      rcases List.mem_cons.mp hx with rfl | hx
      · obtain ⟨e, he⟩ := hfx; rw [hfa] at he; cases he
      · obtain ⟨e, he⟩ := ih x hx hfx
        simp only [he]
        exact ⟨e, rfl⟩

/-- A rule list with an element `unpack_rule` rejects is rejected. -/
theorem readRules_malformed (rules : List JVal) (toks : List JVal) (hmem : JVal.arr toks ∈ rules)
    (hbad : ∃ e, unpackRule (toks.map tokOfJ) = .error e) : ∃ e, readRules (.arr rules) = .error e := by
  simp only [readRules]
  apply mapE_error_of_mem readRule rules (.arr toks) hmem
  obtain ⟨e, he⟩ := hbad
  exact ⟨e, by simp [readRule, he]⟩

/-- **C17 (a step with a malformed rule cannot be constructed or loaded).** -/
theorem C17_step_malformed_rule (kvs : List (Str × JVal)) (field : String)
    (hf : field = "expected_materials" ∨ field = "expected_products")
    (rules toks : List JVal) (hr : Dict.get? kvs field.toList = some (.arr rules))
    (hmem : JVal.arr toks ∈ rules) (hbad : ∃ e, unpackRule (toks.map tokOfJ) = .error e) :
    ∀ s, readStep (.obj kvs) ≠ .ok s := by
  intro s h
  obtain ⟨e, he⟩ := readRules_malformed rules toks hmem hbad
  simp only [readStep, bind, Except.bind] at h
  rcases hf with rfl | rfl
  · have : getD kvs "expected_materials" (.arr []) = .arr rules := by unfold getD; rw [hr]; rfl
    rw [this, he] at h
    split at h <;> cases h
  · have : getD kvs "expected_products" (.arr []) = .arr rules := by unfold getD; rw [hr]; rfl
    rw [this, he] at h
    split at h
    · cases h
    · split at h <;> cases h

/-- **C17 (an inspection with a malformed rule cannot be constructed or loaded).** -/
theorem C17_inspection_malformed_rule (kvs : List (Str × JVal)) (field : String)
    (hf : field = "expected_materials" ∨ field = "expected_products")
    (rules toks : List JVal) (hr : Dict.get? kvs field.toList = some (.arr rules))
    (hmem : JVal.arr toks ∈ rules) (hbad : ∃ e, unpackRule (toks.map tokOfJ) = .error e) :
    ∀ i, readInspection (.obj kvs) ≠ .ok i := by
  intro i h
  obtain ⟨e, he⟩ := readRules_malformed rules toks hmem hbad
  simp only [readInspection, bind, Except.bind] at h
  rcases hf with rfl | rfl
  · have : getD kvs "expected_materials" (.arr []) = .arr rules := by unfold getD; rw [hr]; rfl
    rw [this, he] at h
    split at h <;> cases h
  · have : getD kvs "expected_products" (.arr []) = .arr rules := by unfold getD; rw [hr]; rfl
    rw [this, he] at h
    split at h
    · cases h
    · split at h <;> cases h

/-- **C17 (a layout containing such a step or inspection cannot be loaded).** -/
theorem C17_layout_malformed_rule (kvs : List (Str × JVal))
    (stepsJ inspJ : List JVal)
    (hs : Dict.get? kvs (lit "steps") = some (.arr stepsJ))
    (hi : Dict.get? kvs (lit "inspect") = some (.arr inspJ))
    (hbad : (∃ sj ∈ stepsJ, ∀ s, readStep sj ≠ .ok s) ∨ (∃ ij ∈ inspJ, ∀ i, readInspection ij ≠ .ok i)) :
    ∀ l, readLayout (.obj kvs) ≠ .ok l := by
  intro l h
  simp only [readLayout, bind, Except.bind, hs, hi, pure, Except.pure] at h
  rcases hbad with ⟨sj, hsj, hbad⟩ | ⟨ij, hij, hbad⟩
  · have : ∃ e, mapE readStep stepsJ = .error e := by
      apply mapE_error_of_mem readStep stepsJ sj hsj
      cases hr : readStep sj with
      | error e => exact ⟨e, rfl⟩
      | ok s => exact absurd hr (hbad s)
    obtain ⟨e, he⟩ := this
    rw [he] at h
    cases h
  · have : ∃ e, mapE readInspection inspJ = .error e := by
      apply mapE_error_of_mem readInspection inspJ ij hij
      cases hr : readInspection ij with
      | error e => exact ⟨e, rfl⟩
      | ok s => exact absurd hr (hbad s)
    obtain ⟨e, he⟩ := this
    cases hm : mapE readStep stepsJ with
    | error e' => rw [hm] at h; cases h
    | ok steps =>
      rw [hm, he] at h
      cases h

/-- … and therefore neither can metadata carrying it, in either container. -/
theorem C17_metadata_malformed_rule (bad : Err) (data : JVal)
    (ht : data.getKey? (lit "_type") = some (.str (lit "layout")))
    (hbad : ∀ l, readLayout data ≠ .ok l) : ∀ p, readPayload bad data ≠ .ok p := by
  intro p h
  simp only [readPayload, ht] at h
  have hne : lit "layout" ≠ lit "link" := by decide
  simp only [hne, if_false, if_true] at h
  cases hr : readLayout data with
  | error e => simp [hr, Except.map] at h
  | ok l => exact hbad l hr

end InToto
