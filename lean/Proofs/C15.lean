import InToto.Effects
/-!
# C15 — library calls leave working directory, settings and temp space unchanged
-/
namespace InToto

/-- Everything process-global is what it was (including the bookkeeping of the
enclosing brackets). -/
def Same (s s' : GState) : Prop :=
  s'.cwd = s.cwd ∧ s'.base = s.base ∧ s'.temps = s.temps ∧ s'.savedCwd = s.savedCwd ∧
  s'.savedBase = s.savedBase ∧ s'.savedTemps = s.savedTemps

theorem Same.refl (s : GState) : Same s s := ⟨rfl, rfl, rfl, rfl, rfl, rfl⟩

theorem Same.trans {a b c : GState} (h1 : Same a b) (h2 : Same b c) : Same a c := by
  obtain ⟨a1, a2, a3, a4, a5, a6⟩ := h1
  obtain ⟨b1, b2, b3, b4, b5, b6⟩ := h2
  exact ⟨b1.trans a1, b2.trans a2, b3.trans a3, b4.trans a4, b5.trans a5, b6.trans a6⟩

/-- Programs built from neutral operations and the three brackets the code uses. -/
inductive Restoring : Prog → Prop where
  | skip : Restoring .skip
  | io : Restoring (.op .io)
  | ioQuiet : Restoring (.op .ioQuiet)
  | seq (a b : Prog) : Restoring a → Restoring b → Restoring (.seq a b)
  | tryFinally (body fin : Prog) : Restoring body → Restoring fin → Restoring (.tryFinally body fin)
  | withCwd (d : Str) (body : Prog) : Restoring body → Restoring (withCwd d body)
  | withBaseNone (body : Prog) : Restoring body → Restoring (withBaseNone body)
  | withCaptureFiles (body : Prog) : Restoring body → Restoring (withCaptureFiles body)

/-- **C15 (restored on every path).** For every program built from neutral
operations and the code's brackets, every fault plan and every initial state:
when the call returns *or raises*, the working directory, the settings and the
set of temporary files are what they were before. -/
theorem C15_restored (p : Prog) (hp : Restoring p) : ∀ (f : FaultPlan) (s : GState), Same s (exec f p s).1 := by
  induction hp with
  | skip => intro f s; exact Same.refl s
  | io => intro f s; exact ⟨rfl, rfl, rfl, rfl, rfl, rfl⟩
  | ioQuiet => intro f s; exact ⟨rfl, rfl, rfl, rfl, rfl, rfl⟩
  | seq a b _ _ iha ihb =>
    intro f s
    simp only [exec]
    have ha := iha f s
    cases h : exec f a s with
    | mk s' r =>
      rw [h] at ha
      cases r with
      | true => exact ha
      | false => exact ha.trans (ihb f s')
  | tryFinally body fin _ _ ihb ihf =>
    intro f s
    simp only [exec]
    have hb := ihb f s
    cases h : exec f body s with
    | mk s' r =>
      rw [h] at hb
      have hf := ihf f s'
      cases h2 : exec f fin s' with
      | mk s'' r2 =>
        rw [h2] at hf
        cases r2 <;> exact hb.trans hf
  | withCwd d body _ ih =>
    intro f s
    simp only [withCwd, exec, stepOp]
    by_cases hf : f s.counter = true
    · simp only [hf, if_true]
      exact ⟨rfl, rfl, rfl, rfl, rfl, rfl⟩
    · simp only [hf, Bool.false_eq_true, if_false]
      have hb := ih f { s with cwd := d, savedCwd := s.cwd :: s.savedCwd, counter := s.counter + 1 }
      cases h : exec f body { s with cwd := d, savedCwd := s.cwd :: s.savedCwd, counter := s.counter + 1 } with
      | mk s' r =>
        rw [h] at hb
        obtain ⟨b1, b2, b3, b4, b5, b6⟩ := hb
        simp only at b1 b2 b3 b4 b5 b6
        cases r <;> exact ⟨by simp [b4], b2, b3, by simp [b4], b5, b6⟩
  | withBaseNone body _ ih =>
    intro f s
    simp only [withBaseNone, exec, stepOp]
    have hb := ih f { s with savedBase := s.base :: s.savedBase, base := none }
    cases h : exec f body { s with savedBase := s.base :: s.savedBase, base := none } with
    | mk s' r =>
      rw [h] at hb
      obtain ⟨b1, b2, b3, b4, b5, b6⟩ := hb
      simp only at b1 b2 b3 b4 b5 b6
      cases r <;> exact ⟨b1, by simp [b5], b3, b4, by simp [b5], b6⟩
  | withCaptureFiles body _ ih =>
    intro f s
    simp only [withCaptureFiles, exec, stepOp]
    -- whatever happens inside (first mkstemp fails, second fails, body raises or returns),
    -- the finally clause resets the temporary files to those that existed before
    have key : ∀ (s' : GState) (r : Bool), s'.cwd = s.cwd → s'.base = s.base → s'.savedCwd = s.savedCwd →
        s'.savedBase = s.savedBase → s'.savedTemps = s.temps :: s.savedTemps →
        Same s ({ s' with temps := s'.savedTemps.headD s'.temps, savedTemps := s'.savedTemps.tail,
                          counter := s'.counter + (s'.temps.length - (s'.savedTemps.headD s'.temps).length) }) := by
      intro s' r h1 h2 h3 h4 h5
      exact ⟨h1, h2, by simp [h5], h3, h4, by simp [h5]⟩
    by_cases hf0 : f s.counter = true
    · simp only [hf0, if_true]
      exact ⟨rfl, rfl, by simp, rfl, rfl, by simp⟩
    · simp only [hf0, Bool.false_eq_true, if_false]
      by_cases hf1 : f (s.counter + 1) = true
      · simp only [hf1, if_true]
        exact ⟨rfl, rfl, by simp, rfl, rfl, by simp⟩
      · simp only [hf1, Bool.false_eq_true, if_false]
        have hb := ih f { s with savedTemps := s.temps :: s.savedTemps, temps := 1 :: 0 :: s.temps,
                                 counter := s.counter + 1 + 1 }
        cases h : exec f body { s with savedTemps := s.temps :: s.savedTemps, temps := 1 :: 0 :: s.temps,
                                       counter := s.counter + 1 + 1 } with
        | mk s' r =>
          rw [h] at hb
          obtain ⟨b1, b2, b3, b4, b5, b6⟩ := hb
          simp only at b1 b2 b3 b4 b5 b6
          cases r <;> exact key s' true b1 b2 b4 b5 b6

/-- Sequences of restoring programs are restoring. -/
theorem Restoring.seqs : ∀ (ps : List Prog), (∀ p ∈ ps, Restoring p) → Restoring (seqs ps)
  | [], _ => .skip
  | [p], h => h p List.mem_cons_self
  | p :: q :: rest, h => by
    simp only [InToto.seqs]
    exact .seq _ _ (h p List.mem_cons_self) (Restoring.seqs (q :: rest) (fun x hx => h x (List.mem_cons_of_mem _ hx)))

theorem Restoring.ios (n : Nat) : Restoring (ios n) := by
  apply Restoring.seqs
  intro p hp
  simp only [List.mem_replicate] at hp
  rw [hp.2]
  exact .io

/-- A walk consists of reads (`io`) and directory listings (`ioQuiet`). -/
def WalkOps (walk : List Op) : Prop := ∀ o ∈ walk, o = .io ∨ o = .ioQuiet

theorem Restoring.walk (walk : List Op) (h : WalkOps walk) : Restoring (InToto.seqs (walk.map .op)) := by
  apply Restoring.seqs
  intro p hp
  obtain ⟨o, ho, rfl⟩ := List.mem_map.mp hp
  rcases h o ho with rfl | rfl
  · exact .io
  · exact .ioQuiet

theorem recordSkeleton_restoring (base : Option Str) (walk : List Op) (h : WalkOps walk) :
    Restoring (recordSkeleton base walk) := by
  cases base with
  | none => exact Restoring.walk walk h
  | some d => exact .withCwd d _ (Restoring.walk walk h)

theorem streamsSkeleton_restoring (n : Nat) : Restoring (streamsSkeleton n) :=
  .withCaptureFiles _ (Restoring.ios n)

theorem runSkeleton_restoring (base : Option Str) (w1 w2 : List Op) (h1 : WalkOps w1) (h2 : WalkOps w2)
    (rs : Bool) (nRun nDump : Nat) : Restoring (runSkeleton base w1 w2 rs nRun nDump) := by
  apply Restoring.seqs
  intro p hp
  simp only [List.mem_cons, List.mem_nil_iff, or_false] at hp
  rcases hp with rfl | rfl | rfl | rfl
  · exact recordSkeleton_restoring base w1 h1
  · cases rs
    · exact Restoring.ios nRun
    · exact streamsSkeleton_restoring nRun
  · exact recordSkeleton_restoring base w2 h2
  · exact Restoring.ios nDump

theorem inspectionSkeleton_restoring (w1 w2 : List Op) (h1 : WalkOps w1) (h2 : WalkOps w2) (nRun : Nat) :
    Restoring (inspectionSkeleton w1 w2 nRun) :=
  .withBaseNone _ (runSkeleton_restoring none w1 w2 h1 h2 false nRun 0)

/-- **C15 for the entry points.** Recording artifacts (with or without a base
path), running a command with stream capture, `in_toto_run`, and every
inspection of `in_toto_verify` restore the process state under every fault plan. -/
theorem C15_entry_points (f : FaultPlan) (s : GState) (base : Option Str) (w1 w2 : List Op)
    (h1 : WalkOps w1) (h2 : WalkOps w2) (rs : Bool) (nRun nDump : Nat) :
    Same s (exec f (recordSkeleton base w1) s).1 ∧
    Same s (exec f (streamsSkeleton nRun) s).1 ∧
    Same s (exec f (runSkeleton base w1 w2 rs nRun nDump) s).1 ∧
    Same s (exec f (inspectionSkeleton w1 w2 nRun) s).1 :=
  ⟨C15_restored _ (recordSkeleton_restoring base w1 h1) f s,
   C15_restored _ (streamsSkeleton_restoring nRun) f s,
   C15_restored _ (runSkeleton_restoring base w1 w2 h1 h2 rs nRun nDump) f s,
   C15_restored _ (inspectionSkeleton_restoring w1 w2 h1 h2 nRun) f s⟩

/-! ## Regression witnesses: the brackets as they were before the repairs (D7, D7c) -/

/-- D7: `chdir` without `try/finally`. -/
def withCwdOld (d : Str) (body : Prog) : Prog :=
  .seq (.op (.chdir d)) (.seq body (.op .restoreCwd))

/-- D7c: both `mkstemp` calls before the `try`. -/
def withCaptureFilesOld (body : Prog) : Prog :=
  .seq (.op .markTemps) (.seq (.op (.mkTemp 0)) (.seq (.op (.mkTemp 1)) (.tryFinally body (.op .rmTemps))))

private def s0 : GState :=
  { cwd := lit "/work", base := none, temps := [], savedCwd := [], savedBase := [], savedTemps := [], counter := 0 }

/-- A fault while hashing leaves the process in the base directory. -/
theorem old_chdir_not_restored :
    (exec (fun n => n == 1) (withCwdOld (lit "/base") (.op .io)) s0).1.cwd = lit "/base" := by decide

/-- A failing second `mkstemp` leaves the first capture file behind. -/
theorem old_capture_file_leaked :
    (exec (fun n => n == 1) (withCaptureFilesOld (.op .io)) s0).1.temps = [0] := by decide

example : (exec (fun n => n == 1) (withCwd (lit "/base") (.op .io)) s0).1.cwd = lit "/work" := by decide
example : (exec (fun n => n == 1) (withCaptureFiles (.op .io)) s0).1.temps = [] := by decide

end InToto
