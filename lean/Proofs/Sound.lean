import Proofs.SoundLemmas
import Proofs.C01
import Proofs.Honest
/-!
# End-to-end soundness of `in_toto_verify`: one theorem for C01, C02, C05, C06, C07, C08

`Accepted` says, without reference to the order in which the code does things,
what an acceptance **means**: the layout passes the gate (authentic under every
supplied key, unexpired: C01); for every step there is a non-empty group of
links such that each of them is the content of the file lying where the layout
says, is authorised for the step, carries a valid signature of the key the
authorisation rule selects and names the step (C02, C08), stands — if it is a
sublayout — for the summary link of an acceptance of that sublayout, one level
down, with that functionary's key and directory (C06); at least `threshold`
distinct functionaries stand behind the group (C02); for a threshold above one
all of them report the same materials and products (C05); the rules of every
step hold for the first link of each group (C03 says what that means); every
inspection ran, in order, exited 0 (C07), and its rules hold; and the summary
link is the one of C06.

`verify_sound`: whenever the model's `verify` returns a summary link, `Accepted`
holds — at every depth of delegation.
-/
namespace InToto

variable (gm : Str → Str → Bool) (w : World)

/-! ## Step names are distinct -/

theorem namesDistinct_nodup : ∀ (l : List (Option Str)), namesDistinct l = true → l.Nodup
  | [], _ => List.nodup_nil
  | n :: r, h => by
    simp only [namesDistinct, Bool.and_eq_true, Bool.not_eq_true', ← Bool.not_eq_true,
      List.contains_iff_mem] at h
    exact List.nodup_cons.mpr ⟨h.1, namesDistinct_nodup r h.2⟩

theorem readLayout_names {data : JVal} {l : Layout} (h : readLayout data = .ok l) :
    namesDistinct (l.steps.map (·.name) ++ l.inspect.map (·.name)) = true := by
  unfold readLayout at h
  split at h
  · simp only [bind, Except.bind, pure, Except.pure, throw, throwThe, MonadExceptOf.throw] at h
    repeat' split at h
    all_goals (try cases h)
    all_goals simp_all
  · cases h

/-- The layouts in-toto constructs (`Layout.read` validates this) have pairwise
distinct step names. -/
def Metadata.NamesDistinct (md : Metadata) : Prop :=
  ∀ l0, md.getPayload = .ok (.layout l0) → (l0.steps.map (·.name)).Nodup

theorem readPayload_names {bad : Err} {data : JVal} {l : Layout} (h : readPayload bad data = .ok (.layout l)) :
    (l.steps.map (·.name)).Nodup := by
  unfold readPayload at h
  simp only at h
  split at h
  · cases h
  · rename_i p hp
    split at h
    · cases h
      split at hp
      · split at hp
        · cases hr : readLink data with
          | error e => simp [hr, Except.map] at hp
          | ok lk => simp [hr, Except.map] at hp
        · split at hp
          · cases hr : readLayout data with
            | error e => simp [hr, Except.map] at hp
            | ok l' =>
              simp only [hr, Except.map, Except.ok.injEq, Payload.layout.injEq] at hp
              subst hp
              exact (List.nodup_append.mp (namesDistinct_nodup _ (readLayout_names hr))).1
          · cases hp
      · cases hp
    · cases h

/-- Whatever `Metadata.load` returns has distinct step names. -/
theorem fromDict_names {data : JVal} {aux : Option EnvAux} {md : Metadata}
    (h : Metadata.fromDict data aux = .ok md) : md.NamesDistinct := by
  intro l0 hp
  cases md with
  | envelope sigs text parsed =>
    simp only [Metadata.getPayload] at hp
    split at hp
    · exact readPayload_names hp
    · cases hp
  | metablock sigs signed =>
    simp only [Metadata.getPayload, Except.ok.injEq] at hp
    subst hp
    unfold Metadata.fromDict at h
    split at h
    · split at h
      · split at h
        · split at h
          · cases h
          · cases h
        · cases h
      · split at h
        · simp only [bind, Except.bind, pure, Except.pure] at h
          split at h
          · cases h
          · split at h
            · cases h
            · rename_i signed' hs
              split at h
              · cases h
              · cases h
                exact readPayload_names hs
        · cases h
    · cases h

theorem loadFile_names {path : Str} {md : Metadata} (h : loadFile w path = some (.ok md)) : md.NamesDistinct := by
  unfold loadFile at h
  split at h
  · cases h
  · cases h
  · simp only [Option.some.injEq] at h
    exact fromDict_names h

theorem substList_names (f : Step → Except Err Step) (hf : ∀ s s', f s = .ok s' → s'.name = s.name) :
    ∀ (l : List Step), ((substList f l).1).map (·.name) = l.map (·.name)
  | [] => rfl
  | x :: r => by
    simp only [substList]
    split
    · rfl
    · rename_i y hy
      simp only [List.map_cons, hf x y hy, substList_names f hf r]

theorem substStep_name (params : Dict Str Str) (s s' : Step) (h : substStep params s = .ok s') : s'.name = s.name := by
  unfold substStep at h
  split at h
  · cases h
  · split at h
    · cases h
    · split at h
      · cases h
      · cases h
        rfl

theorem substituteParameters_names (raw : List (Str × Option Str)) (l : Layout) :
    (substituteParameters raw l).1.steps.map (·.name) = l.steps.map (·.name) := by
  unfold substituteParameters
  split
  · rfl
  · rename_i params _
    have := substList_names (substStep params) (substStep_name params) l.steps
    split
    · rename_i steps e heq
      rw [heq] at this
      exact this
    · rename_i steps heq
      rw [heq] at this
      exact this

/-- The layout that is evaluated has the step names of the signed payload. -/
theorem gate_names {md : Metadata} {keys : List (Str × JVal)} {params : Option (List (Str × Option Str))}
    {layout : Layout} (h : gate w md keys params = .ok layout) (hd : md.NamesDistinct) :
    (layout.steps.map (·.name)).Nodup := by
  obtain ⟨_, l0, hp, _, hsub⟩ := gate_ok_inv w h
  have h0 := hd l0 hp
  unfold substIfAny at hsub
  split at hsub
  · cases hsub
    exact h0
  · rename_i raw
    split at hsub
    · cases hsub
    · rename_i l' heq
      cases hsub
      have := substituteParameters_names raw l0
      rw [heq] at this
      simp only at this
      rw [this]
      exact h0

/-! ## What an acceptance means -/

/-- The group of links accepted for one step (`links`: by key id of the file).
`Sub` is acceptance one level down. -/
def StepEvidence (Sub : Metadata → List (Str × JVal) → Str → Str → Link → Prop)
    (layout : Layout) (dir : Str) (step : Step) (name : Str) (links : Dict Str Link) : Prop :=
  -- every link used is the content of the file in its place, good (authorised, validly signed
  -- by the key the rule selects, bound to the step), and - for a sublayout - the summary link
  -- of an acceptance of that sublayout with that functionary's key, in its own directory
  (∀ q ∈ links, ∃ md d, loadFile w (pathJoin dir (linkFileName name q.1)) = some (.ok md) ∧
      GoodLink w layout (mainKeysForSubkeys layout.keys) step name q.1 md d ∧
      (md.getPayload = .ok (.link q.2) ∨
        ∃ sub, md.getPayload = .ok (.layout sub) ∧
          Sub md [(q.1, (Dict.get? layout.keys q.1).getD .null)] (subDir dir name q.1) name q.2)) ∧
  -- at least `threshold` distinct functionaries stand behind links of the group
  (∃ ids : List Str, ids.Nodup ∧ step.threshold ≤ (ids.length : Int) ∧
      ∀ d ∈ ids, ∃ q ∈ links, ∃ md, loadFile w (pathJoin dir (linkFileName name q.1)) = some (.ok md) ∧
        GoodLink w layout (mainKeysForSubkeys layout.keys) step name q.1 md d) ∧
  -- above a threshold of one, all of them report what the first reports
  (1 < step.threshold → ∀ ref ∈ links.head?, ∀ q ∈ links,
      artsEq ref.2.materials q.2.materials = true ∧ artsEq ref.2.products q.2.products = true)

/-- `Accepted n md keys dir params stepName s`: the metadata `md`, checked with
`keys`, links in `dir`, is acceptable with at most `n` levels of layouts, and `s`
is its summary link. -/
def Accepted : Nat → Metadata → List (Str × JVal) → Str → Option (List (Str × Option Str)) → Str → Link → Prop
  | 0, _, _, _, _, _, _ => False
  | n + 1, md, keys, dir, params, stepName, s =>
    ∃ layout, gate w md keys params = .ok layout ∧
    ∃ used : Dict Str Link,
      (∀ step ∈ layout.steps, ∃ name links, step.name = some name ∧
          StepEvidence w (fun md' keys' dir' name' lk => Accepted n md' keys' dir' none name' lk)
            layout dir step name links ∧
          ∃ kid lk, links.head? = some (kid, lk) ∧ Dict.get? used name = some lk) ∧
      (∃ items, stepItems layout = .ok items ∧ verifyAllItemRules gm (linksArts used) items = .ok ()) ∧
      (∃ inspLinks tr, runAllInspections w layout.inspect [] = (.ok inspLinks, tr) ∧
          checkInspections gm layout used inspLinks = .ok ()) ∧
      getSummaryLink layout used stepName = .ok s

/-! ## Soundness -/

/-- **End-to-end soundness.** Whenever `verify` returns a summary link, the
acceptance is justified in the sense of `Accepted`, at every depth. The
hypothesis (distinct step names in the layout presented) holds for whatever
`Metadata.load` returns (`fromDict_names`); for sublayouts it is derived. -/
theorem verify_sound : ∀ (fuel : Nat) (md : Metadata) (keys : List (Str × JVal)) (dir : Str)
    (params : Option (List (Str × Option Str))) (stepName : Str) (s : Link), md.NamesDistinct →
    (verify gm w fuel md keys dir params stepName).result = .ok s →
    Accepted gm w fuel md keys dir params stepName s := by
  intro fuel
  induction fuel with
  | zero =>
    intro md keys dir params stepName s _ h
    rw [verify_zero] at h
    cases h
  | succ n ih =>
    intro md keys dir params stepName s hd h
    obtain ⟨st⟩ := verify_ok_inv gm w h
    have hnames := gate_names w st.hgate hd
    obtain ⟨hthr, hred, items, hitems, hrules⟩ := checkChain_ok_inv gm st.hchain
    refine ⟨st.layout, st.hgate, st.reduced, ?_, ⟨items, hitems, hrules⟩,
      ⟨st.inspLinks, st.tr2, st.hinsp, st.hirules⟩, st.hsummary⟩
    intro step hstep
    -- the step has a name
    obtain ⟨name, hname, _⟩ := (verifySigSteps_inv w st.layout _ st.loaded _ _ _ st.hsig).1 step hstep
    rw [nameOf_ok_iff] at hname
    -- loaded, retained, chain entries of this step
    obtain ⟨lnks, hgl, hload⟩ := (loadLinksSteps_fwd w st.layout dir _ _ _ st.hload).2 hnames step hstep name hname
    obtain ⟨hlnd, hlfile⟩ := loadStepLinks_inv w dir name _ _ _ hload
    have hlnd := hlnd List.nodup_nil
    obtain ⟨hsnd, _, hsfwd⟩ := verifySigSteps_fwd w st.layout _ st.loaded _ _ _ st.hsig
    obtain ⟨kept, used, hgk, hvs, hcount⟩ := hsfwd hnames step hstep name hname
    rw [hgl] at hvs
    simp only [Option.getD_some] at hvs
    obtain ⟨hkept, _, _⟩ := verifyStepLinks_inv w st.layout _ step name _ _ _ _ _ hvs
    have hknd := (verifyStepLinks_mono w st.layout _ step name _ _ _ _ _ hvs).1 List.nodup_nil
    have hcounted := verifyStepLinks_counted_kept w st.layout _ step name _ _ _ _ _ hvs hlnd
    obtain ⟨links, tr', hgc, hsl⟩ := (verifySublayouts_fwd gm w n st.layout dir _ _ _ _ st.hsub).2
      (hsnd List.nodup_nil) (name, kept) (Dict.mem_of_get? _ _ _ hgk)
    simp only at hgc hsl
    obtain ⟨_, hback⟩ := verifySublayoutsStep_inv gm w n st.layout dir name _ _ _ _ hsl
    have hfwd := verifySublayoutsStep_fwd gm w n st.layout dir name _ _ _ _ hsl hknd
    obtain ⟨kid0, lk0, hhead, hgr⟩ := reduce_get? _ _ hred name links hgc
    -- a retained entry is a file in its place and good
    have hfile : ∀ p ∈ kept, loadFile w (pathJoin dir (linkFileName name p.1)) = some (.ok p.2) ∧
        ∃ d, GoodLink w st.layout (mainKeysForSubkeys st.layout.keys) step name p.1 p.2 d := by
      intro p hp
      rcases hkept p hp with h | ⟨hin, d, _, hg⟩
      · cases h
      · rcases hlfile p hin with h | ⟨_, hf⟩
        · cases h
        · exact ⟨hf, d, hg⟩
    refine ⟨name, links, hname, ⟨?_, ?_, ?_⟩, kid0, lk0, hhead, hgr⟩
    · intro q hq
      rcases hback q hq with h | ⟨md', hin, he⟩
      · cases h
      · obtain ⟨hf, d, hg⟩ := hfile _ hin
        refine ⟨md', d, hf, hg, ?_⟩
        rcases he with he | ⟨sub, hp, hres⟩
        · exact .inl he
        · exact .inr ⟨sub, hp, ih _ _ _ _ _ _ (loadFile_names w hf) hres⟩
    · refine ⟨dedup used, nodup_dedup _, hcount, ?_⟩
      intro d hd'
      rcases hcounted d ((mem_dedup _ _).mp hd') with h | ⟨p, hp, _, hg⟩
      · cases h
      · obtain ⟨lk, hlk, _⟩ := hfwd p hp
        exact ⟨(p.1, lk), hlk, p.2, (hfile p hp).1, hg⟩
    · intro h1 ref href q hq
      have := (allE_ok_iff _ _).mp hthr step hstep
      obtain ⟨name', links', hn', hl', _, kid', ref', hhead', hall⟩ := thresholdStep_ok_inv this h1
      rw [nameOf_ok_iff, hname] at hn'
      cases hn'
      rw [hgc] at hl'
      cases hl'
      rw [hhead'] at href
      simp only [Option.mem_def, Option.some.injEq] at href
      subst href
      exact hall q hq

/-- The hypothesis of `verify_sound` is met by honest chains of any length
(`honest_chain_verifies`): the statement is not vacuous, and for such chains
acceptance and `Accepted` coincide. -/
theorem honest_chain_accepted (fuel : Nat) (md : Metadata)
    (keys : List (Str × JVal)) (dir : Str) (params : Option (List (Str × Option Str))) (stepName : Str)
    (layout : Layout) (rs : List StepRecord) (inspLinks : Dict Str Link) (tr : List (List Str)) (s : Link)
    (hd : md.NamesDistinct)
    (hgate : gate w md keys params = .ok layout)
    (hsteps : HonestSteps (fun md' keys' dir' name' => verify gm w fuel md' keys' dir' none name') w layout dir layout.steps rs)
    (hdistinct : (rs.map (·.name)).Nodup)
    (hrules : ∀ items, stepItems layout = .ok items → verifyAllItemRules gm (linksArts (linksOf rs)) items = .ok ())
    (hinsp : runAllInspections w layout.inspect [] = (.ok inspLinks, tr))
    (hinsprules : checkInspections gm layout (linksOf rs) inspLinks = .ok ())
    (hsum : getSummaryLink layout (linksOf rs) stepName = .ok s) :
    Accepted gm w (fuel + 1) md keys dir params stepName s := by
  apply verify_sound gm w _ _ _ _ _ _ _ hd
  rw [honest_chain_verifies gm w fuel md keys dir params stepName layout rs inspLinks tr hgate hsteps hdistinct
    hrules hinsp hinsprules]
  exact hsum

end InToto
