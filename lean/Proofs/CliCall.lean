import InToto.CliCall
/-!
# The command line hands every option to the library (C10 / C11 / C12 / C13 / C18 / C19 / C20 through the front ends)

The statements are about `runCall`, `recordStartCall`, `recordStopCall`, `matchCall`, `verifyCall`
(`InToto/CliCall.lean`), which the harness compares with the arguments the real `main()` passes.
-/
namespace InToto

/-- in-toto-run reaches the library exactly when the argument checks of `RunArgs.usageOk` pass. -/
theorem runCall_isSome (ns : RecNs) :
    (runCall ns).isSome =
      RunArgs.usageOk { argparseOk := true, keys := ns.keys, noCommand := ns.noCommand, linkCmd := ns.linkCmd } := by
  cases h1 : ns.keys.exactlyOne <;> cases h2 : ns.noCommand <;> cases h3 : ns.linkCmd <;>
    simp [runCall, RunArgs.usageOk, h1, h2, h3]

theorem recordStartCall_isSome (ns : RecNs) :
    (recordStartCall ns).isSome = RecordArgs.usageOk { argparseOk := true, keys := ns.keys } := by
  unfold recordStartCall RecordArgs.usageOk
  split <;> simp_all

theorem recordStopCall_isSome (ns : RecNs) :
    (recordStopCall ns).isSome = RecordArgs.usageOk { argparseOk := true, keys := ns.keys } := by
  unfold recordStopCall RecordArgs.usageOk
  split <;> simp_all

/-- **in-toto-run**: every option that decides what is recorded, where it is written, in which format and
under which time limit reaches `in_toto_run` as given — nothing is dropped, defaulted or converted. -/
theorem cli_run_options_reach (ns : RecNs) (c : RecCall) (h : runCall ns = some c) :
    c.entry = .run ∧ c.name = ns.stepName ∧
    c.materials = some ns.materials ∧ c.products = some ns.products ∧
    c.exclude = ns.exclude ∧ c.basePath = ns.basePath ∧ c.lstrip = ns.lstrip ∧
    c.metadataDirectory = some ns.metadataDirectory ∧ c.useDsse = some ns.useDsse ∧
    c.timeout = some ns.runTimeout ∧ c.recordStreams = some ns.recordStreams ∧ c.gpgHome = ns.gpgHome ∧
    (ns.noCommand = false → c.command = some ns.linkCmd ∧ ns.linkCmd ≠ []) ∧
    (ns.noCommand = true → c.command = some []) := by
  unfold runCall at h
  split at h
  · cases h
  · rename_i hu
    cases h
    refine ⟨rfl, rfl, rfl, rfl, rfl, rfl, rfl, rfl, rfl, rfl, rfl, rfl, ?_, ?_⟩
    · intro hn
      simp only [hn] at hu ⊢
      refine ⟨by simp, ?_⟩
      intro he
      simp [he] at hu
    · intro hn; simp [hn]

/-- **in-toto-record**: `start` and `stop` hand the options they share to the library in the same way, and
each hands over the artifact list that is its own. -/
theorem cli_record_options_reach (ns : RecNs) (s t : RecCall)
    (hs : recordStartCall ns = some s) (ht : recordStopCall ns = some t) :
    s.entry = .recordStart ∧ t.entry = .recordStop ∧ s.name = ns.stepName ∧ t.name = ns.stepName ∧
    s.materials = some ns.materials ∧ t.products = some ns.products ∧
    s.exclude = ns.exclude ∧ t.exclude = ns.exclude ∧
    s.basePath = ns.basePath ∧ t.basePath = ns.basePath ∧
    s.lstrip = ns.lstrip ∧ t.lstrip = ns.lstrip ∧
    s.useDsse = some ns.useDsse ∧ t.metadataDirectory = some ns.metadataDirectory ∧
    s.signingKeyFrom = t.signingKeyFrom ∧ s.gpgKeyid = t.gpgKeyid ∧ s.gpgUseDefault = t.gpgUseDefault ∧
    s.gpgHome = t.gpgHome ∧ s.signerFrom = t.signerFrom := by
  unfold recordStartCall at hs
  unfold recordStopCall at ht
  split at hs
  · cases hs
  · split at ht
    · cases ht
    · cases hs; cases ht
      simp

theorem truthyPath_isSome (p : Option Str) : (truthyPath p).isSome = truthyStr p := by
  unfold truthyPath
  split <;> rename_i h
  · cases p with
    | none => simp [truthyStr] at h
    | some s => simp [h]
  · simp at h; simp [h]

theorem gpgRun_truthy (g : GpgArg) : (truthyStr (gpgKeyidRun g) || gpgUseDefault g) = g.truthy := by
  cases g with
  | absent => rfl
  | flag => rfl
  | value s => cases s <;> rfl

theorem gpgRecord_truthy (g : GpgArg) : (truthyStr (gpgKeyidRecord g) || gpgUseDefault g) = g.truthy := by
  cases g with
  | absent => rfl
  | flag => rfl
  | value s => cases s <;> rfl

/-- A call that is made carries exactly one way of signing: the link is never written unsigned and never
with a key other than the one named (C18: status 0 means a signed link was written). -/
theorem cli_run_one_signing_way (ns : RecNs) (c : RecCall) (h : runCall ns = some c) : c.signingWays = 1 := by
  unfold runCall at h
  split at h
  · cases h
  · rename_i hu
    cases h
    simp only [RecCall.signingWays, truthyPath_isSome, gpgRun_truthy]
    cases h1 : ns.keys.exactlyOne
    · simp [h1] at hu
    · simpa [KeyArgs.exactlyOne] using h1

theorem cli_record_one_signing_way (ns : RecNs) (c : RecCall)
    (h : recordStartCall ns = some c ∨ recordStopCall ns = some c) : c.signingWays = 1 := by
  rcases h with h | h
  · unfold recordStartCall at h
    split at h
    · cases h
    · rename_i hu
      cases h
      simp only [RecCall.signingWays, truthyPath_isSome, gpgRecord_truthy]
      simpa [KeyArgs.exactlyOne] using hu
  · unfold recordStopCall at h
    split at h
    · cases h
    · rename_i hu
      cases h
      simp only [RecCall.signingWays, truthyPath_isSome, gpgRecord_truthy]
      simpa [KeyArgs.exactlyOne] using hu

/-- **in-toto-match-products**: the three options reach `match_products` as given, each on its own
(`--lstrip-paths` without `--paths` included). -/
theorem cli_match_options_reach (ns : MatchNs) :
    (matchCall ns).paths = ns.paths ∧ (matchCall ns).exclude = ns.exclude ∧ (matchCall ns).lstrip = ns.lstrip ∧
    (matchCall ns).linkFrom = ns.link := ⟨rfl, rfl, rfl, rfl⟩

/-- **in-toto-verify**: every key option that was given contributes (none replaces another), in a fixed order,
and the directory and the time limit are the ones given. -/
theorem cli_verify_options_reach (ns : VerifyNs) (c : VerifyCall) (h : verifyCall ns = some c) :
    c.layoutFrom = ns.layout ∧ c.linkDir = ns.linkDir ∧ c.inspectTimeout = ns.inspectTimeout ∧
    (∀ l, ns.args.layoutKeys = some l → (lit "layout_keys", l) ∈ c.keyOptions) ∧
    (∀ l, ns.args.gpg = some l → (lit "gpg", l) ∈ c.keyOptions) ∧
    (∀ x l, ns.args.verificationKeys = some (x :: l) → (lit "verification_keys", x :: l) ∈ c.keyOptions) ∧
    c.keyOptions ≠ [] := by
  unfold verifyCall at h
  split at h
  · cases h
  · rename_i hu
    cases h
    refine ⟨rfl, rfl, rfl, ?_, ?_, ?_, ?_⟩
    · intro l hl; simp [hl]
    · intro l hl; simp [hl]
    · intro x l hl; simp [hl]
    · simp only [VerifyArgs.usageOk] at hu
      intro he
      simp only [List.append_eq_nil_iff] at he
      obtain ⟨⟨h1, h2⟩, h3⟩ := he
      cases hk : ns.args.layoutKeys <;> simp [hk] at h1
      cases hg : ns.args.gpg <;> simp [hg] at h2
      cases hv : ns.args.verificationKeys with
      | none => simp_all [truthyList]
      | some l => cases l with
        | nil => simp_all [truthyList]
        | cons x l => simp [hv] at h3

end InToto
