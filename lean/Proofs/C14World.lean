import Proofs.C14
/-!
# C14 at the level of whole worlds

Two worlds whose files differ at most in their *container* — every file has the
same payload (or fails to load with the same error) and gives the same result
for every key's signature check — are indistinguishable to `in_toto_verify`: same
verdict, same error, same summary link, same inspection trace, at every nesting
depth. With `C14_signature_check_equiv` (per file: the traditional and the
envelope check agree for signature lists made by the same signers) this is
"every assignment of the two formats to the layout, each link and each sublayout
gives the same outcome".
-/
namespace InToto

/-- Same payload (or the same failure to produce one), same result of the signature check for every
key in the class `K` (the keys that occur: e.g. all non-gpg keys — gpg signing of envelopes is unsupported). -/
def MdEquiv (K : JVal → Prop) (S : Scheme) (nowSec : Int) (a b : Metadata) : Prop :=
  a.getPayload = b.getPayload ∧ ∀ keyJ, K keyJ → a.verifySignature S nowSec keyJ = b.verifySignature S nowSec keyJ

theorem MdEquiv.refl (K : JVal → Prop) (S : Scheme) (nowSec : Int) (a : Metadata) : MdEquiv K S nowSec a a :=
  ⟨rfl, fun _ _ => rfl⟩

/-- Every key a verification under this key store can use is in the class `K`: the key the authorisation
loop hands to the signature check, and the key a delegated step's sublayout is checked with. -/
def KeysClosed (K : JVal → Prop) (ks : Dict Str JVal) : Prop :=
  (∀ linkKeyid pubkeys vkey mainId,
    authorise ks (mainKeysForSubkeys ks) linkKeyid pubkeys = .ok (some (vkey, mainId)) → K vkey) ∧
  (∀ keyid, K ((Dict.get? ks keyid).getD .null))

/-- If the metadata carries a layout, its key store is closed in that sense. -/
def MdKeysOK (K : JVal → Prop) (md : Metadata) : Prop :=
  ∀ l, md.getPayload = .ok (.layout l) → KeysClosed K l.keys

/-- What `Metadata.load` gives for a path in the two worlds. -/
def FileEquiv (K : JVal → Prop) (S : Scheme) (nowSec : Int) :
    Option (Except Err Metadata) → Option (Except Err Metadata) → Prop
  | none, none => True
  | some (.error e), some (.error e') => e = e'
  | some (.ok a), some (.ok b) => MdEquiv K S nowSec a b ∧ MdKeysOK K a
  | _, _ => False

/-- The second world: the same scheme, clock and inspection behaviour, other files. -/
def World.withFiles (w : World) (files : Dict Str FileContent) : World := { w with files := files }

def WorldEquiv (K : JVal → Prop) (w : World) (files2 : Dict Str FileContent) : Prop :=
  ∀ path, FileEquiv K w.S w.nowSec (loadFile w path) (loadFile (w.withFiles files2) path)

/-- Dictionaries with the same keys in the same order and related values. -/
inductive DictRel {α β : Type} (R : α → β → Prop) : Dict Str α → Dict Str β → Prop where
  | nil : DictRel R [] []
  | cons {p : Str × α} {q : Str × β} {d : Dict Str α} {e : Dict Str β} :
      p.1 = q.1 → R p.2 q.2 → DictRel R d e → DictRel R (p :: d) (q :: e)

/-- Both fail with the same error, or both succeed with related results. -/
def ExcRel {α β : Type} (R : α → β → Prop) : Except Err α → Except Err β → Prop
  | .error e, .error e' => e = e'
  | .ok a, .ok b => R a b
  | _, _ => False

theorem DictRel.insert {α β : Type} {R : α → β → Prop} (k : Str) {a : α} {b : β} (hab : R a b) :
    ∀ {d : Dict Str α} {e : Dict Str β}, DictRel R d e → DictRel R (Dict.insert d k a) (Dict.insert e k b) := by
  intro d e h
  induction h with
  | nil => exact .cons rfl hab .nil
  | @cons p q d e hk hr hrest ih =>
    simp only [Dict.insert]
    by_cases hpk : p.1 = k
    · have hqk : q.1 = k := hk ▸ hpk
      simp only [hpk, hqk, if_true]
      exact .cons rfl hab hrest
    · have hqk : ¬ q.1 = k := fun h' => hpk (hk ▸ h')
      simp only [hpk, hqk, if_false]
      exact .cons hk hr ih

theorem DictRel.get? {α β : Type} {R : α → β → Prop} (k : Str) :
    ∀ {d : Dict Str α} {e : Dict Str β}, DictRel R d e →
    (Dict.get? d k = none ∧ Dict.get? e k = none) ∨ ∃ a b, Dict.get? d k = some a ∧ Dict.get? e k = some b ∧ R a b := by
  intro d e h
  induction h with
  | nil => exact .inl ⟨rfl, rfl⟩
  | @cons p q d e hk hr hrest ih =>
    by_cases hpk : p.1 = k
    · have hqk : q.1 = k := hk ▸ hpk
      exact .inr ⟨p.2, q.2, by simp [Dict.get?, List.find?_cons, hpk], by simp [Dict.get?, List.find?_cons, hqk], hr⟩
    · have hqk : ¬ q.1 = k := fun h' => hpk (hk ▸ h')
      simpa [Dict.get?, List.find?_cons, hpk, hqk] using ih

theorem DictRel.length {α β : Type} {R : α → β → Prop} {d : Dict Str α} {e : Dict Str β} (h : DictRel R d e) :
    d.length = e.length := by
  induction h with
  | nil => rfl
  | cons _ _ _ ih => simp [ih]


/-! ## Stage by stage -/

variable (gm : Str → Str → Bool) (K : JVal → Prop) (w : World) (files2 : Dict Str FileContent)

abbrev MdR (a b : Metadata) : Prop := MdEquiv K w.S w.nowSec a b ∧ MdKeysOK K a

theorem loadStepLinks_rel (hw : WorldEquiv K w files2) (dir stepName : Str) : ∀ (ids : List Str)
    (acc1 acc2 : Dict Str Metadata), DictRel (MdR K w) acc1 acc2 →
    ExcRel (DictRel (MdR K w)) (loadStepLinks w dir stepName ids acc1)
      (loadStepLinks (w.withFiles files2) dir stepName ids acc2)
  | [], _, _, h => h
  | keyid :: rest, acc1, acc2, h => by
    have hf := hw (pathJoin dir (linkFileName stepName keyid))
    simp only [loadStepLinks]
    cases h1 : loadFile w (pathJoin dir (linkFileName stepName keyid)) with
    | none =>
      cases h2 : loadFile (w.withFiles files2) (pathJoin dir (linkFileName stepName keyid)) with
      | none => exact loadStepLinks_rel hw dir stepName rest acc1 acc2 h
      | some r => rw [h1, h2] at hf; cases r <;> simp [FileEquiv] at hf
    | some r1 =>
      cases h2 : loadFile (w.withFiles files2) (pathJoin dir (linkFileName stepName keyid)) with
      | none => rw [h1, h2] at hf; cases r1 <;> simp [FileEquiv] at hf
      | some r2 =>
        rw [h1, h2] at hf
        cases r1 with
        | error e1 =>
          cases r2 with
          | error e2 => simpa [FileEquiv, ExcRel] using hf
          | ok b => simp [FileEquiv] at hf
        | ok a =>
          cases r2 with
          | error e2 => simp [FileEquiv] at hf
          | ok b =>
            simp only [FileEquiv] at hf
            exact loadStepLinks_rel hw dir stepName rest _ _ (DictRel.insert (R := MdR K w) keyid hf h)

theorem loadLinksSteps_rel (hw : WorldEquiv K w files2) (l : Layout) (dir : Str) : ∀ (steps : List Step)
    (acc1 acc2 : Dict Str (Dict Str Metadata)), DictRel (DictRel (MdR K w)) acc1 acc2 →
    ExcRel (DictRel (DictRel (MdR K w))) (loadLinksSteps w l dir steps acc1)
      (loadLinksSteps (w.withFiles files2) l dir steps acc2)
  | [], _, _, h => h
  | step :: rest, acc1, acc2, h => by
    simp only [loadLinksSteps]
    cases hn : nameOf step.name with
    | error e => simp [ExcRel]
    | ok name =>
      simp only []
      have hl := loadStepLinks_rel K w files2 hw dir name (candidateIds l step) [] [] .nil
      cases h1 : loadStepLinks w dir name (candidateIds l step) [] with
      | error e1 =>
        cases h2 : loadStepLinks (w.withFiles files2) dir name (candidateIds l step) [] with
        | error e2 => rw [h1, h2] at hl; simpa [ExcRel] using hl
        | ok b => rw [h1, h2] at hl; simp [ExcRel] at hl
      | ok a =>
        cases h2 : loadStepLinks (w.withFiles files2) dir name (candidateIds l step) [] with
        | error e2 => rw [h1, h2] at hl; simp [ExcRel] at hl
        | ok b =>
          rw [h1, h2] at hl
          simp only [ExcRel] at hl
          simp only [hl.length]
          split
          · simp [ExcRel]
          · exact loadLinksSteps_rel hw l dir rest _ _ (DictRel.insert name hl h)

theorem verifyStepLinks_rel (l : Layout) (hcl : KeysClosed K l.keys) (step : Step) (stepName : Str) :
    ∀ (links1 links2 : List (Str × Metadata)) (kept1 kept2 : Dict Str Metadata) (used : List Str),
    DictRel (MdR K w) links1 links2 → DictRel (MdR K w) kept1 kept2 →
    ExcRel (fun r1 r2 => DictRel (MdR K w) r1.1 r2.1 ∧ r1.2 = r2.2)
      (verifyStepLinks w l (mainKeysForSubkeys l.keys) step stepName links1 kept1 used)
      (verifyStepLinks (w.withFiles files2) l (mainKeysForSubkeys l.keys) step stepName links2 kept2 used)
  | [], [], _, _, _, _, hk => by simp [verifyStepLinks, ExcRel, hk]
  | p :: r1, q :: r2, kept1, kept2, used, hl, hk => by
    cases hl with
    | cons hid hmd hrest =>
      obtain ⟨k1, m1⟩ := p
      obtain ⟨k2, m2⟩ := q
      simp only at hid hmd
      subst hid
      simp only [verifyStepLinks]
      cases hau : authorise l.keys (mainKeysForSubkeys l.keys) k1 step.pubkeys with
      | error e => simp [ExcRel]
      | ok o =>
        cases o with
        | none => exact verifyStepLinks_rel l hcl step stepName r1 r2 kept1 kept2 used hrest hk
        | some vm =>
          obtain ⟨vkey, mainId⟩ := vm
          simp only []
          have hsig : m1.verifySignature w.S w.nowSec vkey = m2.verifySignature (w.withFiles files2).S (w.withFiles files2).nowSec vkey :=
            hmd.1.2 vkey (hcl.1 k1 step.pubkeys vkey mainId hau)
          rw [← hsig]
          cases m1.verifySignature w.S w.nowSec vkey with
          | bad => exact verifyStepLinks_rel l hcl step stepName r1 r2 kept1 kept2 used hrest hk
          | expired => exact verifyStepLinks_rel l hcl step stepName r1 r2 kept1 kept2 used hrest hk
          | crash e =>
            simp only []
            split
            · exact verifyStepLinks_rel l hcl step stepName r1 r2 kept1 kept2 used hrest hk
            · simp [ExcRel]
          | ok =>
            simp only []
            rw [← hmd.1.1]
            cases m1.getPayload with
            | error e => simp [ExcRel]
            | ok payload =>
              simp only []
              split
              · exact verifyStepLinks_rel l hcl step stepName r1 r2 kept1 kept2 used hrest hk
              · exact verifyStepLinks_rel l hcl step stepName r1 r2 _ _ _ hrest (DictRel.insert k1 hmd hk)
  | [], _ :: _, _, _, _, hl, _ => by cases hl
  | _ :: _, [], _, _, _, hl, _ => by cases hl


theorem verifySigSteps_rel (l : Layout) (hcl : KeysClosed K l.keys) (md1 md2 : Dict Str (Dict Str Metadata))
    (hmd : DictRel (DictRel (MdR K w)) md1 md2) : ∀ (steps : List Step) (acc1 acc2 : Dict Str (Dict Str Metadata)),
    DictRel (DictRel (MdR K w)) acc1 acc2 →
    ExcRel (DictRel (DictRel (MdR K w))) (verifySigSteps w l (mainKeysForSubkeys l.keys) md1 steps acc1)
      (verifySigSteps (w.withFiles files2) l (mainKeysForSubkeys l.keys) md2 steps acc2)
  | [], _, _, h => h
  | step :: rest, acc1, acc2, h => by
    simp only [verifySigSteps]
    cases hn : nameOf step.name with
    | error e => simp [ExcRel]
    | ok name =>
      simp only []
      have hlinks : DictRel (MdR K w) ((Dict.get? md1 name).getD []) ((Dict.get? md2 name).getD []) := by
        rcases DictRel.get? name hmd with ⟨h1, h2⟩ | ⟨a, b, h1, h2, hab⟩
        · rw [h1, h2]; exact .nil
        · rw [h1, h2]; exact hab
      have hv := verifyStepLinks_rel K w files2 l hcl step name _ _ [] [] [] hlinks .nil
      cases h1 : verifyStepLinks w l (mainKeysForSubkeys l.keys) step name ((Dict.get? md1 name).getD []) [] [] with
      | error e1 =>
        cases h2 : verifyStepLinks (w.withFiles files2) l (mainKeysForSubkeys l.keys) step name ((Dict.get? md2 name).getD []) [] [] with
        | error e2 => rw [h1, h2] at hv; simpa [ExcRel] using hv
        | ok b => rw [h1, h2] at hv; simp [ExcRel] at hv
      | ok a =>
        cases h2 : verifyStepLinks (w.withFiles files2) l (mainKeysForSubkeys l.keys) step name ((Dict.get? md2 name).getD []) [] [] with
        | error e2 => rw [h1, h2] at hv; simp [ExcRel] at hv
        | ok b =>
          rw [h1, h2] at hv
          simp only [ExcRel] at hv
          obtain ⟨ka, ua⟩ := a
          obtain ⟨kb, ub⟩ := b
          simp only at hv
          obtain ⟨hk, hu⟩ := hv
          subst hu
          simp only []
          split
          · simp [ExcRel]
          · exact verifySigSteps_rel l hcl md1 md2 hmd rest _ _ (DictRel.insert name hk h)

/-- Sublayout verification, given that the recursive calls agree on equivalent metadata. -/
theorem verifySublayoutsStep_eq (recur1 recur2 : Metadata → List (Str × JVal) → Str → Str → VerifyOut)
    (hrec : ∀ a b keys dir name, MdR K w a b → (∀ kv ∈ keys, K kv.2) → recur1 a keys dir name = recur2 b keys dir name)
    (l : Layout) (hcl : KeysClosed K l.keys) (dir stepName : Str) : ∀ (mds1 mds2 : List (Str × Metadata)) (acc : Dict Str Link),
    DictRel (MdR K w) mds1 mds2 →
    verifySublayoutsStep recur1 l dir stepName mds1 acc = verifySublayoutsStep recur2 l dir stepName mds2 acc
  | [], [], _, _ => rfl
  | p :: r1, q :: r2, acc, h => by
    cases h with
    | cons hid hmd hrest =>
      obtain ⟨k1, m1⟩ := p
      obtain ⟨k2, m2⟩ := q
      simp only at hid hmd
      subst hid
      simp only [verifySublayoutsStep]
      rw [← hmd.1.1]
      cases m1.getPayload with
      | error e => rfl
      | ok payload =>
        cases payload with
        | link lk => exact verifySublayoutsStep_eq recur1 recur2 hrec l hcl dir stepName r1 r2 _ hrest
        | layout _ =>
          simp only []
          rw [hrec m1 m2 _ _ _ hmd (by intro kv hkv; simp only [List.mem_singleton] at hkv; rw [hkv]; exact hcl.2 k1)]
          cases (recur2 m2 [(k1, (Dict.get? l.keys k1).getD JVal.null)] (pathJoin dir (sublayoutDirName stepName k1)) stepName).result with
          | error e => rfl
          | ok summary =>
            simp only []
            rw [verifySublayoutsStep_eq recur1 recur2 hrec l hcl dir stepName r1 r2 _ hrest]
  | [], _ :: _, _, h => by cases h
  | _ :: _, [], _, h => by cases h

theorem verifySublayouts_eq (recur1 recur2 : Metadata → List (Str × JVal) → Str → Str → VerifyOut)
    (hrec : ∀ a b keys dir name, MdR K w a b → (∀ kv ∈ keys, K kv.2) → recur1 a keys dir name = recur2 b keys dir name)
    (l : Layout) (hcl : KeysClosed K l.keys) (dir : Str) : ∀ (s1 s2 : List (Str × Dict Str Metadata)) (acc : Dict Str (Dict Str Link)),
    DictRel (DictRel (MdR K w)) s1 s2 →
    verifySublayouts recur1 l dir s1 acc = verifySublayouts recur2 l dir s2 acc
  | [], [], _, _ => rfl
  | p :: r1, q :: r2, acc, h => by
    cases h with
    | cons hid hmd hrest =>
      obtain ⟨n1, m1⟩ := p
      obtain ⟨n2, m2⟩ := q
      simp only at hid hmd
      subst hid
      simp only [verifySublayouts]
      rw [verifySublayoutsStep_eq K w recur1 recur2 hrec l hcl dir n1 m1 m2 [] hmd]
      cases verifySublayoutsStep recur2 l dir n1 m2 [] with
      | mk r tr =>
        cases r with
        | error e => rfl
        | ok links =>
          simp only []
          rw [verifySublayouts_eq recur1 recur2 hrec l hcl dir r1 r2 _ hrest]
  | [], _ :: _, _, h => by cases h
  | _ :: _, [], _, h => by cases h

/-! ## The whole verification -/

theorem allE_congr {α : Type} (f g : α → Except Err Unit) : ∀ (l : List α), (∀ x ∈ l, f x = g x) → allE f l = allE g l
  | [], _ => rfl
  | x :: r, h => by
    simp only [allE, h x List.mem_cons_self]
    cases g x with
    | error e => rfl
    | ok _ => exact allE_congr f g r (fun y hy => h y (List.mem_cons_of_mem _ hy))

theorem gate_eq (md1 md2 : Metadata) (h : MdR K w md1 md2) (keys : List (Str × JVal)) (hkeys : ∀ kv ∈ keys, K kv.2)
    (params : Option (List (Str × Option Str))) :
    gate w md1 keys params = gate (w.withFiles files2) md2 keys params := by
  have hsig : verifyMetadataSignatures w md1 keys = verifyMetadataSignatures (w.withFiles files2) md2 keys := by
    simp only [verifyMetadataSignatures]
    cases checkPublicKeys keys with
    | error e => rfl
    | ok _ =>
      simp only []
      split
      · rfl
      · apply allE_congr
        intro kv hkv
        rw [show (w.withFiles files2).S = w.S from rfl, show (w.withFiles files2).nowSec = w.nowSec from rfl,
          h.1.2 kv.2 (hkeys kv hkv)]
  simp only [gate, hsig, ← h.1.1]
  rfl

theorem substituteParameters_keys (raw : List (Str × Option Str)) (l : Layout) :
    (substituteParameters raw l).1.keys = l.keys := by
  unfold substituteParameters
  split
  · rfl
  · split
    · rfl
    · rfl

/-- The layout that passes the gate has the key store of the metadata's payload. -/
theorem gate_keys {md : Metadata} {keys : List (Str × JVal)} {params : Option (List (Str × Option Str))} {layout : Layout}
    (h : gate w md keys params = .ok layout) : ∃ l0, md.getPayload = .ok (.layout l0) ∧ layout.keys = l0.keys := by
  unfold gate at h
  split at h
  · cases h
  · split at h
    · cases h
    · cases h
    · rename_i l0 hpay
      split at h
      · cases h
      · split at h
        · cases h
        · rename_i lay hsub
          split at h
          · cases h
          · cases h
            refine ⟨l0, hpay, ?_⟩
            unfold substIfAny at hsub
            split at hsub
            · cases hsub; rfl
            · rename_i raw
              have hk := substituteParameters_keys raw l0
              split at hsub
              · cases hsub
              · rename_i l' heq
                cases hsub
                rw [heq] at hk
                exact hk

theorem runAllInspections_withFiles : ∀ (insps : List Inspection) (acc : Dict Str Link),
    runAllInspections (w.withFiles files2) insps acc = runAllInspections w insps acc
  | [], _ => rfl
  | i :: rest, acc => by
    simp only [runAllInspections]
    cases i.name with
    | none => rfl
    | some name =>
      simp only []
      split
      · rfl
      · cases strsOf i.run with
        | none => rfl
        | some cmd =>
          simp only [show (w.withFiles files2).insp = w.insp from rfl]
          cases w.insp cmd with
          | none => rfl
          | some o =>
            cases o with
            | oserror => rfl
            | timeout => rfl
            | exit code materials products =>
              simp only []
              split
              · rfl
              · rw [runAllInspections_withFiles rest]

/-- **C14 (whole worlds).** Two worlds with the same scheme, clock and inspection
behaviour whose files are pairwise equivalent — same payload or same load error,
same result of every signature check — give the same `in_toto_verify` outcome
(verdict or error class, summary link, inspection trace) for equivalent root
layouts, at every depth of delegation. -/
theorem C14_world (hw : WorldEquiv K w files2) : ∀ (fuel : Nat) (md1 md2 : Metadata) (keys : List (Str × JVal))
    (dir : Str) (params : Option (List (Str × Option Str))) (stepName : Str), MdR K w md1 md2 →
    (∀ kv ∈ keys, K kv.2) →
    verify gm w fuel md1 keys dir params stepName = verify gm (w.withFiles files2) fuel md2 keys dir params stepName
  | 0, _, _, _, _, _, _, _, _ => rfl
  | fuel + 1, md1, md2, keys, dir, params, stepName, hmd, hkeys => by
    simp only [verify]
    rw [← gate_eq K w files2 md1 md2 hmd keys hkeys params]
    cases hg : gate w md1 keys params with
    | error e => rfl
    | ok layout =>
      simp only []
      obtain ⟨l0, hpay, hks⟩ := gate_keys w hg
      have hcl : KeysClosed K layout.keys := by rw [hks]; exact hmd.2 l0 hpay
      have hl := loadLinksSteps_rel K w files2 hw layout dir layout.steps [] [] .nil
      simp only [loadLinksForLayout]
      cases h1 : loadLinksSteps w layout dir layout.steps [] with
      | error e1 =>
        cases h2 : loadLinksSteps (w.withFiles files2) layout dir layout.steps [] with
        | error e2 => rw [h1, h2] at hl; simp only [ExcRel] at hl; rw [hl]
        | ok b => rw [h1, h2] at hl; simp [ExcRel] at hl
      | ok loaded1 =>
        cases h2 : loadLinksSteps (w.withFiles files2) layout dir layout.steps [] with
        | error e2 => rw [h1, h2] at hl; simp [ExcRel] at hl
        | ok loaded2 =>
          rw [h1, h2] at hl
          simp only [ExcRel] at hl
          simp only [verifyLinkSignatureThresholds]
          have hs := verifySigSteps_rel K w files2 layout hcl loaded1 loaded2 hl layout.steps [] [] .nil
          cases h3 : verifySigSteps w layout (mainKeysForSubkeys layout.keys) loaded1 layout.steps [] with
          | error e1 =>
            cases h4 : verifySigSteps (w.withFiles files2) layout (mainKeysForSubkeys layout.keys) loaded2 layout.steps [] with
            | error e2 => rw [h3, h4] at hs; simp only [ExcRel] at hs; rw [hs]
            | ok b => rw [h3, h4] at hs; simp [ExcRel] at hs
          | ok sm1 =>
            cases h4 : verifySigSteps (w.withFiles files2) layout (mainKeysForSubkeys layout.keys) loaded2 layout.steps [] with
            | error e2 => rw [h3, h4] at hs; simp [ExcRel] at hs
            | ok sm2 =>
              rw [h3, h4] at hs
              simp only [ExcRel] at hs
              simp only []
              rw [verifySublayouts_eq K w
                (fun md' keys' dir' name' => verify gm w fuel md' keys' dir' none name')
                (fun md' keys' dir' name' => verify gm (w.withFiles files2) fuel md' keys' dir' none name')
                (fun a b keys' dir' name' hab hk' => C14_world hw fuel a b keys' dir' none name' hab hk')
                layout hcl dir sm1 sm2 [] hs]
              simp only [runAllInspections_withFiles]


/-! ## The two containers of one payload are equivalent files -/

/-- Keys that are not gpg keys and list no subkeys (and anything that is not a key at all). -/
def NonGpgKey (keyJ : JVal) : Prop := ∀ k, readPubKey keyJ = .ok k → k.gpg = false ∧ k.subkeys = []

/-- **C14 (per file).** A traditional file and an envelope that carry the same
payload, signed by the same signers (distinct key ids), are equivalent for
every non-gpg key: same payload, same result of the signature check. With
`C14_world`: every assignment of the two formats to the files of a world gives
the same verification outcome. -/
theorem C14_containers_equiv (S : Scheme) (nowSec : Int) (sigsM sigsE : List SigEntry) (signed : Payload)
    (text : Str) (parsed : Option JVal) (bM : Str)
    (hpay : (Metadata.envelope sigsE text parsed).getPayload = .ok signed)
    (hbytes : signed.signableBytes = some bM)
    (hsame : ∀ material, SameSigners S material bM (pae envelopePayloadType text) sigsM sigsE)
    (hnd : (sigsM.map (·.keyid)).Nodup) :
    MdEquiv NonGpgKey S nowSec (.metablock sigsM signed) (.envelope sigsE text parsed) := by
  refine ⟨?_, ?_⟩
  · rw [hpay]; rfl
  · intro keyJ hK
    simp only [Metadata.verifySignature, hbytes]
    cases hk : readPubKey keyJ with
    | error e => simp [metablockVerify, envelopeVerify, hk]
    | ok k =>
      obtain ⟨hng, hsub⟩ := hK k hk
      exact C14_signature_check_equiv S nowSec keyJ k hk hng hsub bM _ sigsM sigsE (hsame k.material) hnd

end InToto
