import Proofs.C05
/-!
# C07 — inspection commands run only after all prior checks pass, once, in order
# C06 — sublayouts are verified completely and recursively

Theorems about the trace of executed commands returned by `verify` and about
`verifySublayouts`.
-/
namespace InToto

variable (gm : Str → Str → Bool) (w : World)

/-- The command line of an inspection as it is executed. -/
def cmdOf (i : Inspection) : Option (List Str) := strsOf i.run

/-! ## The inspection loop -/

/-- **C07 (once, in order, stop at the first failure).** The commands executed
by the inspection loop are exactly the command lines of a prefix of the
inspection list, in list order, each once. Every executed command except
possibly the last exited with status 0. If the loop succeeds the prefix is the
whole list and every command exited 0; if a command exits non-zero, times out
or cannot be started the loop fails right there. -/
theorem C07_prefix : ∀ (insps : List Inspection) (acc : Dict Str Link)
    (r : Except Err (Dict Str Link)) (tr : List (List Str)),
    runAllInspections w insps acc = (r, tr) →
    ∃ k, k ≤ insps.length ∧ (insps.take k).map cmdOf = tr.map some ∧
      (∀ c ∈ tr.dropLast, ∃ m p, w.insp c = some (.exit 0 m p)) ∧
      ((∃ res, r = .ok res) → k = insps.length ∧ ∀ c ∈ tr, ∃ m p, w.insp c = some (.exit 0 m p)) := by
  intro insps
  induction insps with
  | nil =>
    intro acc r tr h
    simp only [runAllInspections] at h
    cases h
    exact ⟨0, by simp⟩
  | cons i rest ih =>
    intro acc r tr h
    simp only [runAllInspections] at h
    split at h
    · cases h; exact ⟨0, by simp⟩
    · rename_i name hname
      split at h
      · cases h; exact ⟨0, by simp⟩
      · split at h
        · cases h; exact ⟨0, by simp⟩
        · rename_i cmd hcmd
          have stop : ∀ e, (r, tr) = (Except.error e, [cmd]) →
              ∃ k, k ≤ (i :: rest).length ∧ ((i :: rest).take k).map cmdOf = tr.map some ∧
                (∀ c ∈ tr.dropLast, ∃ m p, w.insp c = some (.exit 0 m p)) ∧
                ((∃ res, r = .ok res) → k = (i :: rest).length ∧ ∀ c ∈ tr, ∃ m p, w.insp c = some (.exit 0 m p)) := by
            intro e he
            cases he
            refine ⟨1, by simp, by simp [cmdOf, hcmd], by simp, ?_⟩
            rintro ⟨res, hres⟩; cases hres
          split at h
          · exact stop _ h.symm
          · exact stop _ h.symm
          · exact stop _ h.symm
          · rename_i code materials products hout
            split at h
            · exact stop _ h.symm
            · rename_i hcode
              have hzero : code = 0 := by
                simpa using hcode
              subst hzero
              cases hrec : runAllInspections w rest (Dict.insert acc name
                  { name := some name, materials := materials, products := products, byproducts := [],
                    command := i.run, environment := [] }) with
              | mk r' tr' =>
                rw [hrec] at h
                simp only at h
                cases h
                obtain ⟨k, hk, hmap, hdl, hok⟩ := ih _ _ _ hrec
                refine ⟨k + 1, by simp; omega, ?_, ?_, ?_⟩
                · simp [List.take_succ_cons, cmdOf, hcmd, hmap]
                · intro c hc
                  cases tr' with
                  | nil => simp at hc
                  | cons t ts =>
                    simp only [List.dropLast_cons₂, List.mem_cons] at hc
                    rcases hc with rfl | hc
                    · exact ⟨_, _, hout⟩
                    · exact hdl c hc
                · intro hres
                  obtain ⟨hk', hall⟩ := hok hres
                  refine ⟨by simp [hk'], ?_⟩
                  intro c hc
                  rcases List.mem_cons.mp hc with rfl | hc
                  · exact ⟨_, _, hout⟩
                  · exact hall c hc

/-! ## Gating -/

/-- **C07 (gate).** Whatever the outcome, the trace of a verification splits
into the commands executed inside sublayout verifications followed by the
layout's own inspection commands, and
* any command at all is executed only after the layout's signatures, expiry and
  parameter substitution (the gate), link loading and the link signature
  thresholds of **all** steps have succeeded;
* an **own** inspection command is executed only after, in addition, all
  sublayouts, the threshold constraints and all step rules have succeeded;
* own commands are the trace of the inspection loop (`C07_prefix`). -/
theorem C07_gate (fuel : Nat) (md : Metadata) (keys : List (Str × JVal)) (dir : Str)
    (params : Option (List (Str × Option Str))) (stepName : Str) :
    ∃ tr1 tr2, (verify gm w (fuel + 1) md keys dir params stepName).trace = tr1 ++ tr2 ∧
      (tr1 ++ tr2 ≠ [] →
        ∃ layout loaded stepsMd, gate w md keys params = .ok layout ∧
          loadLinksForLayout w layout dir = .ok loaded ∧
          verifyLinkSignatureThresholds w layout loaded = .ok stepsMd ∧
          (verifySublayouts (recurOf gm w fuel) layout dir stepsMd []).2 = tr1 ∧
          (tr2 ≠ [] →
            ∃ chain reduced, verifySublayouts (recurOf gm w fuel) layout dir stepsMd [] = (.ok chain, tr1) ∧
              checkChain gm layout chain = .ok reduced ∧
              tr2 = (runAllInspections w layout.inspect []).2)) := by
  unfold verify
  split
  · exact ⟨[], [], rfl, fun h => absurd rfl h⟩
  · rename_i layout hgate
    split
    · exact ⟨[], [], rfl, fun h => absurd rfl h⟩
    · rename_i loaded hload
      split
      · exact ⟨[], [], rfl, fun h => absurd rfl h⟩
      · rename_i stepsMd hsig
        split
        · rename_i e tr1 hsub
          refine ⟨tr1, [], by simp, fun _ => ⟨layout, loaded, stepsMd, hgate, hload, hsig, by rw [hsub], fun h => absurd rfl h⟩⟩
        · rename_i chain tr1 hsub
          split
          · refine ⟨tr1, [], by simp, fun _ => ⟨layout, loaded, stepsMd, hgate, hload, hsig, by rw [hsub], fun h => absurd rfl h⟩⟩
          · rename_i reduced hchain
            split
            · rename_i e tr2 hinsp
              exact ⟨tr1, tr2, rfl, fun _ => ⟨layout, loaded, stepsMd, hgate, hload, hsig, by rw [hsub],
                fun _ => ⟨chain, reduced, hsub, hchain, by rw [hinsp]⟩⟩⟩
            · rename_i inspLinks tr2 hinsp
              split
              · exact ⟨tr1, tr2, rfl, fun _ => ⟨layout, loaded, stepsMd, hgate, hload, hsig, by rw [hsub],
                  fun _ => ⟨chain, reduced, hsub, hchain, by rw [hinsp]⟩⟩⟩
              · exact ⟨tr1, tr2, rfl, fun _ => ⟨layout, loaded, stepsMd, hgate, hload, hsig, by rw [hsub],
                  fun _ => ⟨chain, reduced, hsub, hchain, by rw [hinsp]⟩⟩⟩

/-- **C07 (nothing runs for an unauthenticated / expired / under-signed layout).** -/
theorem C07_unauthenticated_never_runs (fuel : Nat) (md : Metadata) (keys : List (Str × JVal)) (dir : Str)
    (params : Option (List (Str × Option Str))) (stepName : Str)
    (h : (∃ e, gate w md keys params = .error e) ∨
         (∃ layout e, gate w md keys params = .ok layout ∧ loadLinksForLayout w layout dir = .error e) ∨
         (∃ layout loaded e, gate w md keys params = .ok layout ∧ loadLinksForLayout w layout dir = .ok loaded ∧
            verifyLinkSignatureThresholds w layout loaded = .error e)) :
    (verify gm w fuel md keys dir params stepName).trace = [] := by
  cases fuel with
  | zero => rfl
  | succ n =>
    obtain ⟨tr1, tr2, htr, hgated⟩ := C07_gate gm w n md keys dir params stepName
    rw [htr]
    cases hne : tr1 ++ tr2 with
    | nil => rfl
    | cons c cs =>
      exfalso
      obtain ⟨layout, loaded, stepsMd, hg, hl, hs, _⟩ := hgated (by rw [hne]; simp)
      rcases h with ⟨e, he⟩ | ⟨layout', e, hg', he⟩ | ⟨layout', loaded', e, hg', hl', he⟩
      · rw [hg] at he; cases he
      · rw [hg] at hg'; cases hg'; rw [hl] at he; cases he
      · rw [hg] at hg'; cases hg'; rw [hl] at hl'; cases hl'; rw [hs] at he; cases he

/-- **C07 (a failing inspection fails verification).** If the inspection loop
of the layout does not succeed, neither does the verification. -/
theorem C07_failing_inspection_rejects {fuel : Nat} {md : Metadata} {keys : List (Str × JVal)} {dir : Str}
    {params : Option (List (Str × Option Str))} {stepName : Str} {s : Link}
    (h : (verify gm w (fuel + 1) md keys dir params stepName).result = .ok s) :
    ∃ st : Stages gm w fuel md keys dir params stepName s,
      st.layout.inspect.map cmdOf = st.tr2.map some ∧
      ∀ c ∈ st.tr2, ∃ m p, w.insp c = some (.exit 0 m p) := by
  obtain ⟨st⟩ := verify_ok_inv gm w h
  obtain ⟨k, _, hmap, _, hok⟩ := C07_prefix w _ _ _ _ st.hinsp
  obtain ⟨hk, hall⟩ := hok ⟨_, rfl⟩
  refine ⟨st, ?_, hall⟩
  rw [← hmap, hk, List.take_length]

/-! ## Sublayouts (C06) -/

/-- The directory in which a sublayout's own links are looked for. -/
def subDir (dir stepName keyid : Str) : Str := pathJoin dir (sublayoutDirName stepName keyid)

/-- How one retained entry of a step turns into the link the parent uses. -/
def EntryLink (fuel : Nat) (l : Layout) (dir stepName : Str) (kid : Str) (md : Metadata) (lk : Link) : Prop :=
  md.getPayload = .ok (.link lk) ∨
  (∃ sub, md.getPayload = .ok (.layout sub) ∧
    (verify gm w fuel md [(kid, (Dict.get? l.keys kid).getD .null)] (subDir dir stepName kid) none stepName).result
      = .ok lk)

theorem verifySublayoutsStep_inv (fuel : Nat) (l : Layout) (dir stepName : Str) :
    ∀ (input : List (Str × Metadata)) (acc res : Dict Str Link) (tr : List (List Str)),
      verifySublayoutsStep (recurOf gm w fuel) l dir stepName input acc = (.ok res, tr) →
      (∀ p ∈ input, ∃ lk, EntryLink gm w fuel l dir stepName p.1 p.2 lk) ∧
      (∀ q ∈ res, q ∈ acc ∨ ∃ md, (q.1, md) ∈ input ∧ EntryLink gm w fuel l dir stepName q.1 md q.2) := by
  intro input
  induction input with
  | nil =>
    intro acc res tr h
    simp only [verifySublayoutsStep] at h
    cases h
    refine ⟨?_, ?_⟩
    · intro p hp; cases hp
    · intro q hq; exact .inl hq
  | cons x rest ih =>
    intro acc res tr h
    obtain ⟨kid, md⟩ := x
    simp only [verifySublayoutsStep] at h
    split at h
    · cases h
    · rename_i lk hp
      obtain ⟨h1, h2⟩ := ih _ _ _ h
      refine ⟨?_, ?_⟩
      · intro p hp'
        rcases List.mem_cons.mp hp' with rfl | hp'
        · exact ⟨lk, .inl hp⟩
        · exact h1 p hp'
      · intro q hq
        rcases h2 q hq with h | ⟨md', hin, he⟩
        · rcases Dict.mem_insert _ _ _ _ h with h | h
          · subst h; exact .inr ⟨md, List.mem_cons_self, .inl hp⟩
          · exact .inl h
        · exact .inr ⟨md', List.mem_cons_of_mem _ hin, he⟩
    · rename_i sub hp
      split at h
      · cases h
      · rename_i summary hres
        cases hrec : verifySublayoutsStep (recurOf gm w fuel) l dir stepName rest (Dict.insert acc kid summary) with
        | mk r' tr' =>
          rw [hrec] at h
          simp only at h
          cases h
          obtain ⟨h1, h2⟩ := ih _ _ _ hrec
          have hentry : EntryLink gm w fuel l dir stepName kid md summary := .inr ⟨sub, hp, hres⟩
          refine ⟨?_, ?_⟩
          · intro p hp'
            rcases List.mem_cons.mp hp' with rfl | hp'
            · exact ⟨summary, hentry⟩
            · exact h1 p hp'
          · intro q hq
            rcases h2 q hq with h | ⟨md', hin, he⟩
            · rcases Dict.mem_insert _ _ _ _ h with h | h
              · subst h; exact .inr ⟨md, List.mem_cons_self, hentry⟩
              · exact .inl h
            · exact .inr ⟨md', List.mem_cons_of_mem _ hin, he⟩

theorem verifySublayouts_inv (fuel : Nat) (l : Layout) (dir : Str) :
    ∀ (steps : List (Str × Dict Str Metadata)) (acc res : Dict Str (Dict Str Link)) (tr : List (List Str)),
      verifySublayouts (recurOf gm w fuel) l dir steps acc = (.ok res, tr) →
      (∀ sm ∈ steps, ∀ p ∈ sm.2, ∃ lk, EntryLink gm w fuel l dir sm.1 p.1 p.2 lk) ∧
      (∀ nl ∈ res, nl ∈ acc ∨ ∃ mds, (nl.1, mds) ∈ steps ∧
        ∀ q ∈ nl.2, ∃ md, (q.1, md) ∈ mds ∧ EntryLink gm w fuel l dir nl.1 q.1 md q.2) := by
  intro steps
  induction steps with
  | nil =>
    intro acc res tr h
    simp only [verifySublayouts] at h
    cases h
    refine ⟨?_, ?_⟩
    · intro p hp; cases hp
    · intro q hq; exact .inl hq
  | cons x rest ih =>
    intro acc res tr h
    obtain ⟨stepName, mds⟩ := x
    simp only [verifySublayouts] at h
    split at h
    · cases h
    · rename_i links tr0 hstep
      cases hrec : verifySublayouts (recurOf gm w fuel) l dir rest (Dict.insert acc stepName links) with
      | mk r' tr' =>
        rw [hrec] at h
        simp only at h
        cases h
        obtain ⟨s1, s2⟩ := verifySublayoutsStep_inv gm w fuel l dir stepName _ _ _ _ hstep
        obtain ⟨h1, h2⟩ := ih _ _ _ hrec
        refine ⟨?_, ?_⟩
        · intro sm hsm
          rcases List.mem_cons.mp hsm with rfl | hsm
          · exact s1
          · exact h1 sm hsm
        · intro nl hnl
          rcases h2 nl hnl with h | ⟨mds', hin, he⟩
          · rcases Dict.mem_insert _ _ _ _ h with h | h
            · subst h
              refine .inr ⟨mds, List.mem_cons_self, ?_⟩
              intro q hq
              rcases s2 q hq with h | h
              · cases h
              · exact h
            · exact .inl h
          · exact .inr ⟨mds', List.mem_cons_of_mem _ hin, he⟩

/-- **C06 (sublayouts are verified completely, with that functionary's key, in
that sub-directory).** If the parent is accepted then for every retained entry
`(kid, md)` of every step whose payload is a layout, the *same* `verify`
function — with exactly the key the parent layout lists under `kid`, the link
directory `<dir>/<step>.<kid[:8]>`, no substitution parameters and the step's
name — accepted `md`; and every link the parent goes on to use for a step stems
from a retained entry in this way (a link as it is, a sublayout as its summary
link). Since the sub-verification is `verify` itself, C01–C08 apply to it
verbatim, at every depth. -/
theorem C06_sublayout_complete {fuel : Nat} {md : Metadata} {keys : List (Str × JVal)} {dir : Str}
    {params : Option (List (Str × Option Str))} {stepName : Str} {s : Link}
    (h : (verify gm w (fuel + 1) md keys dir params stepName).result = .ok s) :
    ∃ st : Stages gm w fuel md keys dir params stepName s,
      (∀ sm ∈ st.stepsMd, ∀ p ∈ sm.2, ∃ lk, EntryLink gm w fuel st.layout dir sm.1 p.1 p.2 lk) ∧
      (∀ nl ∈ st.chain, ∃ mds, (nl.1, mds) ∈ st.stepsMd ∧
        ∀ q ∈ nl.2, ∃ md', (q.1, md') ∈ mds ∧ EntryLink gm w fuel st.layout dir nl.1 q.1 md' q.2) := by
  obtain ⟨st⟩ := verify_ok_inv gm w h
  obtain ⟨h1, h2⟩ := verifySublayouts_inv gm w fuel st.layout dir _ _ _ _ st.hsub
  refine ⟨st, h1, ?_⟩
  intro nl hnl
  rcases h2 nl hnl with h | h
  · cases h
  · exact h

/-- **C06 (what the parent takes from a sublayout).** The summary link of an
accepted layout with at least one step carries exactly the first step's
materials and the last step's products (of the links used for those steps). -/
theorem C06_summary_link {l : Layout} {reduced : Dict Str Link} {name : Str} {s : Link}
    (h : getSummaryLink l reduced name = .ok s) (first last : Step)
    (hf : l.steps.head? = some first) (hl : l.steps.getLast? = some last) :
    ∃ fn ln f la, nameOf first.name = .ok fn ∧ nameOf last.name = .ok ln ∧
      Dict.get? reduced fn = some f ∧ Dict.get? reduced ln = some la ∧
      s.materials = f.materials ∧ s.products = la.products ∧ s.name = some name := by
  unfold getSummaryLink at h
  rw [hf, hl] at h
  simp only at h
  cases hfn : nameOf first.name with
  | error e => simp [hfn, bind, Except.bind] at h
  | ok fn =>
    cases hln : nameOf last.name with
    | error e => simp [hfn, hln, bind, Except.bind] at h
    | ok ln =>
      simp only [hfn, hln, bind, Except.bind] at h
      split at h
      · rename_i f la hgf hgl
        simp only [pure, Except.pure] at h
        cases h
        exact ⟨fn, ln, f, la, rfl, rfl, hgf, hgl, rfl, rfl, rfl⟩
      · cases h

/-- **C06 (failure anywhere fails the whole).** Contrapositive of completeness:
if some retained sublayout does not pass its own complete verification, the
parent is not accepted. -/
theorem C06_failure_propagates {fuel : Nat} {md : Metadata} {keys : List (Str × JVal)} {dir : Str}
    {params : Option (List (Str × Option Str))} {stepName : Str} {s : Link}
    (h : (verify gm w (fuel + 1) md keys dir params stepName).result = .ok s) :
    ∃ st : Stages gm w fuel md keys dir params stepName s,
      ∀ sm ∈ st.stepsMd, ∀ p ∈ sm.2, ∀ sub, p.2.getPayload = .ok (.layout sub) →
        ∃ lk, (verify gm w fuel p.2 [(p.1, (Dict.get? st.layout.keys p.1).getD .null)]
                (subDir dir sm.1 p.1) none sm.1).result = .ok lk := by
  obtain ⟨st, h1, _⟩ := C06_sublayout_complete gm w h
  refine ⟨st, ?_⟩
  intro sm hsm p hp sub hsub
  obtain ⟨lk, he⟩ := h1 sm hsm p hp
  rcases he with he | ⟨sub', _, hres⟩
  · rw [hsub] at he; cases he
  · exact ⟨lk, hres⟩

end InToto
