import InToto.Cli
/-!
# C18 — command-line exit status reports success only when the operation succeeded
-/
namespace InToto

/-- **C18 (zero iff success).** For every tool, status 0 is reported exactly for
the success the property names; no failure of any kind maps to 0. -/
theorem C18_zero_iff (t : Tool) (o : CliOutcome) : exitStatus t o = 0 ↔ o = .success := by
  cases t <;> cases o <;> simp [exitStatus]

/-- Usage errors exit 2. -/
theorem C18_usage (t : Tool) : exitStatus t .usageError = 2 := by cases t <;> rfl

/-- Every verification failure — bad or missing signature, expiry, missing
links, thresholds, rules, inspections, unloadable layout — exits 1. -/
theorem C18_verify_failure (o : CliOutcome) (h : o ≠ .success) (hu : o ≠ .usageError) :
    exitStatus .verify o = 1 := by
  cases o <;> simp_all [exitStatus]

/-- `in-toto-sign --verify` exits 1 when a signature check fails. -/
theorem C18_sign_verify_failure : exitStatus .signVerify .sigCheckFailed = 1 := rfl

/-- `in-toto-run`, `in-toto-record`, `in-toto-mock`, `in-toto-match-products`: any failure exits 1. -/
theorem C18_other_failures (t : Tool) (ht : t = .run ∨ t = .recordStart ∨ t = .recordStop ∨ t = .mock ∨ t = .matchProducts)
    (o : CliOutcome) (h : o ≠ .success) (hu : o ≠ .usageError) : exitStatus t o = 1 := by
  rcases ht with rfl | rfl | rfl | rfl | rfl <;> cases o <;> simp_all [exitStatus]

/-- The status is always 0, 1 or 2. -/
theorem C18_range (t : Tool) (o : CliOutcome) : exitStatus t o ≤ 2 := by
  cases t <;> cases o <;> simp [exitStatus]


/-! ## With the front ends' own argument checks -/

theorem exactlyOne_supplied (a : KeyArgs) (h : a.exactlyOne = true) : a.signerSupplied = true := by
  unfold KeyArgs.exactlyOne at h
  unfold KeyArgs.signerSupplied
  cases h1 : truthyStr a.key <;> cases h2 : a.gpg.truthy <;> cases h3 : truthyStr a.signingKey <;>
    simp [h1, h2, h3] at h ⊢

/-- **C18 for in-toto-run.** Status 0 exactly when the argument checks passed and
the library call succeeded; and then something to sign with was handed to the
library (so the link file was written, `C11_link_spec`). In particular an empty
key argument is never status 0. -/
theorem C18_run_zero_iff (a : RunArgs) (work : CliOutcome) :
    runStatus a work = 0 ↔ a.usageOk = true ∧ work = .success := by
  unfold runStatus frontOutcome
  cases h : a.usageOk <;> simp [C18_zero_iff]

theorem C18_run_zero_signer (a : RunArgs) (work : CliOutcome) (h : runStatus a work = 0) :
    a.keys.signerSupplied = true := by
  have h' := ((C18_run_zero_iff a work).mp h).1
  unfold RunArgs.usageOk at h'
  simp only [Bool.and_eq_true] at h'
  exact exactlyOne_supplied _ h'.1.2

theorem C18_run_usage (a : RunArgs) (work : CliOutcome) (h : a.usageOk = false) : runStatus a work = 2 := by
  simp [runStatus, frontOutcome, h, exitStatus]

theorem C18_run_empty_key (a : RunArgs) (work : CliOutcome)
    (h : truthyStr a.keys.key = false ∧ a.keys.gpg.truthy = false ∧ truthyStr a.keys.signingKey = false) :
    runStatus a work = 2 := by
  apply C18_run_usage
  simp [RunArgs.usageOk, KeyArgs.exactlyOne, h.1, h.2.1, h.2.2]

theorem C18_record_zero_iff (t : Tool) (a : RecordArgs) (work : CliOutcome) :
    recordStatus t a work = 0 ↔ a.usageOk = true ∧ work = .success := by
  unfold recordStatus frontOutcome
  cases h : a.usageOk <;> simp [C18_zero_iff]

theorem C18_verify_zero_iff (a : VerifyArgs) (work : CliOutcome) :
    verifyStatus a work = 0 ↔ a.usageOk = true ∧ work = .success := by
  unfold verifyStatus frontOutcome
  cases h : a.usageOk <;> simp [C18_zero_iff]

/-- in-toto-verify without any usable key argument is a usage error whatever the layout. -/
theorem C18_verify_no_keys (a : VerifyArgs) (work : CliOutcome)
    (h : truthyList a.layoutKeys = false ∧ truthyList a.gpg = false ∧ truthyList a.verificationKeys = false) :
    verifyStatus a work = 2 := by
  simp [verifyStatus, frontOutcome, VerifyArgs.usageOk, h.1, h.2.1, h.2.2, exitStatus]

/-- **C18 for in-toto-sign.** Status 0 exactly when every check passed, the file
loaded, and the signing / verification itself succeeded. -/
theorem C18_sign_zero_iff (a : SignArgs) (f : SignFile) (work : CliOutcome) :
    signStatus a f work = 0 ↔
      a.usageOkBeforeLoad = true ∧ f ≠ .unloadable ∧ (f = .link → a.usageOkAfterLoad true = true) ∧ work = .success := by
  unfold signStatus
  rw [C18_zero_iff]
  unfold signOutcome
  cases h1 : a.usageOkBeforeLoad <;> cases f <;> simp
  · cases h2 : a.usageOkAfterLoad true <;> simp

/-- in-toto-sign never reports a failed operation as 0 and reports a failed
signature check as 1. -/
theorem C18_sign_verify_sigfail (a : SignArgs) (f : SignFile) (hv : a.verify = true)
    (h : signOutcome a f .sigCheckFailed = .sigCheckFailed) : signStatus a f .sigCheckFailed = 1 := by
  simp [signStatus, hv, h, exitStatus]

def exEmptyKey : RunArgs :=
  { argparseOk := true
    keys := { key := none, gpg := .absent, signingKey := some [] }
    noCommand := false
    linkCmd := [lit "true"] }
def exGpgFlag : RunArgs :=
  { argparseOk := true
    keys := { key := none, gpg := .flag, signingKey := none }
    noCommand := true
    linkCmd := [] }
example : runStatus exEmptyKey .success = 2 := by decide
example : runStatus exGpgFlag .success = 0 := by decide


/-! ## in-toto-sign: signature list and output file -/

/-- After in-toto-sign a key id is in the signature list iff it was given, or it
was there before and `--append` was used (C09: sign = replace, append). -/
theorem sign_keyids_mem (append : Bool) (present given : List Str) (k : Str) :
    k ∈ signKeyids append present given ↔ (append = true ∧ k ∈ present) ∨ k ∈ given := by
  unfold signKeyids
  cases append <;> simp

/-- Without `--append` nothing of the old list survives; with it the old entries keep their order and
position in front of the new ones. -/
theorem sign_keyids_replace (present given : List Str) : signKeyids false present given = given := by
  simp [signKeyids]

theorem sign_keyids_append (present given : List Str) : signKeyids true present given = present ++ given := by
  simp [signKeyids]

/-- A layout is signed in place unless an output path is given; a link goes to the file
named after its step and the last signing key. -/
theorem sign_out_layout (file : Str) (k : Option Str) : signOutPath none file .layout k = some file := rfl

theorem sign_out_link (file name k : Str) :
    signOutPath none file (.link name) (some k) = some (name ++ '.' :: trunc8 k ++ lit ".link") := rfl

theorem sign_out_given (o file : Str) (kind : PayloadKind) (k : Option Str) (h : o ≠ []) :
    signOutPath (some o) file kind k = some o := by
  cases o with
  | nil => exact absurd rfl h
  | cons c cs => simp [signOutPath, truthyStr]


/-! ## Several keys in one invocation -/

/-- `in-toto-sign --verify` succeeds exactly when every given key's check succeeds — wherever a failing key
stands in the list. -/
theorem sign_verify_success_iff : ∀ (results : List CliOutcome),
    signVerifyOutcome results = .success ↔ ∀ o ∈ results, o = .success
  | [] => by simp [signVerifyOutcome]
  | o :: rest => by
    cases o <;> simp [signVerifyOutcome, sign_verify_success_iff rest]

theorem dedup_mem_iff {α : Type} [DecidableEq α] (a : α) : ∀ (l : List α), a ∈ dedup l ↔ a ∈ l
  | [] => by simp [dedup]
  | b :: r => by
    simp only [dedup]
    split
    · rename_i hc
      rw [dedup_mem_iff a r]
      constructor
      · intro h; exact List.mem_cons_of_mem _ h
      · intro h
        rcases List.mem_cons.mp h with rfl | h
        · simpa using hc
        · exact h
    · simp only [List.mem_cons, dedup_mem_iff a r]

/-- in-toto-verify hands every key given through any of the three options to the verification: none is dropped
(so by `C01_accept_requires` the layout needs a valid signature for each). -/
theorem verify_keys_complete (lk g vk : List Str) (k : Str) :
    k ∈ verifyKeyIds lk g vk ↔ k ∈ lk ∨ k ∈ g ∨ k ∈ vk := by
  unfold verifyKeyIds
  rw [dedup_mem_iff]
  simp [List.mem_append, or_assoc]

end InToto
