import InToto.Cli
/-!
# C18 — command-line exit status reports success only when the operation succeeded
-/
namespace InToto

/-- **C18 (zero iff success).** For every tool, status 0 is reported exactly for
the success the property names; no failure of any kind maps to 0. -/
theorem C18_zero_iff (t : Tool) (o : CliOutcome) : exitStatus t o = 0 ↔ o = .success := by
  cases t <;> cases o <;> simp [exitStatus]

/-- Usage errors exit 2. -/
theorem C18_usage (t : Tool) : exitStatus t .usageError = 2 := by cases t <;> rfl

/-- Every verification failure — bad or missing signature, expiry, missing
links, thresholds, rules, inspections, unloadable layout — exits 1. -/
theorem C18_verify_failure (o : CliOutcome) (h : o ≠ .success) (hu : o ≠ .usageError) :
    exitStatus .verify o = 1 := by
  cases o <;> simp_all [exitStatus]

/-- `in-toto-sign --verify` exits 1 when a signature check fails. -/
theorem C18_sign_verify_failure : exitStatus .signVerify .sigCheckFailed = 1 := rfl

/-- `in-toto-run`, `in-toto-record`, `in-toto-mock`, `in-toto-match-products`: any failure exits 1. -/
theorem C18_other_failures (t : Tool) (ht : t = .run ∨ t = .recordStart ∨ t = .recordStop ∨ t = .mock ∨ t = .matchProducts)
    (o : CliOutcome) (h : o ≠ .success) (hu : o ≠ .usageError) : exitStatus t o = 1 := by
  rcases ht with rfl | rfl | rfl | rfl | rfl <;> cases o <;> simp_all [exitStatus]

/-- The status is always 0, 1 or 2. -/
theorem C18_range (t : Tool) (o : CliOutcome) : exitStatus t o ≤ 2 := by
  cases t <;> cases o <;> simp [exitStatus]

end InToto
