import Proofs.C10
import Proofs.C03
import Proofs.Lemmas.Sort
/-!
# C19 — match-products reports exactly the differences
# C20 — directory and OSTree digests follow their documented construction
-/
namespace InToto

/-! ## C19 -/

theorem Dict.get?_isSome_iff {α : Type} (d : Dict Str α) (k : Str) :
    (∃ v, d.get? k = some v) ↔ k ∈ d.keys := by
  induction d with
  | nil => simp [Dict.get?, Dict.keys]
  | cons x r ih =>
    simp only [Dict.get?, Dict.keys, List.find?_cons, List.map_cons, List.mem_cons] at ih ⊢
    by_cases h : x.1 = k
    · simp [h]
    · have : ¬ k = x.1 := fun e => h e.symm
      simp only [h, decide_false, this, false_or]
      exact ih

/-- **C19 (the three reports are the three set differences).** -/
theorem C19_reports (products localArts : Artifacts) (p : Str) :
    (p ∈ (matchProducts products localArts).1 ↔ p ∈ products.keys ∧ p ∉ localArts.keys) ∧
    (p ∈ (matchProducts products localArts).2.1 ↔ p ∈ localArts.keys ∧ p ∉ products.keys) ∧
    (p ∈ (matchProducts products localArts).2.2 ↔
      p ∈ products.keys ∧ ∃ a b, products.get? p = some a ∧ localArts.get? p = some b ∧ hashEq a b = false) := by
  simp only [matchProducts, List.mem_filter, Bool.not_eq_true', ← Bool.not_eq_true, Dict.contains_iff]
  refine ⟨trivial, trivial, ?_⟩
  constructor
  · rintro ⟨hk, h⟩
    refine ⟨hk, ?_⟩
    cases ha : products.get? p <;> cases hb : localArts.get? p <;> simp [ha, hb] at h
    exact ⟨_, _, rfl, rfl, by simpa using h⟩
  · rintro ⟨hk, a, b, ha, hb, hne⟩
    exact ⟨hk, by simp [ha, hb, hne]⟩

/-- **C19 (pairwise disjoint).** -/
theorem C19_disjoint (products localArts : Artifacts) (p : Str) :
    ¬ (p ∈ (matchProducts products localArts).1 ∧ p ∈ (matchProducts products localArts).2.1) ∧
    ¬ (p ∈ (matchProducts products localArts).1 ∧ p ∈ (matchProducts products localArts).2.2) ∧
    ¬ (p ∈ (matchProducts products localArts).2.1 ∧ p ∈ (matchProducts products localArts).2.2) := by
  obtain ⟨h1, h2, h3⟩ := C19_reports products localArts p
  refine ⟨?_, ?_, ?_⟩
  · rintro ⟨a, b⟩; exact (h1.mp a).2 (h2.mp b).1
  · rintro ⟨a, b⟩
    obtain ⟨_, _, bb, _, hb, _⟩ := h3.mp b
    exact (h1.mp a).2 ((Dict.get?_isSome_iff _ _).mp ⟨bb, hb⟩)
  · rintro ⟨a, b⟩; exact (h2.mp a).2 (h3.mp b).1

/-- **C19 (all empty iff identical).** The three reports are all empty iff the
local recording and the link's products have the same paths and, path by path,
equal hash records. -/
theorem C19_empty_iff (products localArts : Artifacts) :
    ((matchProducts products localArts).1 = [] ∧ (matchProducts products localArts).2.1 = [] ∧
      (matchProducts products localArts).2.2 = []) ↔
    ((∀ p, p ∈ products.keys ↔ p ∈ localArts.keys) ∧
      ∀ p a b, products.get? p = some a → localArts.get? p = some b → hashEq a b = true) := by
  constructor
  · rintro ⟨e1, e2, e3⟩
    refine ⟨fun p => ⟨fun hp => ?_, fun hp => ?_⟩, fun p a b ha hb => ?_⟩
    · apply Classical.byContradiction
      intro hn
      have : p ∈ (matchProducts products localArts).1 := (C19_reports products localArts p).1.mpr ⟨hp, hn⟩
      rw [e1] at this; cases this
    · apply Classical.byContradiction
      intro hn
      have : p ∈ (matchProducts products localArts).2.1 := (C19_reports products localArts p).2.1.mpr ⟨hp, hn⟩
      rw [e2] at this; cases this
    · cases he : hashEq a b with
      | true => rfl
      | false =>
        have : p ∈ (matchProducts products localArts).2.2 :=
          (C19_reports products localArts p).2.2.mpr ⟨(Dict.get?_isSome_iff _ _).mp ⟨a, ha⟩, a, b, ha, hb, he⟩
        rw [e3] at this; cases this
  · rintro ⟨hk, hv⟩
    refine ⟨?_, ?_, ?_⟩
    · apply List.eq_nil_iff_forall_not_mem.mpr
      intro p hp
      obtain ⟨h1, h2⟩ := (C19_reports products localArts p).1.mp hp
      exact h2 ((hk p).mp h1)
    · apply List.eq_nil_iff_forall_not_mem.mpr
      intro p hp
      obtain ⟨h1, h2⟩ := (C19_reports products localArts p).2.1.mp hp
      exact h2 ((hk p).mpr h1)
    · apply List.eq_nil_iff_forall_not_mem.mpr
      intro p hp
      obtain ⟨_, a, b, ha, hb, hne⟩ := (C19_reports products localArts p).2.2.mp hp
      rw [hv p a b ha hb] at hne
      cases hne

/-! ## C20 -/

/-- **C20 (order independence).** The text that is hashed for a `dir:` artifact
does not depend on the order in which the files were listed, created or
recorded (distinct relative paths). -/
theorem C20_order_independent (h h' : Dict Str Str) (hp : h.Perm h') (hn : (h.map (·.1)).Nodup) :
    dirDigestText h = dirDigestText h' := by
  unfold dirDigestText
  rw [sortMembers_perm hp hn]

/-- The text is the concatenation, in code-point order of the paths, of the
lines `<digest>␣␣<path>\n` over exactly the recorded files. -/
theorem C20_dir_spec (h : Dict Str Str) :
    dirDigestText h = ((sortMembers h).map dirLine).flatten ∧
    (sortMembers h).Perm h :=
  ⟨rfl, List.mergeSort_perm _ _⟩

/-- A newline-free prefix followed by a newline is uniquely decodable. -/
theorem newline_split : ∀ (a b s t : Str), '\n' ∉ a → '\n' ∉ b →
    a ++ '\n' :: s = b ++ '\n' :: t → a = b ∧ s = t := by
  intro a
  induction a with
  | nil =>
    intro b s t _ hb h
    cases b with
    | nil => simpa using h
    | cons c cs =>
      simp only [List.nil_append, List.cons_append, List.cons.injEq] at h
      exact absurd (h.1 ▸ List.mem_cons_self) hb
  | cons c cs ih =>
    intro b s t ha hb h
    cases b with
    | nil =>
      simp only [List.nil_append, List.cons_append, List.cons.injEq] at h
      exact absurd (h.1 ▸ List.mem_cons_self) ha
    | cons d ds =>
      simp only [List.cons_append, List.cons.injEq] at h
      obtain ⟨rfl, h⟩ := h
      obtain ⟨rfl, rfl⟩ := ih ds s t (fun hm => ha (List.mem_cons_of_mem _ hm))
        (fun hm => hb (List.mem_cons_of_mem _ hm)) h
      exact ⟨rfl, rfl⟩

/-- Lines of the digest text: fixed-width digests, newline-free paths. -/
def WellFormedEntries (w : Nat) (l : List (Str × Str)) : Prop :=
  ∀ p ∈ l, p.2.length = w ∧ '\n' ∉ p.1

theorem lines_injective (w : Nat) : ∀ (l l' : List (Str × Str)), WellFormedEntries w l → WellFormedEntries w l' →
    (l.map dirLine).flatten =
      (l'.map dirLine).flatten → l = l' := by
  intro l
  induction l with
  | nil =>
    intro l' _ _ h
    cases l' with
    | nil => rfl
    | cons x xs =>
      have := congrArg List.length h
      simp [dirLine] at this
  | cons x xs ih =>
    intro l' hw hw' h
    cases l' with
    | nil =>
      have := congrArg List.length h
      simp [dirLine] at this
    | cons y ys =>
      obtain ⟨px, dx⟩ := x
      obtain ⟨py, dy⟩ := y
      have hx := hw (px, dx) List.mem_cons_self
      have hy := hw' (py, dy) List.mem_cons_self
      simp only [List.map_cons, List.flatten_cons, dirLine, List.append_assoc, List.cons_append, List.nil_append] at h
      -- equal-length digests
      obtain ⟨hd, h2⟩ := List.append_inj h (by rw [hx.1, hy.1])
      subst hd
      simp only [List.cons.injEq, true_and] at h2
      obtain ⟨rfl, hrest⟩ := newline_split px py _ _ hx.2 hy.2 h2
      have := ih ys (fun p hp => hw p (List.mem_cons_of_mem _ hp)) (fun p hp => hw' p (List.mem_cons_of_mem _ hp)) hrest
      rw [this]

/-- **C20 (the digest text determines the set of entries).** For fixed-width
digests and newline-free relative paths, two trees have the same digest text
iff they have the same set of (path, file digest) entries. Hence (with SHA-256
collision-free) the `dir:` digest changes whenever a contained file's content or
relative name changes or a file is added or removed. -/
theorem C20_text_injective (w : Nat) (h h' : Dict Str Str) (hw : WellFormedEntries w h) (hw' : WellFormedEntries w h')
    (ht : dirDigestText h = dirDigestText h') : h.Perm h' := by
  unfold dirDigestText at ht
  have hs : WellFormedEntries w (sortMembers h) := fun p hp => hw p ((List.mergeSort_perm _ _).subset hp)
  have hs' : WellFormedEntries w (sortMembers h') := fun p hp => hw' p ((List.mergeSort_perm _ _).subset hp)
  have heq := lines_injective w _ _ hs hs' ht
  have p1 : (sortMembers h).Perm h := List.mergeSort_perm _ _
  have p2 : (sortMembers h').Perm h' := List.mergeSort_perm _ _
  rw [heq] at p1
  exact p1.symm.trans p2

/-- **C20 (OSTree).** The digest recorded for `ostree:<ref>` is the digest of
the file `objects/<c[:2]>/<c[2:]>.commit`, `c` being the content of
`refs/heads/<ref>` without surrounding newlines. -/
theorem C20_ostree_spec (root : Node) (path : Str) (refNode obj : Node) (content d : Str)
    (h1 : resolve root (normpath (lit "refs/heads/" ++ path)) = some refNode)
    (h2 : refNode.text? = some content)
    (h3 : resolve root (normpath (ostreeObjectPath content)) = some obj)
    (h4 : obj.digest? false = some d) :
    hashArtifactsOstree root [ostreeScheme ++ path] [] = .ok [(ostreeScheme ++ path, .digest d)] := by
  have hdrop : (ostreeScheme ++ path).drop ostreeScheme.length = path := List.drop_left
  unfold hashArtifactsOstree
  simp only [hdrop, h1, h2, h3, h4]
  rfl

end InToto
