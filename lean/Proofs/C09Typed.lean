import Proofs.Canon
import Proofs.C09Content
import InToto.Meta
/-!
# C09: the signed bytes of a link determine what it reports (typed level)

`canon_injective` is a statement about JSON values. Here it is carried to links: two links with the same signable
bytes have the same name and report the same artifacts — every path of one is a path of the other, with the same hash
record up to the order of its entries — whatever order the members were supplied in. With `C09_verifies_iff_*` this is
"a valid signature binds the artifacts a link reports", not only "binds some bytes".
-/
namespace InToto

theorem normMembers_eq_map (l : List (Str × JVal)) : normMembers l = l.map (fun p => (p.1, norm p.2)) := by
  induction l with
  | nil => rfl
  | cons p r ih => obtain ⟨k, v⟩ := p; simp [normMembers, ih]

/-- Objects with the same member-sorted form have the same members up to order. -/
theorem norm_obj_perm (a b : List (Str × JVal)) (h : norm (.obj a) = norm (.obj b)) :
    (normMembers a).Perm (normMembers b) := by
  simp only [norm, JVal.obj.injEq] at h
  have p1 : (sortMembers (normMembers a)).Perm (normMembers a) := List.mergeSort_perm _ _
  have p2 : (sortMembers (normMembers b)).Perm (normMembers b) := List.mergeSort_perm _ _
  exact p1.symm.trans (h ▸ p2)

/-- Hash records with the same member-sorted form are the same up to the order of their entries. -/
theorem hashRecJ_norm_perm (r r' : HashRec) (h : norm (hashRecJ r) = norm (hashRecJ r')) : r.Perm r' := by
  have hp := norm_obj_perm _ _ h
  simp only [normMembers_eq_map, List.map_map] at hp
  -- undo the embedding of digests into JSON strings
  let g : Str × JVal → Str × Str := fun p => (p.1, match p.2 with | .str s => s | _ => [])
  have hg : ∀ (x : HashRec),
      (x.map ((fun p : Str × JVal => (p.1, norm p.2)) ∘ fun x : Str × Str => (x.1, JVal.str x.2))).map g = x := by
    intro x
    rw [List.map_map]
    conv => rhs; rw [← List.map_id x]
    apply List.map_congr_left
    intro p _
    simp [g, norm]
  have := hp.map g
  rwa [hg r, hg r'] at this

/-- One artifact dictionary reports everything the other does. -/
def ArtifactsLe (a b : Artifacts) : Prop := ∀ p r, (p, r) ∈ a → ∃ r', (p, r') ∈ b ∧ r.Perm r'

theorem artifactsJ_norm_le (a b : Artifacts) (h : norm (artifactsJ a) = norm (artifactsJ b)) : ArtifactsLe a b := by
  have hp := norm_obj_perm _ _ h
  intro p r hm
  have hm' : (p, norm (hashRecJ r)) ∈ normMembers (a.map (fun x => (x.1, hashRecJ x.2))) := by
    simp only [normMembers_eq_map, List.map_map, List.mem_map]
    exact ⟨(p, r), hm, rfl⟩
  have hb := (List.Perm.mem_iff hp).mp hm'
  simp only [normMembers_eq_map, List.map_map, List.mem_map, Function.comp, Prod.mk.injEq] at hb
  obtain ⟨⟨p', r'⟩, hmem, hp', hr'⟩ := hb
  simp only at hp' hr'
  subst hp'
  exact ⟨r', hmem, hashRecJ_norm_perm r r' hr'.symm⟩

/-- Links with the same member-sorted JSON form have the same name and report the same artifacts. -/
theorem link_norm_artifacts (l l' : Link) (hn : norm l.toJ = norm l'.toJ) :
    l.name = l'.name ∧
    ArtifactsLe l.materials l'.materials ∧ ArtifactsLe l'.materials l.materials ∧
    ArtifactsLe l.products l'.products ∧ ArtifactsLe l'.products l.products := by
  simp only [Link.toJ] at hn
  have hp := norm_obj_perm _ _ hn
  simp only [normMembers] at hp
  -- every member of the first list is a member of the second; the keys are seven distinct literals
  have mem := fun x hx => (List.Perm.mem_iff hp (a := x)).mp hx
  have hname := mem (lit "name", norm (nameJ l.name)) (by simp)
  have hmat := mem (lit "materials", norm (artifactsJ l.materials)) (by simp)
  have hprod := mem (lit "products", norm (artifactsJ l.products)) (by simp)
  simp [lit] at hname hmat hprod
  refine ⟨?_, artifactsJ_norm_le _ _ hmat, artifactsJ_norm_le _ _ hmat.symm,
          artifactsJ_norm_le _ _ hprod, artifactsJ_norm_le _ _ hprod.symm⟩
  cases hl : l.name <;> cases hl' : l'.name <;> simp [hl, hl', nameJ, norm] at hname ⊢
  exact hname

/-- **C09 (typed).** Two links with the same signable bytes have the same name and report the same materials and
products: same paths, hash records equal up to the order of their entries. (Nothing is assumed about the order in
which either link's members were supplied, nor that the links were well formed.) -/
theorem C09_link_bytes_determine_artifacts (l l' : Link) (s : Str)
    (h : (Payload.link l).signableBytes = some s) (h' : (Payload.link l').signableBytes = some s) :
    l.name = l'.name ∧
    ArtifactsLe l.materials l'.materials ∧ ArtifactsLe l'.materials l.materials ∧
    ArtifactsLe l.products l'.products ∧ ArtifactsLe l'.products l.products :=
  link_norm_artifacts l l' (canon_injective _ _ s h h')

/-- **C09 (typed, traditional format): a valid signature binds what the link reports.** The signatures present were
made for the bytes of link `l0`; the file now carries link `l` and some key verifies it. Then `l` names the step `l0`
names and reports exactly the materials and products `l0` reports. -/
theorem C09_link_signature_binds_artifacts (S : Scheme) (nowSec : Int) (sigs : List SigEntry) (l0 l : Link) (m0 : Str)
    (h0 : (Payload.link l0).signableBytes = some m0) (hmade : MadeFor S (.metablock sigs (.link l)) m0)
    (keyJ : JVal) (hok : (Metadata.metablock sigs (.link l)).verifySignature S nowSec keyJ = .ok) :
    l.name = l0.name ∧
    ArtifactsLe l.materials l0.materials ∧ ArtifactsLe l0.materials l.materials ∧
    ArtifactsLe l.products l0.products ∧ ArtifactsLe l0.products l.products := by
  apply link_norm_artifacts
  apply Classical.byContradiction
  intro hne
  exact C09_content_edit_detected S nowSec sigs (.link l0) (.link l) m0 h0 hmade hne keyJ hok

/-! ## Layouts -/

theorem normList_eq_map (l : List JVal) : normList l = l.map norm := by
  induction l with
  | nil => rfl
  | cons x r ih => simp [normList, ih]

theorem nameJ_norm_inj (a b : Option Str) (h : norm (nameJ a) = norm (nameJ b)) : a = b := by
  cases a <;> cases b <;> simp [nameJ, norm] at h ⊢
  exact h

theorem strs_norm_inj (a b : List Str) (h : norm (.arr (a.map .str)) = norm (.arr (b.map .str))) : a = b := by
  simp only [norm, normList_eq_map, List.map_map, JVal.arr.injEq] at h
  have e : ∀ (x : List Str), x.map (norm ∘ JVal.str) = x.map JVal.str := by
    intro x; apply List.map_congr_left; intro _ _; simp [norm]
  rw [e, e] at h
  exact (List.map_inj_right (by intro x y hxy; exact JVal.str.inj hxy)).mp h

theorem rulesJ_norm_inj (a b : List (List Str)) (h : norm (rulesJ a) = norm (rulesJ b)) : a = b := by
  simp only [rulesJ, norm, normList_eq_map, List.map_map, JVal.arr.injEq] at h
  induction a generalizing b with
  | nil => cases b with
    | nil => rfl
    | cons _ _ => simp at h
  | cons x r ih =>
    cases b with
    | nil => simp at h
    | cons y r' =>
      simp only [List.map_cons, List.cons.injEq, Function.comp] at h
      obtain ⟨h1, h2⟩ := h
      rw [strs_norm_inj x y h1, ih r' h2]

/-- What verification reads of a step: everything but the expected command (which only produces a warning). -/
def Step.core (s : Step) : Option Str × List (List Str) × List (List Str) × List Str × Int :=
  (s.name, s.expectedMaterials, s.expectedProducts, s.pubkeys, s.threshold)

def Inspection.core (i : Inspection) : Option Str × List (List Str) × List (List Str) :=
  (i.name, i.expectedMaterials, i.expectedProducts)

theorem stepJ_norm_core (a b : Step) (h : norm a.toJ = norm b.toJ) : a.core = b.core := by
  have hp := norm_obj_perm _ _ h
  simp only [normMembers] at hp
  have mem := fun x hx => (List.Perm.mem_iff hp (a := x)).mp hx
  have h1 := mem (lit "name", norm (nameJ a.name)) (by simp)
  have h2 := mem (lit "expected_materials", norm (rulesJ a.expectedMaterials)) (by simp)
  have h3 := mem (lit "expected_products", norm (rulesJ a.expectedProducts)) (by simp)
  have h4 := mem (lit "pubkeys", norm (.arr (a.pubkeys.map .str))) (by simp)
  have h5 := mem (lit "threshold", norm (.int a.threshold)) (by simp)
  simp [lit] at h1 h2 h3 h4 h5
  simp only [norm, JVal.int.injEq] at h5
  simp only [Step.core, Prod.mk.injEq]
  exact ⟨nameJ_norm_inj _ _ h1, rulesJ_norm_inj _ _ h2, rulesJ_norm_inj _ _ h3, strs_norm_inj _ _ h4, h5⟩

theorem inspJ_norm_core (a b : Inspection) (h : norm a.toJ = norm b.toJ) : a.core = b.core := by
  have hp := norm_obj_perm _ _ h
  simp only [normMembers] at hp
  have mem := fun x hx => (List.Perm.mem_iff hp (a := x)).mp hx
  have h1 := mem (lit "name", norm (nameJ a.name)) (by simp)
  have h2 := mem (lit "expected_materials", norm (rulesJ a.expectedMaterials)) (by simp)
  have h3 := mem (lit "expected_products", norm (rulesJ a.expectedProducts)) (by simp)
  simp [lit] at h1 h2 h3
  simp only [Inspection.core, Prod.mk.injEq]
  exact ⟨nameJ_norm_inj _ _ h1, rulesJ_norm_inj _ _ h2, rulesJ_norm_inj _ _ h3⟩

theorem map_norm_core {α β : Type} (toJ : α → JVal) (core : α → β)
    (hc : ∀ a b, norm (toJ a) = norm (toJ b) → core a = core b) :
    ∀ (xs ys : List α), (xs.map toJ).map norm = (ys.map toJ).map norm → xs.map core = ys.map core
  | [], [], _ => rfl
  | [], _ :: _, h => by simp at h
  | _ :: _, [], h => by simp at h
  | x :: xs, y :: ys, h => by
    simp only [List.map_cons, List.cons.injEq] at h ⊢
    exact ⟨hc x y h.1, map_norm_core toJ core hc xs ys h.2⟩

/-- **C09 (typed, layouts).** Two layouts with the same signable bytes have the same steps and inspections, in the
same order, with the same names, rule lists, authorised key ids and thresholds, the same expiry text and the same
key store up to the order of its entries (values in member-sorted form). -/
theorem C09_layout_bytes_determine_content (l l' : Layout) (s : Str)
    (h : (Payload.layout l).signableBytes = some s) (h' : (Payload.layout l').signableBytes = some s) :
    l.steps.map Step.core = l'.steps.map Step.core ∧
    l.inspect.map Inspection.core = l'.inspect.map Inspection.core ∧
    l.expires = l'.expires ∧ (normMembers l.keys).Perm (normMembers l'.keys) := by
  have hn := canon_injective _ _ s h h'
  simp only [Payload.toJ, Layout.toJ] at hn
  have hp := norm_obj_perm _ _ hn
  simp only [normMembers] at hp
  have mem := fun x hx => (List.Perm.mem_iff hp (a := x)).mp hx
  have h1 := mem (lit "steps", norm (.arr (l.steps.map Step.toJ))) (by simp)
  have h2 := mem (lit "inspect", norm (.arr (l.inspect.map Inspection.toJ))) (by simp)
  have h3 := mem (lit "expires", norm (.str l.expires)) (by simp)
  have h4 := mem (lit "keys", norm (.obj l.keys)) (by simp)
  simp [lit] at h1 h2 h3 h4
  simp only [norm, normList_eq_map, JVal.arr.injEq] at h1 h2
  simp only [norm, JVal.str.injEq] at h3
  exact ⟨map_norm_core Step.toJ Step.core stepJ_norm_core _ _ h1,
         map_norm_core Inspection.toJ Inspection.core inspJ_norm_core _ _ h2, h3, norm_obj_perm _ _ h4⟩

/-- The hypotheses are met by concrete payloads (every payload without a float has signable bytes). -/
def exampleLink : Link where
  name := some (lit "build")
  materials := [(lit "a.c", [(lit "sha256", lit "00")])]
  products := []
  byproducts := []
  command := [.str (lit "cc")]
  environment := []

def exampleLayout : Layout where
  steps := [{ name := some (lit "build"), expectedMaterials := [[lit "ALLOW", lit "*"]], expectedProducts := [],
              pubkeys := [lit "ab"], expectedCommand := [], threshold := 1 }]
  inspect := []
  keys := []
  expires := lit "2030-01-01T00:00:00Z"
  readme := []

example : ((Payload.link exampleLink).signableBytes).isSome = true := by decide +kernel
example : ((Payload.layout exampleLayout).signableBytes).isSome = true := by decide +kernel

end InToto
