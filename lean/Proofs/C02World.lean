import Proofs.Sound
import Proofs.C14World
import Proofs.C09Reload
/-!
# C02, last clause, at the level of whole verifications

"Being ignored, such metadata also never turns an otherwise acceptable supply
chain into a rejected one."

`C02_bad_file_never_rejects`: take any world in which a layout verifies, and put
one more loadable metadata file anywhere — in the link directory, in the
directory of a sublayout at any depth — whose signatures do not verify under any
key (unsigned, altered after signing, signed by a key nobody lists, …). Then the
verification gives exactly the same result: the same summary link and the same
inspection trace.
-/
namespace InToto

variable (gm : Str → Str → Bool) (w : World)

/-! ## Authorisation never raises for a validated key store -/

theorem Dict.get?_isSome_of_mem_keys {α : Type} : ∀ (d : Dict Str α) (k : Str), k ∈ d.map (·.1) →
    ∃ v, d.get? k = some v
  | p :: r, k, h => by
    by_cases hp : p.1 = k
    · exact ⟨p.2, by simp [Dict.get?, hp]⟩
    · simp only [List.map_cons, List.mem_cons] at h
      rcases h with h | h
      · exact absurd h.symm hp
      · obtain ⟨v, hv⟩ := Dict.get?_isSome_of_mem_keys r k h
        refine ⟨v, ?_⟩
        simp only [Dict.get?, List.find?_cons, hp, decide_false] at hv ⊢
        exact hv

/-- Every value of the store has a string `keyid`. -/
def KeyidsOk (keys : List (Str × JVal)) : Prop := ∀ kv ∈ keys, ∃ i, keyidOf kv.2 = .ok i

theorem checkPublicKeys_keyids {keys : List (Str × JVal)} (h : checkPublicKeys keys = .ok ()) : KeyidsOk keys := by
  intro kv hkv
  have := (allE_ok_iff _ _).mp h kv hkv
  split at this
  · cases this
  · cases hr : readPubKey kv.2 with
    | error e => simp [hr, Except.map] at this
    | ok k =>
      unfold readPubKey at hr
      split at hr
      · rename_i kvs0 heq
        split at hr
        · rename_i keyid hk
          refine ⟨keyid, ?_⟩
          unfold keyidOf
          rw [heq]
          simp only [JVal.getKey?, hk]
        · cases hr
      · cases hr

/-- What the sub-key map holds: main keys of the store, under ids they list as subkeys. -/
theorem mainKeysForSubkeys_get? (keys : List (Str × JVal)) (a : Str) (m : JVal)
    (h : Dict.get? (mainKeysForSubkeys keys) a = some m) :
    (∃ kv ∈ keys, kv.2 = m) ∧ a ∈ subkeyIds (some m) := by
  unfold mainKeysForSubkeys at h
  -- generalise the accumulator
  have gen : ∀ (ks : List (Str × JVal)) (acc : Dict Str JVal),
      Dict.get? (ks.foldl (fun acc (x : Str × JVal) =>
        (subkeyIds (some x.2)).foldl (fun acc' sub => Dict.insert acc' sub x.2) acc) acc) a = some m →
      Dict.get? acc a = some m ∨ ((∃ kv ∈ ks, kv.2 = m) ∧ a ∈ subkeyIds (some m)) := by
    intro ks
    induction ks with
    | nil => intro acc h; exact .inl h
    | cons x rest ih =>
      intro acc h
      simp only [List.foldl_cons] at h
      rcases ih _ h with h' | ⟨⟨kv, hkv, he⟩, ha⟩
      · -- inner fold
        have inner : ∀ (subs : List Str) (acc0 : Dict Str JVal),
            Dict.get? (subs.foldl (fun acc' sub => Dict.insert acc' sub x.2) acc0) a = some m →
            Dict.get? acc0 a = some m ∨ (x.2 = m ∧ a ∈ subs) := by
          intro subs
          induction subs with
          | nil => intro acc0 h; exact .inl h
          | cons s r ih2 =>
            intro acc0 h
            simp only [List.foldl_cons] at h
            rcases ih2 _ h with h'' | ⟨he, ha⟩
            · by_cases hs : a = s
              · subst hs
                rw [Dict.get?_insert_self] at h''
                cases h''
                exact .inr ⟨rfl, List.mem_cons_self⟩
              · rw [Dict.get?_insert_of_ne _ _ _ _ hs] at h''
                exact .inl h''
            · exact .inr ⟨he, List.mem_cons_of_mem _ ha⟩
        rcases inner _ _ h' with h'' | ⟨he, ha⟩
        · exact .inl h''
        · exact .inr ⟨⟨x, List.mem_cons_self, he⟩, he ▸ ha⟩
      · exact .inr ⟨⟨kv, List.mem_cons_of_mem _ hkv, he⟩, ha⟩
  have h' : Dict.get? (keys.foldl (fun acc (x : Str × JVal) =>
        (subkeyIds (some x.2)).foldl (fun acc' sub => Dict.insert acc' sub x.2) acc) []) a = some m := by
    simpa using h
  rcases gen keys [] h' with h0 | h0
  · simp [Dict.get?] at h0
  · exact h0

theorem subkey_lookup (m : JVal) (a : Str) (h : a ∈ subkeyIds (some m)) :
    ∃ sk, (m.getKey? (lit "subkeys")).bind (·.getKey? a) = some sk := by
  unfold subkeyIds at h
  simp only at h
  split at h
  · rename_i sk hsk
    obtain ⟨v, hv⟩ := Dict.get?_isSome_of_mem_keys sk a h
    refine ⟨v, ?_⟩
    rw [hsk]
    simp only [Option.bind_some, JVal.getKey?]
    exact hv
  · cases h

/-- **Authorisation never raises** when every key of the store has a `keyid`
(which `Layout.read` validates). -/
theorem authorise_total (keys : List (Str × JVal)) (hk : KeyidsOk keys) (kid : Str) :
    ∀ (pubkeys : List Str), ∃ r, authorise keys (mainKeysForSubkeys keys) kid pubkeys = .ok r := by
  intro pubkeys
  have hval : ∀ a k, Dict.get? keys a = some k → ∃ i, keyidOf k = .ok i := by
    intro a k h
    exact hk (a, k) (Dict.mem_of_get? _ _ _ h)
  induction pubkeys with
  | nil => exact ⟨none, rfl⟩
  | cons a rest ih =>
    unfold authorise
    simp only
    split
    · rename_i k hk1
      split at hk1
      · obtain ⟨i, hi⟩ := hval a k hk1
        exact ⟨some (k, i), by simp [hi, Except.map]⟩
      · cases hk1
    · split
      · rename_i m hm
        split at hm
        · obtain ⟨⟨kv, hkv, he⟩, ha⟩ := mainKeysForSubkeys_get? keys a m hm
          obtain ⟨sk, hsk⟩ := subkey_lookup m a ha
          obtain ⟨i, hi⟩ := hk kv hkv
          rw [he] at hi
          simp only [hsk]
          exact ⟨some (sk, i), by simp [hi, Except.map]⟩
        · cases hm
      · split
        · rename_i k hk2
          split
          · obtain ⟨i, hi⟩ := hval a k hk2
            exact ⟨some (k, i), by simp [hi, Except.map]⟩
          · exact ih
        · exact ih

/-! ## Layouts whose key store was validated -/

/-- `Layout.read` validates the key store (`_check_public_keys`). -/
def Metadata.KeysChecked (md : Metadata) : Prop :=
  ∀ l0, md.getPayload = .ok (.layout l0) → KeyidsOk l0.keys

theorem readPayload_keys {bad : Err} {data : JVal} {l : Layout} (h : readPayload bad data = .ok (.layout l)) :
    KeyidsOk l.keys := by
  unfold readPayload at h
  simp only at h
  split at h
  · cases h
  · rename_i p hp
    split at h
    · cases h
      split at hp
      · split at hp
        · cases hr : readLink data with
          | error e => simp [hr, Except.map] at hp
          | ok lk => simp [hr, Except.map] at hp
        · split at hp
          · cases hr : readLayout data with
            | error e => simp [hr, Except.map] at hp
            | ok l' =>
              simp only [hr, Except.map, Except.ok.injEq, Payload.layout.injEq] at hp
              subst hp
              cases data with
              | obj kvs => exact checkPublicKeys_keyids (readLayout_ok_inv kvs l' hr).2.2.2.1
              | _ => simp [readLayout] at hr
          · cases hp
      · cases hp
    · cases h

theorem fromDict_keysChecked {data : JVal} {aux : Option EnvAux} {md : Metadata}
    (h : Metadata.fromDict data aux = .ok md) : md.KeysChecked := by
  intro l0 hp
  cases md with
  | envelope sigs text parsed =>
    simp only [Metadata.getPayload] at hp
    split at hp
    · exact readPayload_keys hp
    · cases hp
  | metablock sigs signed =>
    simp only [Metadata.getPayload, Except.ok.injEq] at hp
    subst hp
    unfold Metadata.fromDict at h
    split at h
    · split at h
      · split at h
        · split at h
          · cases h
          · cases h
        · cases h
      · split at h
        · simp only [bind, Except.bind, pure, Except.pure] at h
          split at h
          · cases h
          · split at h
            · cases h
            · rename_i signed' hs
              split at h
              · cases h
              · cases h
                exact readPayload_keys hs
        · cases h
    · cases h

theorem loadFile_keysChecked {path : Str} {md : Metadata} (h : loadFile w path = some (.ok md)) :
    md.KeysChecked := by
  unfold loadFile at h
  split at h
  · cases h
  · cases h
  · simp only [Option.some.injEq] at h
    exact fromDict_keysChecked h

/-! ## One more file -/

/-- The world with one more file. -/
def World.addFile (w : World) (P : Str) (fc : FileContent) : World := { w with files := w.files ++ [(P, fc)] }

theorem Dict.get?_append_of_ne {α : Type} : ∀ (d : Dict Str α) (P k : Str) (v : α), k ≠ P →
    Dict.get? (d ++ [(P, v)]) k = Dict.get? d k
  | [], P, k, v, h => by
    have : ¬ P = k := fun e => h e.symm
    simp [Dict.get?, this]
  | p :: r, P, k, v, h => by
    have ih := Dict.get?_append_of_ne r P k v h
    by_cases hp : p.1 = k
    · simp [Dict.get?, hp]
    · simp only [Dict.get?, List.cons_append, List.find?_cons, hp, decide_false] at ih ⊢
      exact ih

variable (P : Str) (data : JVal) (aux : Option EnvAux) (bad : Metadata)

theorem loadFile_addFile_ne {path : Str} (h : path ≠ P) (fc : FileContent) :
    loadFile (w.addFile P fc) path = loadFile w path := by
  unfold loadFile World.addFile
  simp only [Dict.get?_append_of_ne _ _ _ _ h]

theorem loadFile_addFile_self (hnew : P ∉ w.files.map (·.1)) :
    loadFile (w.addFile P (some (data, aux))) P = some (Metadata.fromDict data aux) := by
  unfold loadFile World.addFile
  simp only [Dict.get?_append_single _ _ _ hnew]

theorem loadFile_absent (hnew : P ∉ w.files.map (·.1)) : loadFile w P = none := by
  unfold loadFile
  rw [Dict.get?_none_of_not_mem _ _ hnew]

/-- `d'` is `d` with extra entries, all of them `bad`, under keys satisfying `E`
(which no key of `d` does). -/
inductive Ext (E : Str → Prop) (bad : Metadata) : Dict Str Metadata → Dict Str Metadata → Prop where
  | nil : Ext E bad [] []
  | both (k : Str) (v : Metadata) {d' d : Dict Str Metadata} : ¬ E k → Ext E bad d' d →
      Ext E bad ((k, v) :: d') ((k, v) :: d)
  | extra (k : Str) {d' d : Dict Str Metadata} : E k → Ext E bad d' d → Ext E bad ((k, bad) :: d') d

theorem Ext.insert_both {E : Str → Prop} {bad : Metadata} {d' d : Dict Str Metadata} (h : Ext E bad d' d)
    (k : Str) (v : Metadata) (hk : ¬ E k) : Ext E bad (Dict.insert d' k v) (Dict.insert d k v) := by
  induction h with
  | nil => exact .both k v hk .nil
  | both k0 v0 hk0 _ ih =>
    simp only [Dict.insert]
    by_cases e : k0 = k
    · simp only [e, if_true]
      exact .both k v hk (by assumption)
    · simp only [e, if_false]
      exact .both k0 v0 hk0 ih
  | extra k0 hk0 _ ih =>
    have e : ¬ k0 = k := fun e => hk (e ▸ hk0)
    simp only [Dict.insert, e, if_false]
    exact .extra k0 hk0 ih

theorem Ext.insert_extra {E : Str → Prop} {bad : Metadata} {d' d : Dict Str Metadata} (h : Ext E bad d' d)
    (k : Str) (hk : E k) : Ext E bad (Dict.insert d' k bad) d := by
  induction h with
  | nil => exact .extra k hk .nil
  | both k0 v0 hk0 _ ih =>
    have e : ¬ k0 = k := fun e => hk0 (e ▸ hk)
    simp only [Dict.insert, e, if_false]
    exact .both k0 v0 hk0 ih
  | extra k0 hk0 hrest ih =>
    simp only [Dict.insert]
    by_cases e : k0 = k
    · simp only [e, if_true]
      exact .extra k hk hrest
    · simp only [e, if_false]
      exact .extra k0 hk0 ih

theorem Ext.length_le {E : Str → Prop} {bad : Metadata} {d' d : Dict Str Metadata} (h : Ext E bad d' d) :
    d.length ≤ d'.length := by
  induction h with
  | nil => exact Nat.le_refl _
  | both _ _ _ _ ih => simp only [List.length_cons]; omega
  | extra _ _ _ ih => simp only [List.length_cons]; omega

/-- The same keys, entries related by a relation that knows the key. -/
inductive ExtK (R : Str → Dict Str Metadata → Dict Str Metadata → Prop) :
    Dict Str (Dict Str Metadata) → Dict Str (Dict Str Metadata) → Prop where
  | nil : ExtK R [] []
  | cons (k : Str) {a b : Dict Str Metadata} {d e : Dict Str (Dict Str Metadata)} : R k a b → ExtK R d e →
      ExtK R ((k, a) :: d) ((k, b) :: e)

theorem ExtK.insert {R : Str → Dict Str Metadata → Dict Str Metadata → Prop}
    {d e : Dict Str (Dict Str Metadata)} (h : ExtK R d e) (k : Str) {a b : Dict Str Metadata} (hab : R k a b) :
    ExtK R (Dict.insert d k a) (Dict.insert e k b) := by
  induction h with
  | nil => exact .cons k hab .nil
  | cons k0 h0 hrest ih =>
    simp only [Dict.insert]
    by_cases e : k0 = k
    · simp only [e, if_true]
      exact .cons k hab hrest
    · simp only [e, if_false]
      exact .cons k0 h0 ih

theorem ExtK.get? {R : Str → Dict Str Metadata → Dict Str Metadata → Prop}
    {d e : Dict Str (Dict Str Metadata)} (h : ExtK R d e) (k : Str) :
    (Dict.get? d k = none ∧ Dict.get? e k = none) ∨
    ∃ a b, Dict.get? d k = some a ∧ Dict.get? e k = some b ∧ R k a b := by
  induction h with
  | nil => exact .inl ⟨rfl, rfl⟩
  | cons k0 h0 _ ih =>
    by_cases e : k0 = k
    · subst e
      exact .inr ⟨_, _, by simp [Dict.get?], by simp [Dict.get?], h0⟩
    · rcases ih with ⟨h1, h2⟩ | ⟨a, b, h1, h2, hr⟩
      · refine .inl ⟨?_, ?_⟩
        · simp only [Dict.get?, List.find?_cons, e, decide_false] at h1 ⊢; exact h1
        · simp only [Dict.get?, List.find?_cons, e, decide_false] at h2 ⊢; exact h2
      · refine .inr ⟨a, b, ?_, ?_, hr⟩
        · simp only [Dict.get?, List.find?_cons, e, decide_false] at h1 ⊢; exact h1
        · simp only [Dict.get?, List.find?_cons, e, decide_false] at h2 ⊢; exact h2

/-- Which key ids of a step would be read from the new file. -/
abbrev AtP (dir name : Str) : Str → Prop := fun k => pathJoin dir (linkFileName name k) = P

/-! ## Loading with one more file -/

theorem loadStepLinks_ext (hnew : P ∉ w.files.map (·.1)) (hload : Metadata.fromDict data aux = .ok bad)
    (dir name : Str) : ∀ (ids : List Str) (acc' acc res : Dict Str Metadata),
    Ext (AtP P dir name) bad acc' acc → loadStepLinks w dir name ids acc = .ok res →
    ∃ res', loadStepLinks (w.addFile P (some (data, aux))) dir name ids acc' = .ok res' ∧
      Ext (AtP P dir name) bad res' res := by
  intro ids
  induction ids with
  | nil =>
    intro acc' acc res hext h
    simp only [loadStepLinks] at h
    cases h
    exact ⟨acc', rfl, hext⟩
  | cons kid rest ih =>
    intro acc' acc res hext h
    by_cases hp : pathJoin dir (linkFileName name kid) = P
    · simp only [loadStepLinks, hp, loadFile_absent w P hnew] at h
      obtain ⟨res', h1, h2⟩ := ih _ _ _ (hext.insert_extra kid hp) h
      refine ⟨res', ?_, h2⟩
      simp only [loadStepLinks, hp, loadFile_addFile_self w P data aux hnew, hload]
      exact h1
    · simp only [loadStepLinks, loadFile_addFile_ne w P hp] at h ⊢
      cases hl : loadFile w (pathJoin dir (linkFileName name kid)) with
      | none =>
        rw [hl] at h
        exact ih _ _ _ hext h
      | some r =>
        cases r with
        | error e => rw [hl] at h; cases h
        | ok md =>
          rw [hl] at h
          exact ih _ _ _ (hext.insert_both kid md hp) h

theorem loadLinksSteps_ext (hnew : P ∉ w.files.map (·.1)) (hload : Metadata.fromDict data aux = .ok bad)
    (l : Layout) (dir : Str) : ∀ (steps : List Step) (acc' acc res : Dict Str (Dict Str Metadata)),
    ExtK (fun name => Ext (AtP P dir name) bad) acc' acc → loadLinksSteps w l dir steps acc = .ok res →
    ∃ res', loadLinksSteps (w.addFile P (some (data, aux))) l dir steps acc' = .ok res' ∧
      ExtK (fun name => Ext (AtP P dir name) bad) res' res := by
  intro steps
  induction steps with
  | nil =>
    intro acc' acc res hext h
    simp only [loadLinksSteps] at h
    cases h
    exact ⟨acc', rfl, hext⟩
  | cons step rest ih =>
    intro acc' acc res hext h
    simp only [loadLinksSteps] at h ⊢
    split at h
    · cases h
    · rename_i name hname
      split at h
      · cases h
      · rename_i links hlinks
        split at h
        · cases h
        · rename_i hthr
          obtain ⟨links', hl', hx⟩ := loadStepLinks_ext w P data aux bad hnew hload dir name _ [] [] links .nil hlinks
          simp only [hl']
          have : ¬ ((links'.length : Int) < step.threshold) := by
            have := hx.length_le
            omega
          simp only [this, if_false]
          exact ih _ _ _ (hext.insert name hx) h

/-! ## The signature stage with the extra entries -/

/-- The signature check on this metadata never succeeds and never raises
anything the threshold stage does not skip. -/
def NeverCounts (S : Scheme) (nowSec : Int) (bad : Metadata) : Prop :=
  ∀ vkey, bad.verifySignature S nowSec vkey = .bad ∨ bad.verifySignature S nowSec vkey = .expired ∨
    ∃ e, bad.verifySignature S nowSec vkey = .crash e ∧ (e = .format ∨ e = .keyError ∨ e = .value)

/-- The threshold stage skips this metadata when it is presented for step
`stepName`: its signature check does not succeed, or it does but the payload is a
link recorded for another step. -/
def SkippedFor (S : Scheme) (nowSec : Int) (bad : Metadata) (stepName : Str) : Prop :=
  ∀ vkey, bad.verifySignature S nowSec vkey = .bad ∨ bad.verifySignature S nowSec vkey = .expired ∨
    (∃ e, bad.verifySignature S nowSec vkey = .crash e ∧ (e = .format ∨ e = .keyError ∨ e = .value)) ∨
    (bad.verifySignature S nowSec vkey = .ok ∧
      ∃ payload, bad.getPayload = .ok payload ∧ nameBound payload stepName = false)

theorem NeverCounts.skippedFor {S : Scheme} {nowSec : Int} {bad : Metadata} (h : NeverCounts S nowSec bad)
    (stepName : Str) : SkippedFor S nowSec bad stepName := by
  intro vkey
  rcases h vkey with h | h | h
  · exact .inl h
  · exact .inr (.inl h)
  · exact .inr (.inr (.inl h))

theorem verifyStepLinks_ext (w' : World) (hS : w'.S = w.S) (hN : w'.nowSec = w.nowSec)
    (l : Layout) (hk : KeyidsOk l.keys) (step : Step) (stepName : Str)
    (E : Str → Prop) (hbad : ∀ k, E k → SkippedFor w.S w.nowSec bad stepName) :
    ∀ (input' input : List (Str × Metadata)), Ext E bad input' input →
    ∀ (kept : Dict Str Metadata) (used : List Str),
    verifyStepLinks w' l (mainKeysForSubkeys l.keys) step stepName input' kept used =
      verifyStepLinks w l (mainKeysForSubkeys l.keys) step stepName input kept used := by
  intro input' input h
  induction h with
  | nil => intro kept used; rfl
  | both k v _ _ ih =>
    intro kept used
    simp only [verifyStepLinks, hS, hN]
    cases authorise l.keys (mainKeysForSubkeys l.keys) k step.pubkeys with
    | error e => rfl
    | ok r =>
      cases r with
      | none => exact ih _ _
      | some vm =>
        obtain ⟨vkey, mainId⟩ := vm
        simp only
        cases v.verifySignature w.S w.nowSec vkey with
        | bad => exact ih _ _
        | expired => exact ih _ _
        | crash e =>
          simp only
          split
          · exact ih _ _
          · rfl
        | ok =>
          simp only
          cases v.getPayload with
          | error e => rfl
          | ok payload =>
            simp only
            split
            · exact ih _ _
            · exact ih _ _
  | extra k hEk _ ih =>
    intro kept used
    rw [← ih kept used]
    simp only [verifyStepLinks]
    obtain ⟨r, hr⟩ := authorise_total l.keys hk k step.pubkeys
    rw [hr]
    cases r with
    | none => rfl
    | some vm =>
      obtain ⟨vkey, mainId⟩ := vm
      simp only [hS, hN]
      rcases hbad k hEk vkey with h | h | ⟨e, h, he⟩ | ⟨h, payload, hp, hnb⟩
      · rw [h]
      · rw [h]
      · rw [h]
        simp only [he, if_true]
      · rw [h]
        simp only [hp, hnb, Bool.not_false, if_true]

theorem verifySigSteps_ext (w' : World) (hS : w'.S = w.S) (hN : w'.nowSec = w.nowSec)
    (l : Layout) (hk : KeyidsOk l.keys)
    (R : Str → Str → Prop) (hbad : ∀ name k, R name k → SkippedFor w.S w.nowSec bad name)
    (loaded' loaded : Dict Str (Dict Str Metadata))
    (hext : ExtK (fun name => Ext (R name) bad) loaded' loaded) :
    ∀ (steps : List Step) (acc : Dict Str (Dict Str Metadata)),
    verifySigSteps w' l (mainKeysForSubkeys l.keys) loaded' steps acc =
      verifySigSteps w l (mainKeysForSubkeys l.keys) loaded steps acc := by
  intro steps
  induction steps with
  | nil => intro acc; rfl
  | cons step rest ih =>
    intro acc
    simp only [verifySigSteps]
    cases nameOf step.name with
    | error e => rfl
    | ok name =>
      simp only
      have : verifyStepLinks w' l (mainKeysForSubkeys l.keys) step name ((Dict.get? loaded' name).getD []) [] [] =
          verifyStepLinks w l (mainKeysForSubkeys l.keys) step name ((Dict.get? loaded name).getD []) [] [] := by
        rcases hext.get? name with ⟨h1, h2⟩ | ⟨a, b, h1, h2, hr⟩
        · rw [h1, h2]
          exact verifyStepLinks_ext w bad w' hS hN l hk step name (R name) (hbad name) _ _ .nil _ _
        · rw [h1, h2]
          exact verifyStepLinks_ext w bad w' hS hN l hk step name (R name) (hbad name) _ _ hr _ _
      rw [this]
      cases verifyStepLinks w l (mainKeysForSubkeys l.keys) step name ((Dict.get? loaded name).getD []) [] [] with
      | error e => rfl
      | ok ku =>
        simp only
        split
        · rfl
        · exact ih _

/-! ## Sublayouts: the recursive calls agree wherever the first one accepts -/

theorem verifySublayoutsStep_congr_ok (recur1 recur2 : Metadata → List (Str × JVal) → Str → Str → VerifyOut)
    (l : Layout) (dir stepName : Str) : ∀ (input : List (Str × Metadata)) (acc res : Dict Str Link)
    (tr : List (List Str)),
    verifySublayoutsStep recur1 l dir stepName input acc = (.ok res, tr) →
    (∀ p ∈ input, ∀ keys d n s, (recur1 p.2 keys d n).result = .ok s → recur2 p.2 keys d n = recur1 p.2 keys d n) →
    verifySublayoutsStep recur2 l dir stepName input acc = (.ok res, tr) := by
  intro input
  induction input with
  | nil => intro acc res tr h _; exact h
  | cons x rest ih =>
    intro acc res tr h hrec
    obtain ⟨kid, md⟩ := x
    have hrest : ∀ p ∈ rest, ∀ keys d n s, (recur1 p.2 keys d n).result = .ok s →
        recur2 p.2 keys d n = recur1 p.2 keys d n := fun p hp => hrec p (List.mem_cons_of_mem _ hp)
    simp only [verifySublayoutsStep] at h ⊢
    split at h
    · cases h
    · rename_i lk hp
      exact ih _ _ _ h hrest
    · rename_i sub hp
      split at h
      · cases h
      · rename_i summary hres
        rw [hrec (kid, md) List.mem_cons_self _ _ _ summary hres]
        simp only [hres]
        cases hr : verifySublayoutsStep recur1 l dir stepName rest (Dict.insert acc kid summary) with
        | mk r' tr' =>
          rw [hr] at h
          simp only at h
          cases r' with
          | error e => simp at h
          | ok res' =>
            rw [ih _ _ _ hr hrest]
            exact h

theorem verifySublayouts_congr_ok (recur1 recur2 : Metadata → List (Str × JVal) → Str → Str → VerifyOut)
    (l : Layout) (dir : Str) : ∀ (steps : List (Str × Dict Str Metadata)) (acc res : Dict Str (Dict Str Link))
    (tr : List (List Str)),
    verifySublayouts recur1 l dir steps acc = (.ok res, tr) →
    (∀ sm ∈ steps, ∀ p ∈ sm.2, ∀ keys d n s, (recur1 p.2 keys d n).result = .ok s →
      recur2 p.2 keys d n = recur1 p.2 keys d n) →
    verifySublayouts recur2 l dir steps acc = (.ok res, tr) := by
  intro steps
  induction steps with
  | nil => intro acc res tr h _; exact h
  | cons x rest ih =>
    intro acc res tr h hrec
    obtain ⟨stepName, mds⟩ := x
    simp only [verifySublayouts] at h ⊢
    split at h
    · cases h
    · rename_i links tr0 hstep
      rw [verifySublayoutsStep_congr_ok recur1 recur2 l dir stepName mds [] links tr0 hstep
        (hrec (stepName, mds) List.mem_cons_self)]
      simp only
      cases hr : verifySublayouts recur1 l dir rest (Dict.insert acc stepName links) with
      | mk r' tr' =>
        rw [hr] at h
        simp only at h
        cases r' with
        | error e => simp at h
        | ok res' =>
          rw [ih _ _ _ hr (fun sm hsm => hrec sm (List.mem_cons_of_mem _ hsm))]
          exact h

/-! ## Whatever the later stages see was loaded from a file -/

theorem loadLinksSteps_inv (l : Layout) (dir : Str) :
    ∀ (steps : List Step) (acc res : Dict Str (Dict Str Metadata)), loadLinksSteps w l dir steps acc = .ok res →
      ∀ nk ∈ res, nk ∈ acc ∨ ∃ step ∈ steps, loadStepLinks w dir nk.1 (candidateIds l step) [] = .ok nk.2 := by
  intro steps
  induction steps with
  | nil =>
    intro acc res h nk hnk
    simp only [loadLinksSteps] at h
    cases h
    exact .inl hnk
  | cons step rest ih =>
    intro acc res h nk hnk
    simp only [loadLinksSteps] at h
    split at h
    · cases h
    · rename_i name hname
      split at h
      · cases h
      · rename_i links hlinks
        split at h
        · cases h
        · rcases ih _ _ h nk hnk with h' | ⟨s, hs, hl⟩
          · rcases Dict.mem_insert _ _ _ _ h' with h' | h'
            · subst h'
              exact .inr ⟨step, List.mem_cons_self, hlinks⟩
            · exact .inl h'
          · exact .inr ⟨s, List.mem_cons_of_mem _ hs, hl⟩

/-- Every entry the signature stage retains is the content of some file. -/
theorem retained_from_files {l : Layout} {dir : Str} {loaded stepsMd : Dict Str (Dict Str Metadata)}
    (hload : loadLinksForLayout w l dir = .ok loaded)
    (hsig : verifyLinkSignatureThresholds w l loaded = .ok stepsMd) :
    ∀ sm ∈ stepsMd, ∀ p ∈ sm.2, ∃ path, loadFile w path = some (.ok p.2) := by
  intro sm hsm p hp
  rcases (verifySigSteps_inv w l _ loaded _ _ _ hsig).2 sm hsm with h | ⟨step, _, _, hall⟩
  · cases h
  · obtain ⟨hin, _⟩ := hall p hp
    cases hg : Dict.get? loaded sm.1 with
    | none => rw [hg] at hin; cases hin
    | some links =>
      rw [hg] at hin
      simp only [Option.getD_some] at hin
      rcases loadLinksSteps_inv w l dir _ _ _ hload (sm.1, links) (Dict.mem_of_get? _ _ _ hg) with h | ⟨s, _, hl⟩
      · cases h
      · rcases (loadStepLinks_inv w dir sm.1 _ _ _ hl).2 p hin with h | ⟨_, hf⟩
        · cases h
        · exact ⟨_, hf⟩

/-! ## The theorem -/

/-- **C02 (ignored metadata never turns an acceptable supply chain into a
rejected one), for whole verifications.** `bad` is any loadable metadata whose
signature check never succeeds (and never raises anything the threshold stage
does not skip): unsigned, altered after signing, signed by a key nobody lists,
carrying a signature of the other key family. Putting it into a new file
anywhere — the link directory, the directory of a sublayout at any depth, under
the file name of an authorised functionary's link — leaves a successful
verification exactly as it was: same summary link, same inspections run. -/
theorem extra_file_never_rejects (hnew : P ∉ w.files.map (·.1))
    (hload : Metadata.fromDict data aux = .ok bad)
    (hbad : ∀ dir name k, pathJoin dir (linkFileName name k) = P → SkippedFor w.S w.nowSec bad name) :
    ∀ (fuel : Nat) (md : Metadata) (keys : List (Str × JVal)) (dir : Str)
      (params : Option (List (Str × Option Str))) (stepName : Str) (s : Link), md.KeysChecked →
      (verify gm w fuel md keys dir params stepName).result = .ok s →
      verify gm (w.addFile P (some (data, aux))) fuel md keys dir params stepName =
        verify gm w fuel md keys dir params stepName := by
  intro fuel
  induction fuel with
  | zero => intro md keys dir params stepName s _ _; rfl
  | succ n ih =>
    intro md keys dir params stepName s hkc h
    obtain ⟨st⟩ := verify_ok_inv gm w h
    -- the gate does not look at files
    have hgate' : gate (w.addFile P (some (data, aux))) md keys params = .ok st.layout := by
      rw [C01_gate_independent_of_links w (w.addFile P (some (data, aux))) rfl rfl rfl]
      exact st.hgate
    -- the evaluated layout has a validated key store
    have hk : KeyidsOk st.layout.keys := by
      obtain ⟨l0, hp, hkeys⟩ := gate_keys w st.hgate
      rw [hkeys]
      exact hkc l0 hp
    -- loading finds at most more
    obtain ⟨loaded', hload', hx⟩ := loadLinksSteps_ext w P data aux bad hnew hload st.layout dir _ [] [] _ .nil
      (by simpa [loadLinksForLayout] using st.hload)
    have hload'' : loadLinksForLayout (w.addFile P (some (data, aux))) st.layout dir = .ok loaded' := by
      simpa [loadLinksForLayout] using hload'
    -- the signature stage retains the same
    have hsig' : verifyLinkSignatureThresholds (w.addFile P (some (data, aux))) st.layout loaded' = .ok st.stepsMd := by
      unfold verifyLinkSignatureThresholds
      rw [verifySigSteps_ext w bad (w.addFile P (some (data, aux))) rfl rfl st.layout hk _ (hbad dir) loaded' st.loaded hx]
      exact st.hsig
    -- sublayouts: by induction, for metadata loaded from files
    have hfiles := retained_from_files w st.hload st.hsig
    have hsub' : verifySublayouts (recurOf gm (w.addFile P (some (data, aux))) n) st.layout dir st.stepsMd [] =
        (.ok st.chain, st.tr1) := by
      apply verifySublayouts_congr_ok (recurOf gm w n) _ st.layout dir _ _ _ _ st.hsub
      intro sm hsm p hp keys' d' n' s' hres
      obtain ⟨path, hf⟩ := hfiles sm hsm p hp
      exact ih p.2 keys' d' none n' s' (loadFile_keysChecked w hf) hres
    have hinsp' : runAllInspections (w.addFile P (some (data, aux))) st.layout.inspect [] = (.ok st.inspLinks, st.tr2) := by
      have := runAllInspections_withFiles w (w.files ++ [(P, some (data, aux))]) st.layout.inspect []
      rw [show w.withFiles (w.files ++ [(P, some (data, aux))]) = w.addFile P (some (data, aux)) from rfl] at this
      rw [this]
      exact st.hinsp
    have hsub := st.hsub
    unfold verify
    simp only [hgate', st.hgate, hload'', st.hload, hsig', st.hsig, hsub', hsub, st.hchain, hinsp', st.hinsp,
      st.hirules]

/-- `extra_file_never_rejects` for metadata whose signature check never succeeds. -/
theorem C02_bad_file_never_rejects (hnew : P ∉ w.files.map (·.1))
    (hload : Metadata.fromDict data aux = .ok bad) (hbad : NeverCounts w.S w.nowSec bad)
    (fuel : Nat) (md : Metadata) (keys : List (Str × JVal)) (dir : Str)
    (params : Option (List (Str × Option Str))) (stepName : Str) (s : Link) (hkc : md.KeysChecked)
    (h : (verify gm w fuel md keys dir params stepName).result = .ok s) :
    verify gm (w.addFile P (some (data, aux))) fuel md keys dir params stepName =
      verify gm w fuel md keys dir params stepName :=
  extra_file_never_rejects gm w P data aux bad hnew hload (fun _ name _ _ => hbad.skippedFor name)
    fuel md keys dir params stepName s hkc h

/-! ## The hypothesis is met: unsigned metadata never counts -/

theorem readPubKey_error (j : JVal) (e : Err) (h : readPubKey j = .error e) : e = .format ∨ e = .value := by
  unfold readPubKey at h
  repeat' split at h
  all_goals (first | cases h | skip)
  all_goals simp

/-- Metadata without any signature — in either format — satisfies `NeverCounts`. -/
theorem unsigned_never_counts (S : Scheme) (nowSec : Int) (md : Metadata) (h : md.sigs = []) :
    NeverCounts S nowSec md := by
  intro vkey
  cases md with
  | metablock sigs signed =>
    simp only [Metadata.sigs] at h
    subst h
    simp only [Metadata.verifySignature, metablockVerify]
    cases hr : readPubKey vkey with
    | error e =>
      rcases readPubKey_error vkey e hr with he | he
      · exact .inr (.inr ⟨e, rfl, .inl he⟩)
      · exact .inr (.inr ⟨e, rfl, .inr (.inr he)⟩)
    | ok k => exact .inl (by simp)
  | envelope sigs text parsed =>
    simp only [Metadata.sigs] at h
    subst h
    simp only [Metadata.verifySignature, envelopeVerify]
    cases hr : readPubKey vkey with
    | error e =>
      rcases readPubKey_error vkey e hr with he | he
      · exact .inr (.inr ⟨e, rfl, .inl he⟩)
      · exact .inr (.inr ⟨e, rfl, .inr (.inr he)⟩)
    | ok k =>
      simp only
      split
      · exact .inr (.inr ⟨.value, rfl, .inr (.inr rfl)⟩)
      · exact .inl (by simp)

end InToto
