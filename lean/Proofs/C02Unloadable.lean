import InToto.Verify
/-!
# A link file that is there and cannot be loaded is never stepped over (C02, C18)

`load_links_for_layout` skips a candidate file only when it does not exist (`loadFile … = none`). A file that exists
under a name the verifier tries and whose text cannot be loaded (not JSON, cut off, an envelope whose payload is not
base64, content that is not link metadata) ends the loading with an error, whatever else is in the directory and
however many other functionaries' links would meet the threshold: verification does not succeed by leaving it out.
-/
namespace InToto

/-- One step: an unloadable file at a tried path makes `loadStepLinks` fail (with the error of the first such file in
the order the ids are tried, or an earlier one). -/
theorem loadStepLinks_error_of_unloadable (w : World) (dir name : Str) :
    ∀ (ids : List Str) (acc : Dict Str Metadata),
      (∃ k ∈ ids, ∃ e, loadFile w (pathJoin dir (linkFileName name k)) = some (.error e)) →
      ∃ e, loadStepLinks w dir name ids acc = .error e
  | [], _, h => by
      obtain ⟨k, hk, _⟩ := h
      cases hk
  | keyid :: rest, acc, h => by
      unfold loadStepLinks
      obtain ⟨k, hk, e, he⟩ := h
      cases hfile : loadFile w (pathJoin dir (linkFileName name keyid)) with
      | none =>
        simp only []
        cases List.mem_cons.mp hk with
        | inl heq => subst heq; rw [hfile] at he; cases he
        | inr hin => exact loadStepLinks_error_of_unloadable w dir name rest acc ⟨k, hin, e, he⟩
      | some r =>
        cases r with
        | error e' => exact ⟨e', rfl⟩
        | ok md =>
          simp only []
          cases List.mem_cons.mp hk with
          | inl heq => subst heq; rw [hfile] at he; cases he
          | inr hin => exact loadStepLinks_error_of_unloadable w dir name rest _ ⟨k, hin, e, he⟩

/-- All steps: if some step of the layout has a well-formed name and, among the ids tried for it, one whose file exists
and does not load, `load_links_for_layout` fails. -/
theorem loadLinksSteps_error_of_unloadable (w : World) (l : Layout) (dir : Str) :
    ∀ (steps : List Step) (acc : Dict Str (Dict Str Metadata)),
      (∃ st ∈ steps, ∃ n, nameOf st.name = .ok n ∧
        ∃ k ∈ candidateIds l st, ∃ e, loadFile w (pathJoin dir (linkFileName n k)) = some (.error e)) →
      ∃ e, loadLinksSteps w l dir steps acc = .error e
  | [], _, h => by
      obtain ⟨st, hst, _⟩ := h
      cases hst
  | step :: rest, acc, h => by
      unfold loadLinksSteps
      obtain ⟨st, hst, n, hn, hk⟩ := h
      cases hname : nameOf step.name with
      | error e' => exact ⟨e', rfl⟩
      | ok name =>
        simp only []
        cases hload : loadStepLinks w dir name (candidateIds l step) [] with
        | error e' => exact ⟨e', rfl⟩
        | ok links =>
          simp only []
          by_cases hthr : (links.length : Int) < step.threshold
          · exact ⟨.linkNotFound, by simp [hthr]⟩
          · simp only [hthr, if_false]
            cases List.mem_cons.mp hst with
            | inl heq =>
              subst heq
              rw [hname] at hn
              have hnn : name = n := Except.ok.inj hn
              subst hnn
              obtain ⟨e', he'⟩ := loadStepLinks_error_of_unloadable w dir name (candidateIds l st) [] hk
              rw [he'] at hload
              cases hload
            | inr hin => exact loadLinksSteps_error_of_unloadable w l dir rest _ ⟨st, hin, n, hn, hk⟩

/-- `load_links_for_layout` as a whole. -/
theorem C02_unloadable_link_never_skipped (w : World) (l : Layout) (dir : Str)
    (h : ∃ st ∈ l.steps, ∃ n, nameOf st.name = .ok n ∧
        ∃ k ∈ candidateIds l st, ∃ e, loadFile w (pathJoin dir (linkFileName n k)) = some (.error e)) :
    ∃ e, loadLinksForLayout w l dir = .error e :=
  loadLinksSteps_error_of_unloadable w l dir l.steps [] h

/-- The premise is met by any file that is present and is not JSON at all (`some none` in the world's file table). -/
theorem loadFile_not_json (w : World) (p : Str) (h : Dict.get? w.files p = some none) :
    loadFile w p = some (.error .other) := by
  unfold loadFile
  rw [h]

/-- The instance for text that is not JSON. -/
theorem C02_not_json_link_never_skipped (w : World) (l : Layout) (dir : Str) (st : Step) (n k : Str)
    (hst : st ∈ l.steps) (hn : nameOf st.name = .ok n) (hk : k ∈ candidateIds l st)
    (hfile : Dict.get? w.files (pathJoin dir (linkFileName n k)) = some none) :
    ∃ e, loadLinksForLayout w l dir = .error e :=
  C02_unloadable_link_never_skipped w l dir ⟨st, hst, n, hn, k, hk, .other, loadFile_not_json w _ hfile⟩

end InToto
