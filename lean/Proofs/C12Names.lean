import InToto.Run
/-!
# C12 — a stop finds the preliminary records of its own step only

`selectsPrelim` models the file-name test of `in_toto_record_stop` when the key
id is not known up front. `selectsPrelim_own`: the record `in_toto_record_start`
wrote for the step is selected. `selectsPrelim_other`: a record written for
**another** step name — one that starts with this step's name, extends it by a
dot, or anything else — is never selected (key ids are hexadecimal: no dot).
-/
namespace InToto

theorem stripPrefix?_append (p r : Str) : stripPrefix? p (p ++ r) = some r := by
  induction p with
  | nil => rfl
  | cons a p ih => simp [stripPrefix?, ih]

theorem stripPrefix?_some : ∀ (p l r : Str), stripPrefix? p l = some r → l = p ++ r
  | [], l, r, h => by simp [stripPrefix?] at h; simp [h]
  | _ :: _, [], r, h => by simp [stripPrefix?] at h
  | a :: p, b :: l, r, h => by
    simp only [stripPrefix?] at h
    split at h
    · rename_i hab
      subst hab
      simp [stripPrefix?_some p l r h]
    · cases h

theorem stripSuffix?_append (s r : Str) : stripSuffix? s (r ++ s) = some r := by
  simp [stripSuffix?, List.reverse_append, stripPrefix?_append]

theorem stripSuffix?_some (s l r : Str) (h : stripSuffix? s l = some r) : l = r ++ s := by
  unfold stripSuffix? at h
  cases hp : stripPrefix? s.reverse l.reverse with
  | none => simp [hp] at h
  | some x =>
    simp only [hp, Option.map_some, Option.some.injEq] at h
    have := stripPrefix?_some _ _ _ hp
    have h2 : l = (s.reverse ++ x).reverse := by rw [← this, List.reverse_reverse]
    rw [h2, List.reverse_append, List.reverse_reverse, h]

/-- Two splittings at a dot with dot-free left parts coincide. -/
theorem split_first_dot : ∀ (x y p q : Str), '.' ∉ x → '.' ∉ y → x ++ '.' :: p = y ++ '.' :: q → x = y ∧ p = q
  | [], [], p, q, _, _, h => by simpa using h
  | [], d :: y, p, q, _, hy, h => by
    simp only [List.nil_append, List.cons_append, List.cons.injEq] at h
    exact absurd (h.1 ▸ List.mem_cons_self) hy
  | c :: x, [], p, q, hx, _, h => by
    simp only [List.nil_append, List.cons_append, List.cons.injEq] at h
    exact absurd (h.1 ▸ List.mem_cons_self) hx
  | c :: x, d :: y, p, q, hx, hy, h => by
    simp only [List.cons_append, List.cons.injEq] at h
    have hx' : '.' ∉ x := fun hm => hx (List.mem_cons_of_mem _ hm)
    have hy' : '.' ∉ y := fun hm => hy (List.mem_cons_of_mem _ hm)
    obtain ⟨h1, h2⟩ := split_first_dot x y p q hx' hy' h.2
    exact ⟨by rw [h.1, h1], h2⟩

/-- Two splittings at a dot with dot-free right parts coincide. -/
theorem split_last_dot (a b m k : Str) (hm : '.' ∉ m) (hk : '.' ∉ k) (h : a ++ '.' :: m = b ++ '.' :: k) :
    a = b ∧ m = k := by
  have hr : m.reverse ++ '.' :: a.reverse = k.reverse ++ '.' :: b.reverse := by
    have := congrArg List.reverse h
    simpa [List.reverse_append] using this
  obtain ⟨h1, h2⟩ := split_first_dot _ _ _ _ (by simpa using hm) (by simpa using hk) hr
  exact ⟨by simpa using congrArg List.reverse h2, by simpa using congrArg List.reverse h1⟩

theorem take_no_dot {k : Str} (h : '.' ∉ k) : '.' ∉ trunc8 k := fun hm => h (List.mem_of_mem_take hm)

/-- **C12 (a stop finds its own step's record).** -/
theorem selectsPrelim_own (step keyid : Str) (hk : '.' ∉ keyid) :
    selectsPrelim step (unfinishedName step keyid) = true := by
  have h1 : unfinishedName step keyid = ('.' :: step ++ ['.']) ++ (trunc8 keyid ++ unfinishedSuffix) := by
    simp [unfinishedName]
  simp only [selectsPrelim, h1, stripPrefix?_append, stripSuffix?_append]
  simpa using take_no_dot hk

/-- **C12 (a stop never takes the preliminary record of another step).** Whatever
the two names are — one a prefix of the other, one the other followed by a dot
and more — the record written for `other` is selected for `step` only if
`other = step`. -/
theorem selectsPrelim_other (step other keyid : Str) (hk : '.' ∉ keyid)
    (h : selectsPrelim step (unfinishedName other keyid) = true) : other = step := by
  unfold selectsPrelim at h
  split at h
  · cases h
  · rename_i rest hrest
    split at h
    · cases h
    · rename_i mid hmid
      have e1 := stripPrefix?_some _ _ _ hrest
      have e2 := stripSuffix?_some _ _ _ hmid
      have hmid' : '.' ∉ mid := by
        intro hm
        have : mid.contains '.' = true := by simpa using hm
        simp at h
        exact h hm
      rw [e2] at e1
      -- '.' :: other ++ '.' :: trunc8 keyid ++ suffix = ('.' :: step ++ ['.']) ++ (mid ++ suffix)
      have e3 : (other ++ '.' :: trunc8 keyid) ++ unfinishedSuffix = (step ++ '.' :: mid) ++ unfinishedSuffix := by
        have : unfinishedName other keyid = '.' :: ((other ++ '.' :: trunc8 keyid) ++ unfinishedSuffix) := by
          simp [unfinishedName]
        rw [this] at e1
        have e1' : '.' :: ((other ++ '.' :: trunc8 keyid) ++ unfinishedSuffix) =
            '.' :: ((step ++ '.' :: mid) ++ unfinishedSuffix) := by
          rw [e1]; simp
        exact List.cons.inj e1' |>.2
      have e4 := List.append_cancel_right e3
      exact (split_last_dot other step (trunc8 keyid) mid (take_no_dot hk) hmid' e4).1

end InToto
